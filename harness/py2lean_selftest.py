#!/venv/bin/python
"""Self-test of the translator (harness/py2lean.py): does the Lean it emits mean what CPython / numpy mean?

The translator is part of the trusted base of the tie (DESIGN.md §13.2).  This test takes small Python functions, one per
construct of the supported subset, runs them in CPython on generated inputs (exact arithmetic: ints and `Fraction`s; numpy
functions on dyadic floats, which are exact), translates the same source with py2lean, and lets Lean decide
`translated f args = <CPython's result>` for every input.  Any `false` is a translator bug.

usage: harness/py2lean_selftest.py [--n 40]     exit 0 = all agree
"""
import ast
import math
import os
import random
import subprocess
import sys
import textwrap
from fractions import Fraction
from pathlib import Path

import numpy as np

sys.path.insert(0, str(Path(__file__).resolve().parent))
import py2lean as P  # noqa: E402

LEAN = Path(__file__).resolve().parent.parent / "lean" / "PyresampleModel"

SRC = '''
import math
import numpy as np

def t_for_range(n, ms, ws):
    acc = 0
    cnt = 0
    for i in range(n):
        keep = np.invert(ms[i])
        acc += keep * ws[i]
        cnt += keep
    return acc, cnt

def t_dict_unroll(d, h):
    u = d.get('unit') or 'radians'
    if u == 'radians':
        for k in ('a', 'b'):
            d[k] *= h
        d['note'] = 'm'
    return d['a'], d['b']

def t_masked_store(x, y, f):
    m = y > 0
    x[m] /= y[m]
    x[~m] = f
    return x

def t_slice_store(x, lo, hi, e):
    x[lo:hi] = e
    return x

def t_slice_store_end(x, lo, e, k):
    x[lo:] = e[:k]
    y = np.append(x, e[k:])
    return y, x.shape[0], len(e.shape)

def t_floordiv(a, b):
    return a // b

def t_mod(a, b):
    return a % b

def t_round(x):
    return round(x)

def t_int(x):
    return int(x)

def t_floor_ceil(x):
    return math.floor(x), math.ceil(x)

def t_np_floor_round(x):
    return np.floor(x), np.ceil(x), np.round(x), np.rint(x)

def t_chain(a, b, c):
    return a < b <= c

def t_minmax(a, b, c):
    return max(a, min(b, c)), min(a, b, c), abs(a - c)

def t_truthy_int(a):
    if a:
        return 1
    return 0

def t_opt_truthy(x):
    if x:
        return x
    return -1

def t_opt_bool(flag, other):
    if not flag and other:
        flag = True
    return flag

def t_none_or(x):
    return x is None or x > 0

def t_notnone_and(x):
    return x is not None and x > 2

def t_or_default(step):
    return -(step or 1)

def t_ifexp(start):
    return math.floor(start) if start is not None else None

def t_aug(a, b):
    a += b
    a -= 1
    a *= 2
    return a

def t_while(n):
    i = 0
    s = 0
    while i < n:
        s += i * i
        i += 1
    return s

def t_unpack(p):
    a, b = p
    a, b = b, a + b
    return a, b

def t_slice(sli, n):
    rem = (sli.stop - sli.start) % n
    if rem != 0:
        sli = slice(sli.start, sli.stop + (n - rem))
    return sli

def t_xor(a, b, c, d):
    return (a > b) ^ (c > d)

def t_div(a, b):
    return (a + 1) / b - a / 2

def t_literal(x):
    return x - 0.25 >= 0.125, x * 1.5

def t_clip_where(x, lo, hi):
    y = np.clip(x, lo, hi)
    return np.where(x < lo, -1.0, y), np.maximum(x, hi)

def t_nan(a, b):
    c = a / b
    d = np.where(c > 1, np.nan, c)
    e = np.where((d < 0) | np.isnan(d), 0.5, d)
    return c, d, e, np.abs(a) <= 2 * np.abs(b)

def t_modf(x, n):
    w, s = np.modf(x.clip(0, n - 1))
    return w, s.astype(int), np.clip(s.astype(int) + 1, 1, n - 1)

def t_none_not_in(a, b):
    if None not in (a, b):
        return a + b
    return -1

def t_elif(s):
    if s == 'guided' or s == 'dynamic':
        return 1
    elif s == 'static':
        return 2
    return 0

def t_neg_index(t):
    return t[-1] - t[0] + t[-2]

def t_substore(t, v):
    t = list(t)
    t[1] = v
    t[-1] = t[0] + 1
    return t
'''

I, Q, B, S, N = P.INT, P.RAT, P.BOOL, P.STR, P.NRAT
SPECS = [
    dict(name="t_floordiv", params=[("a", I), ("b", I)], returns=I, nz=["b"]),
    dict(name="t_mod", params=[("a", I), ("b", I)], returns=I, nz=["b"]),
    dict(name="t_round", params=[("x", Q)], returns=I),
    dict(name="t_int", params=[("x", Q)], returns=I),
    dict(name="t_floor_ceil", params=[("x", Q)], returns=P.tup(I, I)),
    dict(name="t_np_floor_round", params=[("x", Q)], returns=P.tup(I, I, I, I), numpy=True),
    dict(name="t_chain", params=[("a", I), ("b", I), ("c", I)], returns=B),
    dict(name="t_minmax", params=[("a", I), ("b", I), ("c", I)], returns=P.tup(I, I, I)),
    dict(name="t_truthy_int", params=[("a", I)], returns=I),
    dict(name="t_opt_truthy", params=[("x", P.opt(I))], returns=I),
    dict(name="t_opt_bool", params=[("flag", P.opt(B)), ("other", B)], returns=P.opt(B)),
    dict(name="t_none_or", params=[("x", P.opt(I))], returns=B),
    dict(name="t_notnone_and", params=[("x", P.opt(I))], returns=B),
    dict(name="t_or_default", params=[("step", P.opt(I))], returns=I),
    dict(name="t_ifexp", params=[("start", P.opt(Q))], returns=P.opt(I)),
    dict(name="t_aug", params=[("a", I), ("b", I)], returns=I),
    dict(name="t_while", params=[("n", I)], returns=I, fuel=True, small=["n"]),
    dict(name="t_unpack", params=[("p", P.tup(I, I))], returns=P.tup(I, I)),
    dict(name="t_slice", params=[("sli", P.sl(I)), ("n", I)], returns=P.sl(I), nz=["n"]),
    dict(name="t_xor", params=[("a", I), ("b", I), ("c", Q), ("d", Q)], returns=B),
    dict(name="t_div", params=[("a", Q), ("b", Q)], returns=Q, nz=["b"]),
    dict(name="t_literal", params=[("x", Q)], returns=P.tup(B, Q)),
    dict(name="t_clip_where", params=[("x", Q), ("lo", Q), ("hi", Q)], returns=P.tup(Q, Q), numpy=True),
    dict(name="t_nan", params=[("a", Q), ("b", Q)], returns=P.tup(N, N, N, B), numpy=True, nan_division=True, pow2=["b"]),
    dict(name="t_modf", params=[("x", Q), ("n", I)], returns=P.tup(Q, I, I), numpy=True, pos=["n"]),
    dict(name="t_none_not_in", params=[("a", P.opt(I)), ("b", P.opt(I))], returns=I),
    dict(name="t_elif", params=[("s", S)], returns=I),
    dict(name="t_neg_index", params=[("t", P.tup(I, I, I))], returns=I),
    dict(name="t_substore", params=[("t", P.tup(I, I, I)), ("v", I)], returns=P.tup(I, I, I)),
    dict(name="t_for_range", params=[("n", I), ("ms", ("list", B)), ("ws", ("list", Q))], returns=P.tup(Q, I), arrays=True,
         var_types={"acc": Q, "cnt": I},
         gen_args=lambda rng: (lambda k: [k, [rng.random() < 0.4 for _ in range(k)],
                                           [Fraction(rng.randrange(-64, 65), rng.choice([1, 2, 4])) for _ in range(k)]])(rng.randrange(0, 6))),
    dict(name="t_slice_store", params=[("x", ("list", I)), ("lo", I), ("hi", I), ("e", ("list", I))], returns=("list", I),
         raises=True, int_arrays=True, gen_args=lambda rng: _slice_args(rng, True)),
    dict(name="t_slice_store_end", params=[("x", ("list", I)), ("lo", I), ("e", ("list", I)), ("k", I)],
         returns=P.tup(("list", I), I, I), raises=True, int_arrays=True, gen_args=lambda rng: _slice_args(rng, False)),
    dict(name="t_masked_store", params=[("x", Q), ("y", Q), ("f", Q)], returns=Q, arrays=True, pow2=["y"]),
    dict(name="t_dict_unroll", params=[("d['unit']", P.opt(S)), ("d['a']", Q), ("d['b']", Q), ("h", Q)], returns=P.tup(Q, Q),
         gen_args=lambda rng: [rng.choice([None, "", "radians", "m", "rad"]), Fraction(rng.randrange(-64, 65), 4),
                               Fraction(rng.randrange(-64, 65), 8), Fraction(rng.randrange(-9, 10), 2)]),
]


def _slice_args(rng, with_hi):
    """arguments for the numpy slice stores: about half of them with matching shapes, the rest arbitrary (ValueError / broadcast)"""
    n = rng.randrange(0, 7)
    x = [rng.randrange(-9, 10) for _ in range(n)]
    lo, hi = rng.randrange(-8, 9), rng.randrange(-8, 9)
    ln = len(range(*slice(lo, hi if with_hi else None).indices(n)))
    if with_hi:
        m = ln if rng.random() < 0.5 else rng.randrange(0, 4)
        return [x, lo, hi, [rng.randrange(-9, 10) for _ in range(m)]]
    m = rng.randrange(0, 6)
    k = ln if rng.random() < 0.5 else rng.randrange(-6, 7)
    return [x, lo, [rng.randrange(-9, 10) for _ in range(max(m, k if rng.random() < 0.7 else 0))], k]


def gen(t, rng, spec, name):
    if t == I:
        v = rng.choice([0, 1, -1, 2, -2, 3, 7, -7, 10, -13, 255, -256]) if rng.random() < 0.7 else rng.randrange(-1000, 1000)
        if name in spec.get("nz", []) and v == 0:
            v = rng.choice([1, -1, 3, -5])
        if name in spec.get("small", []):
            v = rng.randrange(-2, 12)
        if name in spec.get("pos", []):
            v = rng.randrange(1, 9)
        return v
    if t == Q:
        v = Fraction(rng.randrange(-64, 65), rng.choice([1, 2, 4, 8]))      # dyadic: exact as a double
        if rng.random() < 0.3:
            v = Fraction(rng.choice([-5, -3, -1, 1, 3, 5, 7]), 2)             # exact halves (round-half-even)
        if name in spec.get("nz", []) and v == 0:
            v = Fraction(3, 4)
        if name in spec.get("pow2", []):
            v = Fraction(rng.choice([-4, -2, -1, 1, 2, 4, 8]), rng.choice([1, 2, 4])) if rng.random() < 0.85 else Fraction(0)   # division stays exact
        return v
    if t == B:
        return rng.random() < 0.5
    if t == S:
        return rng.choice(["guided", "dynamic", "static", "other", ""])
    if isinstance(t, tuple) and t[0] == "opt":
        return None if rng.random() < 0.3 else gen(t[1], rng, spec, name)
    if isinstance(t, tuple) and t[0] == "tuple":
        return tuple(gen(x, rng, spec, name) for x in t[1])
    if isinstance(t, tuple) and t[0] == "slice":
        a = gen(t[1], rng, spec, name)
        return slice(a, a + rng.randrange(0, 20), rng.choice([None, None, 1, -1, 2]))
    raise ValueError(t)


def to_py(v, t, numpy_mode):
    """the argument as the Python function receives it"""
    if numpy_mode == "arrays":
        if t == Q:
            return np.array([float(v)])
        if t == B:
            return np.array([bool(v)])
        if isinstance(t, tuple) and t[0] == "list":
            return [to_py(x, t[1], numpy_mode) for x in v]
        return v
    if numpy_mode and t == Q:
        return np.float64(float(v))
    return v


def lean_lit(v, t):
    if t == I:
        if float(v) != int(v):
            raise ValueError(f"integral value expected, got {v!r}")
        return f"({int(v)} : Int)"
    if t == Q:
        fr = v if isinstance(v, Fraction) else Fraction(int(v)) if isinstance(v, (int, np.integer)) and not isinstance(v, bool) else Fraction(float(v))
        return f"(mkRat ({fr.numerator}) {fr.denominator})"
    if t == B:
        return "true" if bool(v) else "false"
    if t == S:
        return '"' + v + '"'
    if t == N:
        f = float(v)
        return "(none : Option Rat)" if (math.isnan(f) or math.isinf(f)) else f"(some {lean_lit(Fraction(f), Q)})"
    if isinstance(t, tuple) and t[0] == "list":
        return "[" + ", ".join(lean_lit(x, t[1]) for x in v) + "]"
    if isinstance(t, tuple) and t[0] == "opt":
        return f"(none : {P.lean_ty(t)})" if v is None else f"(some {lean_lit(v, t[1])})"
    if isinstance(t, tuple) and t[0] == "tuple":
        return "(" + ", ".join(lean_lit(x, tt) for x, tt in zip(v, t[1])) + ")"
    if isinstance(t, tuple) and t[0] == "slice":
        st = "none" if v.step is None else f"(some ({v.step} : Int))"
        return f"(Gen.PySl.mk {lean_lit(v.start, t[1])} {lean_lit(v.stop, t[1])} {st})"
    raise ValueError(t)


def main():
    n = int(sys.argv[sys.argv.index("--n") + 1]) if "--n" in sys.argv else 40
    rng = random.Random(int(os.environ.get("VERIF_SEED", "0") or 0))
    tree = ast.parse(SRC)
    env = {}
    exec(compile(SRC, "<selftest>", "exec"), env)
    defs, checks, labels = [], [], []
    for spec in SPECS:
        fn = P.find_def(tree, spec["name"])
        sp = dict(spec, select=P._whole, owners=[])
        tr = P.Tr3(sp, fn)
        defs.append(tr.translate(sp["select"](fn)))
        numpy_mode = "arrays" if spec.get("arrays") else spec.get("numpy", False)
        for _ in range(n):
            args = spec["gen_args"](rng) if "gen_args" in spec else [gen(t, rng, spec, nm) for nm, t in spec["params"]]
            try:
                with np.errstate(all="ignore"):
                    pyargs, dicts = [], {}
                    for a, (nm, t) in zip(args, spec["params"]):
                        if "['" in nm:          # a dictionary entry as a parameter: the entries of one name form one dict argument
                            dn, key = nm.split("['")[0], nm.split("['")[1][:-2]
                            if dn not in dicts:
                                dicts[dn] = {}
                                pyargs.append(dicts[dn])
                            if a is not None:
                                dicts[dn][key] = to_py(a, t[1] if isinstance(t, tuple) and t[0] == "opt" else t, numpy_mode)
                        elif spec.get("int_arrays") and t == ("list", I):
                            pyargs.append(np.array(a, dtype=np.int64))
                        else:
                            pyargs.append(to_py(a, t, numpy_mode))
                    try:
                        res = env[spec["name"]](*pyargs)
                    except ValueError:
                        if not spec.get("raises"):
                            raise
                        res = None          # the translated function must return `none` exactly here
            except ZeroDivisionError:
                continue
            if spec.get("int_arrays") and res is not None:
                res = tuple(r.tolist() if isinstance(r, np.ndarray) else r for r in res) if isinstance(res, tuple) else res.tolist()
                n_ok = n_ok + 1 if "n_ok" in dir() else 1
            if isinstance(res, list) and not spec.get("int_arrays"):
                res = tuple(res)
            if spec.get("arrays"):       # elementwise reading: arrays of one element in, element 0 out
                res = tuple(np.asarray(r).ravel()[0] for r in res) if isinstance(res, tuple) else np.asarray(res).ravel()[0]
            call = f"Gen.{spec['name']} " + ("200 " if spec.get("fuel") else "") + " ".join(lean_lit(a, t) for a, (_, t) in zip(args, spec["params"]))
            checks.append(f"#eval decide (({call}) = {lean_lit(res, P.opt(spec['returns']) if spec.get('raises') else spec['returns'])})")
            labels.append((spec["name"], args, res))
    src = ("import PyresampleModel.Gen.Prelude\nset_option linter.unusedVariables false\nnamespace PyresampleModel.Gen\n\n" + "\n".join(defs) +
           "\nend PyresampleModel.Gen\nopen PyresampleModel\n" + "\n".join(checks) + "\n")
    scratch = LEAN / ".lake" / f"selftest_{os.getpid()}.lean"
    scratch.parent.mkdir(exist_ok=True)
    scratch.write_text(src)
    try:
        p = subprocess.run(["lake", "env", "lean", str(scratch)], cwd=LEAN, capture_output=True, text=True, timeout=1200)
    finally:
        if "--keep" not in sys.argv:
            scratch.unlink(missing_ok=True)
    out = [l.strip() for l in p.stdout.splitlines() if l.strip() in ("true", "false")]
    errs = [l for l in (p.stdout + p.stderr).splitlines() if "error" in l]
    if errs or len(out) != len(checks):
        print("py2lean self-test: Lean did not evaluate every check:", len(out), "of", len(checks))
        print("\n".join(errs[:10]))
        return 2
    bad = [lab for lab, o in zip(labels, out) if o != "true"]
    per = {}
    for (name, _, _), o in zip(labels, out):
        per.setdefault(name, [0, 0])
        per[name][0] += 1
        per[name][1] += o == "true"
    print(f"py2lean self-test: {len(out) - len(bad)} of {len(out)} evaluations agree with CPython / numpy over {len(SPECS)} constructs")
    for name, args, res in bad[:15]:
        print("  MISMATCH", name, args, "->", res)
    return 1 if bad else 0


if __name__ == "__main__":
    sys.exit(main())
