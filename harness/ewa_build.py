"""Rebuild pyresample.ewa._fornav from /repo's current C++ sources so that a change to `_fornav_templates.cpp` / `.h` is observed.

The Cython-generated `_fornav.cpp` sits (untracked) next to the tracked templates; there is no Cython in the sandbox, so a change
to `_fornav.pyx` alone cannot be observed (DESIGN.md).  Objects are cached under /verif/.build by content hash.
"""
import hashlib
import importlib.machinery
import importlib.util
import os
import subprocess
import sys
import sysconfig
from pathlib import Path

VERIF = Path(__file__).resolve().parent.parent
REPO = Path(os.environ.get("PYRESAMPLE_REPO", "/repo"))
EWA = REPO / "pyresample" / "ewa"
BUILD = VERIF / ".build"


def _sha(paths):
    h = hashlib.sha256()
    for p in paths:
        h.update(p.name.encode())
        h.update(p.read_bytes())
    return h.hexdigest()[:16]


def build_fornav():
    """returns (path to the .so or None, note)"""
    gen, tpl, hdr = EWA / "_fornav.cpp", EWA / "_fornav_templates.cpp", EWA / "_fornav_templates.h"
    if not (gen.exists() and tpl.exists() and hdr.exists()):
        return None, "generated _fornav.cpp not present: using the in-tree extension module"
    import numpy
    inc = ["-I" + sysconfig.get_paths()["include"], "-I" + numpy.get_include(), "-I" + str(EWA)]
    flags = ["-O2", "-fPIC", "-std=c++11", "-w", "-DNPY_NO_DEPRECATED_API=NPY_1_7_API_VERSION"]
    BUILD.mkdir(exist_ok=True)
    objs = []
    for src in (gen, tpl):
        key = _sha([src, hdr])
        obj = BUILD / f"{src.stem}-{key}.o"
        if not obj.exists():
            r = subprocess.run(["g++", *flags, *inc, "-c", str(src), "-o", str(obj)], capture_output=True, text=True)
            if r.returncode != 0:
                return None, f"compilation of {src.name} failed: {r.stderr[-600:]}"
        objs.append(obj)
    key = _sha(objs)
    sodir = BUILD / f"fornav-{key}"
    so = sodir / ("_fornav" + sysconfig.get_config_var("EXT_SUFFIX"))
    if not so.exists():
        sodir.mkdir(exist_ok=True)
        r = subprocess.run(["g++", "-shared", *map(str, objs), "-o", str(so)], capture_output=True, text=True)
        if r.returncode != 0:
            return None, f"link failed: {r.stderr[-600:]}"
    return so, f"_fornav rebuilt from /repo sources ({so.parent.name})"


def install_fornav():
    """load the rebuilt module as pyresample.ewa._fornav (before pyresample.ewa is imported); returns a note"""
    so, note = build_fornav()
    if so is None:
        return note
    name = "pyresample.ewa._fornav"
    if name in sys.modules and getattr(sys.modules[name], "__file__", "") == str(so):
        return note
    loader = importlib.machinery.ExtensionFileLoader(name, str(so))
    spec = importlib.util.spec_from_file_location(name, str(so), loader=loader)
    mod = importlib.util.module_from_spec(spec)
    loader.exec_module(mod)
    sys.modules[name] = mod
    import pyresample.ewa as pkg
    pkg._fornav = mod
    import pyresample.ewa.ewa as ewa_mod
    ewa_mod._fornav = mod
    import pyresample.ewa.dask_ewa as dm
    dm.fornav_weights_and_sums_wrapper = mod.fornav_weights_and_sums_wrapper
    dm.write_grid_image_single = mod.write_grid_image_single
    try:
        import pyresample.ewa._legacy_dask_ewa as lm
        if hasattr(lm, "fornav"):
            pass
    except Exception:
        pass
    return note
