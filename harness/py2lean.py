#!/usr/bin/env python3
"""py2lean — translate the scalar helper functions of /repo (a restricted, statically typed Python subset)
into Lean 4 definitions.  Pure stdlib (`ast`), so it runs under any python3.

The output, `lean/PyresampleModel/PyresampleModel/Gen/Src.lean`, is REGENERATED FROM /repo's WORKING TREE on every check
run (and by setup.sh).  `Props/Tie.lean` (hand-written, committed) proves that every generated definition equals the
hand-written model the property theorems are about.  A change to one of these functions therefore changes the
generated definition, the tie theorem stops compiling, and the proof obligation of the owning property is broken
— deterministically, not by sampling.  (DESIGN.md §13.)

Subset understood (anything else -> TranslationError, which is itself reported as a broken tie):
  statements : assignment (name / dotted attribute / tuple targets), augmented assignment, if/elif/else,
               while (-> fuel-bounded structural recursion), return, raise, yield, docstrings, ignorable calls
  expressions: int / float / str / None / bool literals, names, dotted attributes of parameters, constant subscripts
               of tuples, + - * / // % unary-, comparisons (chained), and/or/not, ^ on bools, conditional expressions,
               `x is None`, `x is not None` (with flow typing), truthiness of int / Optional,
               calls of max min abs round int float len math.floor math.ceil np.floor np.ceil np.min np.max np.abs slice
  types      : int rat bool str, opt T, slice T (start/stop : T, step : Option Int), tuple [T…]

Python semantics kept: `//` and `%` are floored (Int.fdiv / Int.fmod), `round` is half-to-even, `int()` truncates,
float literals are the exact rational value of the double, `/` is exact rational division (IEEE rounding is NOT
modelled — see DESIGN.md §3.2).
"""
from __future__ import annotations

import ast
import copy
import hashlib
import json
import os
import sys
import textwrap
from fractions import Fraction
from pathlib import Path

VERIF = Path(__file__).resolve().parent.parent
REPO = Path(os.environ.get("PYRESAMPLE_REPO", "/repo"))
OUT = VERIF / "lean" / "PyresampleModel" / "PyresampleModel" / "Gen" / "Src.lean"


class TranslationError(Exception):
    pass


# ------------------------------------------------------------------------------------------------
# types
# ------------------------------------------------------------------------------------------------
INT, RAT, BOOL, STR, NONE = "int", "rat", "bool", "str", "none"
NRAT = "nrat"      # a float that may be NaN (±inf is folded into NaN, as in Model/C06): Option Rat
SQRT = "sqrtfun"   # np.sqrt as a parameter: Rat → Option Rat


def opt(t):
    return ("opt", t)


def sl(t):
    return ("slice", t)


def tup(*ts):
    return ("tuple", tuple(ts))


def lean_ty(t):
    if t == INT:
        return "Int"
    if t == RAT:
        return "Rat"
    if t == BOOL:
        return "Bool"
    if t == STR:
        return "String"
    if t == NRAT:
        return "(Option Rat)"
    if t == SQRT:
        return "(Rat → Option Rat)"
    if isinstance(t, tuple) and t[0] == "list":
        return f"(List {lean_ty(t[1])})"
    if isinstance(t, tuple) and t[0] == "opt":
        return f"(Option {lean_ty(t[1])})"
    if isinstance(t, tuple) and t[0] == "slice":
        return f"(PySl {lean_ty(t[1])})"
    if isinstance(t, tuple) and t[0] == "tuple":
        return "(" + " × ".join(lean_ty(x) for x in t[1]) + ")"
    raise TranslationError(f"no Lean type for {t!r}")


def is_num(t):
    return t in (INT, RAT, NRAT)


def mangle(name):
    out = name.replace(".", "_").replace("['", "_").replace("']", "")
    if out in ("end", "at", "from", "fun", "open", "in", "then", "else", "do", "let", "have", "show", "by", "with",
               "match", "if", "structure", "def", "theorem", "instance", "where", "namespace", "section"):
        out += "_"
    return out


def proj(e, i, n):
    """i-th component of a Lean n-tuple (right-nested pairs)."""
    if n == 1:
        return e
    s = f"({e})"
    for _ in range(i):
        s += ".2"
    if i < n - 1:
        s += ".1"
    return s


def rat_lit(fr: Fraction):
    if fr.denominator == 1:
        return f"({fr.numerator} : Rat)"
    return f"(mkRat ({fr.numerator}) {fr.denominator})"


# ------------------------------------------------------------------------------------------------
# translator
# ------------------------------------------------------------------------------------------------
class Tr:
    def __init__(self, spec, fn_node):
        self.spec = spec
        self.fn = fn_node
        self.aux = []            # auxiliary (loop) definitions emitted before the main one
        self.nloops = 0
        self.mode = spec.get("mode", "function")       # function | generator | fragment
        self.raises = spec.get("raises", False)
        self.ret_ty = spec.get("returns")
        self.assume = spec.get("assume", {})
        self.ignore_calls = set(spec.get("ignore_calls", []))
        st = spec.get("skip_targets", {})
        self.skip_targets = st if isinstance(st, dict) else {k: None for k in st}   # target -> expected source (None = any)
        self.outputs = spec.get("outputs", [])
        self.yield_ty = spec.get("yield_type")

    # ---------------------------------------------------------------- expressions
    def dotted(self, node):
        if isinstance(node, ast.Name):
            return getattr(self, "aliases", {}).get(node.id, node.id)
        if isinstance(node, ast.Attribute):
            base = self.dotted(node.value)
            return None if base is None else base + "." + node.attr
        if isinstance(node, ast.Subscript) and isinstance(node.slice, ast.Constant) and isinstance(node.slice.value, str):
            base = self.dotted(node.value)          # a dictionary entry with a constant key is a variable: axis_info['first']
            return None if base is None else f"{base}[{node.slice.value!r}]"
        return None

    def coerce(self, e, t_from, t_to):
        if t_from == t_to:
            return e
        if t_from == INT and t_to == RAT:
            return f"(({e} : Int) : Rat)"
        if t_to == NRAT and t_from in (INT, RAT):
            return f"(some {self.coerce(e, t_from, RAT)})"
        if isinstance(t_to, tuple) and t_to[0] == "opt":
            if t_from == NONE:
                return f"(none : {lean_ty(t_to)})"
            return f"(some {self.coerce(e, t_from, t_to[1])})"
        if isinstance(t_to, tuple) and t_to[0] == "tuple" and isinstance(t_from, tuple) and t_from[0] == "tuple" \
                and len(t_to[1]) == len(t_from[1]):
            n = len(t_to[1])
            return "(" + ", ".join(self.coerce(proj(e, i, n), a, b) for i, (a, b) in enumerate(zip(t_from[1], t_to[1]))) + ")"
        if isinstance(t_to, tuple) and t_to[0] == "slice" and isinstance(t_from, tuple) and t_from[0] == "slice":
            a, b = t_from[1], t_to[1]
            return f"(PySl.mk {self.coerce(f'({e}).start', a, b)} {self.coerce(f'({e}).stop', a, b)} ({e}).step)"
        raise TranslationError(f"cannot coerce {t_from!r} to {t_to!r} in `{e}`")

    def join_num(self, ta, tb):
        if ta == tb and is_num(ta):
            return ta
        if NRAT in (ta, tb) and is_num(ta) and is_num(tb):
            return NRAT
        if is_num(ta) and is_num(tb):
            return RAT
        raise TranslationError(f"numeric operands expected, got {ta!r}, {tb!r}")

    def truthy(self, e, t):
        if t == BOOL:
            return e
        if t == INT:
            return f"(decide ({e} ≠ 0))"
        if t == RAT:
            return f"(decide ({e} ≠ 0))"
        if isinstance(t, tuple) and t[0] == "opt":
            inner = t[1]
            if is_num(inner):
                return f"(match {e} with | some v => decide (v ≠ 0) | none => false)"
            if inner == BOOL:
                return f"(match {e} with | some v => v | none => false)"
            if isinstance(inner, tuple) and inner[0] in ("tuple", "slice", "slice3"):
                return f"({e}).isSome"          # a non-empty tuple / a slice object is truthy
            raise TranslationError(f"truthiness of {t!r}")
        raise TranslationError(f"truthiness of {t!r}")

    def const(self, node, env):
        """Python value of a compile-time constant test (ints, len of a tuple-typed name, comparisons, not/and/or), else None"""
        try:
            if isinstance(node, ast.Constant) and isinstance(node.value, (int, bool)):
                return node.value
            if isinstance(node, ast.Call) and self.dotted(node.func) == "len" and len(node.args) == 1:
                d = self.dotted(node.args[0])
                if d in env and isinstance(env[d][1], tuple) and env[d][1][0] == "tuple":
                    return len(env[d][1][1])
            if isinstance(node, ast.Compare):
                vals = [self.const(node.left, env)] + [self.const(c, env) for c in node.comparators]
                if any(v is None for v in vals):
                    return None
                ok = True
                for op, a, b in zip(node.ops, vals, vals[1:]):
                    f = {ast.Lt: a < b, ast.LtE: a <= b, ast.Gt: a > b, ast.GtE: a >= b, ast.Eq: a == b, ast.NotEq: a != b}.get(type(op))
                    if f is None:
                        return None
                    ok = ok and f
                return ok
            if isinstance(node, ast.UnaryOp) and isinstance(node.op, ast.Not):
                v = self.const(node.operand, env)
                return None if v is None else (not v)
        except Exception:
            return None
        return None

    def expr(self, node, env):
        """-> (lean source, type)"""
        src = ast.unparse(node)
        cv = self.const(node, env)
        if isinstance(cv, bool):
            return ("true" if cv else "false"), BOOL
        if src in self.spec.get("expr_params", {}):
            return env[self.spec["expr_params"][src]]
        if isinstance(node, ast.Constant):
            v = node.value
            if isinstance(v, bool):
                return ("true" if v else "false"), BOOL
            if isinstance(v, int):
                return f"({v} : Int)", INT
            if isinstance(v, float):
                return rat_lit(Fraction(v)), RAT
            if isinstance(v, str):
                return json.dumps(v), STR
            if v is None:
                return "none", NONE
            raise TranslationError(f"constant {v!r}")
        d = self.dotted(node)
        if d is not None and d in env:
            return env[d]
        if d == "np.nan":
            return "(none : Option Rat)", NRAT
        if isinstance(node, ast.Attribute):
            base, tb = self.expr(node.value, env)
            if isinstance(tb, tuple) and tb[0] == "slice":
                if node.attr in ("start", "stop"):
                    return f"({base}).{node.attr}", tb[1]
                if node.attr == "step":
                    return f"({base}).step", opt(INT)
            raise TranslationError(f"attribute {src}")
        if isinstance(node, ast.Name):
            raise TranslationError(f"unknown name {node.id}")
        if isinstance(node, ast.Subscript) and isinstance(node.slice, ast.Constant) and isinstance(node.slice.value, str):
            key = f"{self.dotted(node.value)}[{node.slice.value!r}]"
            if key in env:
                return env[key]
            raise TranslationError(f"unknown dictionary entry {src}")
        if isinstance(node, ast.Subscript) and isinstance(node.value, ast.Attribute) and node.value.attr == "shape" \
                and isinstance(node.slice, ast.Constant) and node.slice.value == 0:
            d = self.dotted(node.value.value)
            if d is not None and d in env and env[d][1] == ("list", INT):
                return f"((({env[d][0]}).length : Nat) : Int)", INT        # rows of a 1-D array / number of rows
        if isinstance(node, ast.Subscript):
            base, tb = self.expr(node.value, env)
            idx = node.slice
            if isinstance(idx, ast.UnaryOp) and isinstance(idx.op, ast.USub) and isinstance(idx.operand, ast.Constant) \
                    and isinstance(idx.operand.value, int):
                idx = ast.Constant(value=-idx.operand.value)          # t[-1]
            if isinstance(tb, tuple) and tb[0] == "tuple" and isinstance(idx, ast.Constant) and isinstance(idx.value, int):
                n = len(tb[1])
                i = idx.value if idx.value >= 0 else n + idx.value
                if not 0 <= i < n:
                    raise TranslationError(f"index out of range in {src}")
                return proj(base, i, n), tb[1][i]
            if isinstance(tb, tuple) and tb[0] == "tuple" and isinstance(idx, ast.Tuple) and len(idx.elts) == 2 \
                    and isinstance(idx.elts[0], ast.Slice) and idx.elts[0].lower is None and idx.elts[0].upper is None \
                    and isinstance(idx.elts[1], ast.Constant) and isinstance(idx.elts[1].value, int):
                # elementwise reading of `points[:, k]`: component k of every point
                n = len(tb[1])
                i = idx.elts[1].value
                return proj(base, i, n), tb[1][i]
            if isinstance(tb, tuple) and tb[0] == "list" and tb[1] == INT:
                if isinstance(idx, ast.Slice) and idx.lower is None and idx.step is None and idx.upper is not None:
                    hi, th = self.expr(idx.upper, env)
                    if th == INT:
                        return f"(pyListTake {base} {hi})", tb                     # chunk[:pos]
                if isinstance(idx, ast.Slice) and idx.upper is None and idx.step is None and idx.lower is not None:
                    lo, tl = self.expr(idx.lower, env)
                    if tl == INT:
                        return f"(pyListDrop {base} {lo})", tb                     # next_array[remaining:]
                if not isinstance(idx, ast.Slice):
                    i, ti = self.expr(idx, env)
                    if ti == INT:
                        return f"(pyListGet {base} {i})", INT                      # chunk[pos]
            if isinstance(tb, tuple) and tb[0] == "list" and tb[1] in (BOOL, RAT) and not isinstance(idx, ast.Slice):
                i, ti = self.expr(idx, env)
                if ti == INT:
                    return f"(pyListGet{'B' if tb[1] == BOOL else 'Q'} {base} {i})", tb[1]   # masks[i], weights[i]
            if (is_num(tb) or tb == BOOL) and not isinstance(idx, (ast.Slice, ast.Tuple)):
                m, tm = self.expr(idx, env)
                if tm == BOOL:
                    # elementwise reading of a masked read `x[mask]`: the element itself (only ever used where the mask holds:
                    # the statement it feeds is a masked store with the same mask, see subscript_store)
                    self.masked_reads = getattr(self, "masked_reads", []) + [m]
                    return base, tb
            raise TranslationError(f"subscript {src}")
        if isinstance(node, ast.List) and node.elts:
            parts = [self.expr(e, env) for e in node.elts]
            if all(t == INT for _, t in parts):
                return "[" + ", ".join(e for e, _ in parts) + "]", ("list", INT)       # [0, self, other]
            raise TranslationError(f"list literal of non-integers: {src}")
        if isinstance(node, ast.Tuple):
            parts = [self.expr(e, env) for e in node.elts]
            return "(" + ", ".join(p[0] for p in parts) + ")", tup(*[p[1] for p in parts])
        if isinstance(node, ast.UnaryOp):
            e, t = self.expr(node.operand, env)
            if isinstance(node.op, ast.USub) and t == NRAT:
                return f"(nNeg {e})", NRAT
            if isinstance(node.op, ast.USub) and is_num(t):
                return f"(-{e})", t
            if isinstance(node.op, ast.Not):
                return f"(!{self.truthy(e, t)})", BOOL
            if isinstance(node.op, ast.Invert) and t == BOOL:
                return f"(!{e})", BOOL                       # `~mask` of a boolean array, elementwise
            raise TranslationError(f"unary {src}")
        if isinstance(node, ast.BinOp):
            a, ta = self.expr(node.left, env)
            b, tb = self.expr(node.right, env)
            op = node.op
            if isinstance(op, ast.BitXor) and ta == BOOL and tb == BOOL:
                return f"(xor {a} {b})", BOOL
            if isinstance(op, ast.BitAnd) and ta == BOOL and tb == BOOL:
                return f"({a} && {b})", BOOL
            if isinstance(op, ast.BitOr) and ta == BOOL and tb == BOOL:
                return f"({a} || {b})", BOOL
            if isinstance(op, (ast.Add, ast.Sub, ast.Mult)) and BOOL in (ta, tb) and (is_num(ta) or is_num(tb)):
                # a boolean (mask) used as the number 0 / 1: `mask * w`, `count += mask`
                other = tb if ta == BOOL else ta
                conv = "pyB2I" if other == INT else "pyB2Q"
                if ta == BOOL:
                    a, ta = f"({conv} {a})", (INT if other == INT else RAT)
                else:
                    b, tb = f"({conv} {b})", (INT if other == INT else RAT)
            if isinstance(op, (ast.Add, ast.Sub, ast.Mult, ast.Div)) and (NRAT in (ta, tb) or
                                                                          (isinstance(op, ast.Div) and self.spec.get("nan_division"))):
                self.join_num(ta, tb)
                f = {ast.Add: "nAdd", ast.Sub: "nSub", ast.Mult: "nMul", ast.Div: "nDiv"}[type(op)]
                return f"({f} {self.coerce(a, ta, NRAT)} {self.coerce(b, tb, NRAT)})", NRAT
            if isinstance(op, (ast.Add, ast.Sub, ast.Mult)):
                t = self.join_num(ta, tb)
                sym = {ast.Add: "+", ast.Sub: "-", ast.Mult: "*"}[type(op)]
                return f"({self.coerce(a, ta, t)} {sym} {self.coerce(b, tb, t)})", t
            if isinstance(op, ast.Div):
                self.join_num(ta, tb)
                return f"({self.coerce(a, ta, RAT)} / {self.coerce(b, tb, RAT)})", RAT
            if isinstance(op, ast.Pow) and isinstance(node.right, ast.Constant) and node.right.value == 2 and ta in (INT, RAT):
                return f"({a} * {a})", ta
            if isinstance(op, ast.FloorDiv) and ta == INT and tb == INT:
                return f"(Int.fdiv {a} {b})", INT
            if isinstance(op, ast.Mod) and ta == INT and tb == INT:
                return f"(Int.fmod {a} {b})", INT
            raise TranslationError(f"binary operator in {src} on {ta!r}, {tb!r}")
        if isinstance(node, ast.Compare):
            parts = []
            left, tl = self.expr(node.left, env)
            for op, rn in zip(node.ops, node.comparators):
                if isinstance(op, (ast.Is, ast.IsNot)) and isinstance(rn, ast.Constant) and rn.value is None:
                    if not (isinstance(tl, tuple) and tl[0] == "opt"):
                        if tl == NONE:
                            parts.append("true" if isinstance(op, ast.Is) else "false")
                            continue
                        # a non-optional value is never None
                        parts.append("false" if isinstance(op, ast.Is) else "true")
                        continue
                    parts.append(f"({left}).isNone" if isinstance(op, ast.Is) else f"({left}).isSome")
                    continue
                if isinstance(op, (ast.In, ast.NotIn)) and tl == NONE and not isinstance(rn, (ast.List, ast.Tuple)):
                    # `None in shape` for a tuple-typed value: some component is None
                    right, tr = self.expr(rn, env)
                    if not (isinstance(tr, tuple) and tr[0] == "tuple"):
                        raise TranslationError(f"membership in a non-tuple: {src}")
                    n = len(tr[1])
                    alts = [f"({proj(right, i, n)}).isNone" for i, ct in enumerate(tr[1]) if isinstance(ct, tuple) and ct[0] == "opt"]
                    inn = "(" + " || ".join(alts) + ")" if alts else "false"
                    parts.append(inn if isinstance(op, ast.In) else f"(!{inn})")
                    left, tl = right, tr
                    continue
                if isinstance(op, (ast.In, ast.NotIn)) and isinstance(rn, (ast.List, ast.Tuple)):
                    alts = []
                    for el in rn.elts:
                        e, te = self.expr(el, env)
                        if te != tl:
                            raise TranslationError(f"membership with mixed types in {src}")
                        alts.append(f"decide ({left} = {e})")
                    inn = "(" + " || ".join(alts) + ")" if alts else "false"
                    parts.append(inn if isinstance(op, ast.In) else f"(!{inn})")
                    continue
                right, tr = self.expr(rn, env)
                if tl == STR and tr == STR and isinstance(op, (ast.Eq, ast.NotEq)):
                    parts.append(f"decide ({left} {'=' if isinstance(op, ast.Eq) else '≠'} {right})")
                else:
                    t = self.join_num(tl, tr)
                    if t == NRAT:
                        f = {ast.Lt: "nLt", ast.LtE: "nLe", ast.Gt: "nGt", ast.GtE: "nGe", ast.Eq: "nEq"}.get(type(op))
                        if f is None:
                            raise TranslationError(f"comparison {src} on possibly-NaN values")
                        parts.append(f"({f} {self.coerce(left, tl, NRAT)} {self.coerce(right, tr, NRAT)})")
                        left, tl = right, tr
                        continue
                    sym = {ast.Lt: "<", ast.LtE: "≤", ast.Gt: ">", ast.GtE: "≥", ast.Eq: "=", ast.NotEq: "≠"}.get(type(op))
                    if sym is None:
                        raise TranslationError(f"comparison {src}")
                    parts.append(f"decide ({self.coerce(left, tl, t)} {sym} {self.coerce(right, tr, t)})")
                left, tl = right, tr
            return ("(" + " && ".join(parts) + ")" if len(parts) > 1 else f"({parts[0]})"), BOOL
        if isinstance(node, ast.BoolOp) and len(node.values) > 2 and isinstance(node.op, ast.And):
            # a and b and c  ==  a and (b and c)
            rest = ast.BoolOp(op=ast.And(), values=list(node.values[1:]))
            return self.expr(ast.BoolOp(op=ast.And(), values=[node.values[0], rest]), env)
        if isinstance(node, ast.BoolOp) and len(node.values) == 2:
            # `X is None or P(X)` / `X is not None and P(X)`: P sees X as a plain value
            env0 = dict(env)
            refined = self.none_test(node.values[0], env0)
            if refined is not None and isinstance(node.op, ast.And) and not refined[1]:
                # `X is None and P`: P does not see X
                b, tb = self.expr(node.values[1], env)
                return f"(match {env0[refined[0]][0]} with | none => {self.truthy(b, tb)} | some _ => false)", BOOL
            if refined is not None and ((isinstance(node.op, ast.Or) and not refined[1]) or
                                        (isinstance(node.op, ast.And) and refined[1])):
                name = refined[0]
                e0, t0 = env0[name]
                env_some = dict(env0)
                env_some[name] = (mangle(name) + "_v", t0[1])
                b, tb = self.expr(node.values[1], env_some)
                short = "true" if isinstance(node.op, ast.Or) else "false"
                return f"(match {e0} with | none => {short} | some {mangle(name)}_v => {self.truthy(b, tb)})", BOOL
        if isinstance(node, ast.BoolOp):
            vals = [self.expr(v, env) for v in node.values]
            if all(t == BOOL for _, t in vals):
                sym = " && " if isinstance(node.op, ast.And) else " || "
                return "(" + sym.join(e for e, _ in vals) + ")", BOOL
            # value-returning `a or b` with a : Optional[int], b : int   (e.g. `sli.step or 1`)
            if isinstance(node.op, ast.Or) and len(vals) == 2 and vals[0][1] == opt(INT) and vals[1][1] == INT:
                return f"(match {vals[0][0]} with | some v => if v ≠ 0 then v else {vals[1][0]} | none => {vals[1][0]})", INT
            if isinstance(node.op, ast.Or) and len(vals) == 2 and vals[0][1] == opt(STR) and vals[1][1] == STR:
                return f"(match {vals[0][0]} with | some v => if v ≠ \"\" then v else {vals[1][0]} | none => {vals[1][0]})", STR
            raise TranslationError(f"boolean operator on non-booleans: {src}")
        if isinstance(node, ast.IfExp):
            refined = self.none_test(node.test, env)
            if refined is not None:
                name, positive = refined
                e0, t0 = env[name]
                env_some = dict(env)
                env_some[name] = (mangle(name) + "_v", t0[1])
                some_node, none_node = (node.body, node.orelse) if positive else (node.orelse, node.body)
                a, ta = self.expr(some_node, env_some)
                b, tb = self.expr(none_node, env)
                t = self.join_branch(ta, tb)
                return (f"(match {e0} with | some {mangle(name)}_v => {self.coerce(a, ta, t)} "
                        f"| none => {self.coerce(b, tb, t)})"), t
            c, tc = self.expr(node.test, env)
            a, ta = self.expr(node.body, env)
            b, tb = self.expr(node.orelse, env)
            t = self.join_branch(ta, tb)
            return f"(if {self.truthy(c, tc)} then {self.coerce(a, ta, t)} else {self.coerce(b, tb, t)})", t
        if isinstance(node, ast.Call) and src in self.spec.get("call_params", {}):
            return env[self.spec["call_params"][src]]
        if src in self.spec.get("expr_params", {}):
            return env[self.spec["expr_params"][src]]
        if isinstance(node, ast.Call):
            return self.call(node, env)
        raise TranslationError(f"expression {src}")

    def join_branch(self, ta, tb):
        if ta == tb:
            return ta
        if ta == NONE:
            return tb if isinstance(tb, tuple) and tb[0] == "opt" else opt(tb)
        if tb == NONE:
            return ta if isinstance(ta, tuple) and ta[0] == "opt" else opt(ta)
        if is_num(ta) and is_num(tb):
            return NRAT if NRAT in (ta, tb) else RAT
        raise TranslationError(f"branches of different types {ta!r} / {tb!r}")

    def fresh(self, name):
        """a Lean identifier that shadows nothing (refined, non-Optional view of an Optional variable)"""
        self._fresh = getattr(self, "_fresh", 0) + 1
        return f"{mangle(name)}_r{self._fresh}"

    def notnone_conj(self, test, env):
        """test = conjunction of `X is not None` atoms and/or `None not in (X, Y, …)`  ->  list of dotted names, else None"""
        atoms = test.values if isinstance(test, ast.BoolOp) and isinstance(test.op, ast.And) else [test]
        names = []
        for a in atoms:
            if isinstance(a, ast.Compare) and len(a.ops) == 1 and isinstance(a.ops[0], ast.IsNot) \
                    and isinstance(a.comparators[0], ast.Constant) and a.comparators[0].value is None:
                d = self.dotted(a.left)
                if d is None or d not in env:
                    return None
                names.append(d)
            elif isinstance(a, ast.Compare) and len(a.ops) == 1 and isinstance(a.ops[0], ast.NotIn) \
                    and isinstance(a.left, ast.Constant) and a.left.value is None and isinstance(a.comparators[0], ast.Tuple):
                for el in a.comparators[0].elts:
                    d = self.dotted(el)
                    if d is None or d not in env:
                        return None
                    names.append(d)
            else:
                return None
        return names

    def none_test(self, test, env):
        """`X is None` / `X is not None` on an Optional variable -> (name, positive?)"""
        if isinstance(test, ast.Compare) and len(test.ops) == 1 and isinstance(test.comparators[0], ast.Constant) \
                and test.comparators[0].value is None and isinstance(test.ops[0], (ast.Is, ast.IsNot)):
            d = self.dotted(test.left)
            if d is None:
                return None
            try:
                e, t = self.expr(test.left, env)
            except TranslationError:
                return None
            if isinstance(t, tuple) and t[0] == "opt":
                if d not in env:
                    env[d] = (e, t)       # remember the Optional-typed attribute so that it can be refined
                return d, isinstance(test.ops[0], ast.IsNot)
        return None

    def call(self, node, env):
        fname = self.dotted(node.func)
        if isinstance(node.func, ast.Attribute) and node.func.attr == "astype":
            args = []
        else:
            args = []
            for a in node.args:
                try:
                    args.append(self.expr(a, env))
                except TranslationError:
                    args.append(("«untranslatable argument»", "untranslatable"))   # only an error if it is used
        if fname == "np.nan_to_num" and len(node.args) == 1 and [k.arg for k in node.keywords] == ["nan"] \
                and isinstance(node.keywords[0].value, ast.Constant) and node.keywords[0].value.value == 0:
            e, t = self.expr(node.args[0], env)
            return (f"(({e}).getD 0)", RAT) if t == NRAT else (e, t)
        if fname == "len" and len(node.args) == 1 and isinstance(node.args[0], ast.Attribute) and node.args[0].attr == "shape":
            d = self.dotted(node.args[0].value)
            if d is not None and d in env and env[d][1] == ("list", INT):
                return "(1 : Int)", INT         # a list-typed variable is a 1-D array (or: a stack of rows read row by row)
        if fname == "np.empty" and "np.empty.fill" in env and len(node.args) == 1 and isinstance(node.args[0], ast.Tuple) \
                and node.args[0].elts and [k.arg for k in node.keywords] in ([], ["dtype"]):
            n, tn = self.expr(node.args[0].elts[0], env)
            if tn == INT:
                # uninitialised memory: every cell holds the (arbitrary) parameter `np.empty.fill`
                return f"(List.replicate ({n}).toNat {env['np.empty.fill'][0]})", ("list", INT)
        if fname == "np.append" and len(args) == 2 and not node.keywords and args[0][1] == args[1][1] == ("list", INT):
            return f"({args[0][0]} ++ {args[1][0]})", ("list", INT)
        if fname == "np.vstack" and len(node.args) == 1 and isinstance(node.args[0], ast.Tuple) and len(node.args[0].elts) == 2 \
                and not node.keywords:
            (a, ta), (b, tb_) = self.expr(node.args[0].elts[0], env), self.expr(node.args[0].elts[1], env)
            if ta == tb_ == ("list", INT):
                return f"({a} ++ {b})", ("list", INT)       # rows stacked under rows
        if fname in ("np.asanyarray", "np.asarray", "list", "tuple") and len(args) == 1 and not node.keywords:
            return args[0]          # elementwise reading / tuple-as-list
        if fname == "np.array" and len(args) == 1 and [k.arg for k in node.keywords] in ([], ["dtype"]):
            return args[0]          # np.array(x, dtype=float) of numbers: the numbers
        if fname in self.spec.get("identity_calls", []) and args:
            return args[0]          # e.g. `_convert_units(radius, …)`: the value itself when the units are the CRS's own
        if fname == "np.isclose" and len(args) == 2 and sorted(k.arg for k in node.keywords) == ["atol", "rtol"] \
                and is_num(args[0][1]) and is_num(args[1][1]) and NRAT not in (args[0][1], args[1][1]):
            kw = {k.arg: self.expr(k.value, env) for k in node.keywords}
            a, b = self.coerce(args[0][0], args[0][1], RAT), self.coerce(args[1][0], args[1][1], RAT)
            atol, rtol = self.coerce(*kw["atol"], RAT), self.coerce(*kw["rtol"], RAT)
            return f"(decide (pyAbsQ ({a} - {b}) ≤ {atol} + {rtol} * pyAbsQ {b}))", BOOL
        if fname == "np.allclose" and len(args) == 2 and [k.arg for k in node.keywords] in ([], ["equal_nan"]):
            (a, ta), (b, tb) = args
            n = len(tb[1]) if isinstance(tb, tuple) and tb[0] == "tuple" else 0
            if n not in (2, 4):
                raise TranslationError("np.allclose on something that is not a pair / 4-tuple of numbers")
            want = tup(*([RAT] * n))
            return f"(npAllclose{n} {self.coerce(a, ta, want)} {self.coerce(b, tb, want)})", BOOL
        if isinstance(node.func, ast.Attribute) and node.func.attr == "get" and len(node.args) == 1 and not node.keywords \
                and isinstance(node.args[0], ast.Constant) and isinstance(node.args[0].value, str):
            key = f"{self.dotted(node.func.value)}[{node.args[0].value!r}]"
            if key in env and isinstance(env[key][1], tuple) and env[key][1][0] == "opt":
                return env[key]                     # d.get('k'): the entry, None when absent
            raise TranslationError(f"dictionary lookup {ast.unparse(node)}")
        if fname == "np.invert" and len(args) == 1 and not node.keywords and args[0][1] == BOOL:
            return f"(!{args[0][0]})", BOOL
        if fname == "np.expand_dims" and len(args) == 1 and [k.arg for k in node.keywords] == ["axis"]:
            return args[0]          # elementwise reading: a new axis of length one does not change the element
        inl = self.spec.get("inline", {}).get(fname)
        if isinstance(inl, dict) and "variants" in inl:
            # pick by the type of the chosen positional argument (e.g. pair vs 4-tuple)
            ta = args[inl["by_arg"]][1]
            key = len(ta[1]) if isinstance(ta, tuple) and ta[0] == "tuple" else None
            if key not in inl["variants"]:
                raise TranslationError(f"no variant of {fname} for argument type {ta!r}")
            inl = dict(inl["variants"][key], partial=inl.get("partial"), ignore_keywords=inl.get("ignore_keywords"))
            args = args[:len(inl["args"])]
        if isinstance(inl, dict) and node.keywords and inl.get("kwargs"):
            # keyword arguments of an inlined helper, put in the helper's positional order
            names = inl["kwargs"]
            extra = {}
            for kw in node.keywords:
                if kw.arg not in names:
                    raise TranslationError(f"unexpected keyword {kw.arg} in {ast.unparse(node)}")
                extra[kw.arg] = self.expr(kw.value, env)
            order = names[len(names) - (len(inl["args"]) - len(args)):] if len(args) < len(inl["args"]) else []
            if sorted(order) != sorted(extra):
                raise TranslationError(f"keywords of {ast.unparse(node)} do not complete the positional arguments")
            args = args + [extra[n] for n in order]
            node = ast.Call(func=node.func, args=node.args, keywords=[])
        if isinstance(inl, dict) and (not node.keywords or inl.get("ignore_keywords")):
            actual = []
            for pn in inl.get("implicit", []):
                if pn not in env:
                    raise TranslationError(f"inlined call {fname} needs {pn}")
                actual.append(env[pn][0])
            if inl.get("drop_args"):
                args = args[:len(args) - inl["drop_args"]]
            actual += [self.coerce(a, ta, want) for (a, ta), want in zip(args, inl.get("args", []))]
            if len(args) != len(inl.get("args", [])):
                raise TranslationError(f"inlined call {fname}: wrong number of arguments")
            for pn in inl.get("implicit_after", []):
                if pn not in env:
                    raise TranslationError(f"inlined call {fname} needs {pn}")
                actual.append(env[pn][0])
            return f"({inl['lean']} {' '.join(actual)})" if actual else inl["lean"], inl["returns"]
        if node.keywords:
            raise TranslationError(f"keyword arguments in {ast.unparse(node)}")
        if fname in ("max", "min") and len(args) >= 2:
            t = args[0][1]
            for _, ta in args[1:]:
                t = self.join_num(t, ta)
            f = {("max", INT): "pyMaxI", ("min", INT): "pyMinI", ("max", RAT): "pyMaxQ", ("min", RAT): "pyMinQ"}[(fname, t)]
            acc = self.coerce(args[0][0], args[0][1], t)
            for e, ta in args[1:]:
                acc = f"({f} {acc} {self.coerce(e, ta, t)})"
            return acc, t
        if fname in ("min", "max", "np.min", "np.max", "np.nanmin", "np.nanmax") and len(args) == 1 and isinstance(args[0][1], tuple) \
                and args[0][1][0] == "tuple":
            e, t = args[0]
            n = len(t[1])
            et = t[1][0]
            if not all(x == et for x in t[1]) or not is_num(et):
                raise TranslationError("np.min/np.max of a heterogeneous tuple")
            f = {("max", INT): "pyMaxI", ("min", INT): "pyMinI", ("max", RAT): "pyMaxQ", ("min", RAT): "pyMinQ"}[(fname[-3:], et)]
            acc = proj(e, 0, n)
            for i in range(1, n):
                acc = f"({f} {acc} {proj(e, i, n)})"
            return acc, et
        if fname == "np.isnan" and len(args) == 1 and is_num(args[0][1]):
            return (f"({args[0][0]}).isNone", BOOL) if args[0][1] == NRAT else ("false", BOOL)
        if fname == "np.sqrt" and len(args) == 1 and "np.sqrt" in env and is_num(args[0][1]):
            return f"(nBind {self.coerce(args[0][0], args[0][1], NRAT)} {env['np.sqrt'][0]})", NRAT
        if fname in ("abs", "np.abs") and len(args) == 1 and args[0][1] == NRAT:
            return f"(nAbs {args[0][0]})", NRAT
        if fname == "np.maximum" and len(args) == 2 and is_num(args[0][1]) and is_num(args[1][1]):
            t = self.join_num(args[0][1], args[1][1])
            f = {INT: "pyMaxI", RAT: "pyMaxQ", NRAT: "nMax"}[t]
            return f"({f} {self.coerce(args[0][0], args[0][1], t)} {self.coerce(args[1][0], args[1][1], t)})", t
        if fname in ("abs", "np.abs") and len(args) == 1 and is_num(args[0][1]):
            return (f"(pyAbsI {args[0][0]})" if args[0][1] == INT else f"(pyAbsQ {args[0][0]})"), args[0][1]
        if fname == "round" and len(args) == 1:
            e, t = args[0]
            return (e, INT) if t == INT else (f"(roundHalfEven {e})", INT)
        if fname == "int" and len(args) == 1:
            e, t = args[0]
            return (e, INT) if t == INT else (f"(pyTrunc {e})", INT)
        if fname == "float" and len(args) == 1:
            e, t = args[0]
            return self.coerce(e, t, RAT), RAT
        if isinstance(node.func, ast.Attribute) and node.func.attr == "astype" and len(node.args) == 1 and not node.keywords \
                and ast.unparse(node.args[0]) in ("int", "np.int32", "np.int64", "np.int_"):
            # `.astype(<integer type>)` of an integral value (np.floor / np.round result): the integer itself;
            # the wrap-around of a fixed-width integer type is not modelled
            e, t = self.expr(node.func.value, env)
            if t != INT:
                raise TranslationError(f"astype on a non-integral value: {ast.unparse(node)}")
            return e, INT
        if isinstance(node.func, ast.Attribute) and node.func.attr == "astype" and len(node.args) == 1 and not node.keywords \
                and ast.unparse(node.args[0]) in self.spec.get("float_dtypes", []):
            # `.astype(<the data's floating dtype>)`: the value itself (rounding to a narrower float is not modelled)
            e, t = self.expr(node.func.value, env)
            if t != RAT:
                raise TranslationError(f"astype(float dtype) on {t!r}")
            return e, RAT
        if fname in ("np.where", "da.where") and len(args) == 3 and args[0][1] == BOOL:
            t = self.join_branch(args[1][1], args[2][1])
            return f"(if {args[0][0]} then {self.coerce(args[1][0], args[1][1], t)} else {self.coerce(args[2][0], args[2][1], t)})", t
        if fname in ("np.clip",) and len(args) == 3:
            t = self.join_num(self.join_num(args[0][1], args[1][1]), args[2][1])
            fmx, fmn = ("pyMaxI", "pyMinI") if t == INT else ("pyMaxQ", "pyMinQ")
            v, lo, hi = (self.coerce(a, ta, t) for a, ta in args)
            return f"({fmn} ({fmx} {v} {lo}) {hi})", t
        if fname == "np.modf" and len(args) == 1 and args[0][1] == RAT:
            e = args[0][0]
            return f"(({e} - ((pyTrunc {e} : Int) : Rat)), (pyTrunc {e}))", tup(RAT, INT)     # (fractional part, integral part)
        if isinstance(node.func, ast.Attribute) and node.func.attr == "clip" and len(node.args) == 2 and not node.keywords:
            v, tv = self.expr(node.func.value, env)
            if is_num(tv) and tv != NRAT:
                lo, hi = args[0], args[1]
                t = self.join_num(self.join_num(tv, lo[1]), hi[1])
                fmx, fmn = ("pyMaxI", "pyMinI") if t == INT else ("pyMaxQ", "pyMinQ")
                return f"({fmn} ({fmx} {self.coerce(v, tv, t)} {self.coerce(lo[0], lo[1], t)}) {self.coerce(hi[0], hi[1], t)})", t
        if fname in ("np.round", "np.rint") and len(args) == 1:
            e, t = args[0]
            return (e, INT) if t == INT else (f"(roundHalfEven {e})", INT)
        if fname in ("math.floor", "np.floor", "da.floor") and len(args) == 1:
            e, t = args[0]
            return (e, INT) if t == INT else (f"(pyFloor {e})", INT)
        if fname in ("math.ceil", "np.ceil") and len(args) == 1:
            e, t = args[0]
            return (e, INT) if t == INT else (f"(pyCeil {e})", INT)
        if fname == "sum" and len(args) == 1 and args[0][1] == ("list", INT):
            return f"(({args[0][0]}).sum)", INT
        if fname == "len" and len(args) == 1 and args[0][1] == ("list", INT):
            return f"((({args[0][0]}).length : Nat) : Int)", INT
        if fname == "len" and len(args) == 1 and isinstance(args[0][1], tuple) and args[0][1][0] == "tuple":
            return f"({len(args[0][1][1])} : Int)", INT
        if fname == "slice" and 1 <= len(args) <= 3:
            if len(args) == 1:
                args = [("none", NONE)] + args
            (a, ta), (b, tb) = args[0], args[1]
            if ta == NONE and tb == NONE:
                t = opt(INT)
            else:
                t = self.join_branch(ta, tb)
            step = "none"
            if len(args) == 3:
                s, ts = args[2]
                step = self.coerce(s, ts, opt(INT))
            return f"(PySl.mk {self.coerce(a, ta, t)} {self.coerce(b, tb, t)} {step})", sl(t)
        raise TranslationError(f"call {ast.unparse(node)}")

    # ---------------------------------------------------------------- statements
    def assigned_names(self, stmts):
        out = []
        for s in ast.walk(ast.Module(body=list(stmts), type_ignores=[])):
            if isinstance(s, (ast.Assign, ast.AugAssign)):
                targets = s.targets if isinstance(s, ast.Assign) else [s.target]
                for t in targets:
                    for el in (t.elts if isinstance(t, ast.Tuple) else [t]):
                        d = self.dotted(el)
                        if d and d not in out:
                            out.append(d)
        return out

    def used_names(self, nodes):
        out = set()
        for n in nodes:
            for s in ast.walk(n):
                d = self.dotted(s) if isinstance(s, (ast.Name, ast.Attribute)) else None
                if d:
                    out.add(d)
        return out

    def finish_end(self, env):
        """falling off the end of the translated statements"""
        if self.mode == "generator":
            return self.wrap(env["$out"][0])
        if self.mode == "fragment":
            return self.fragment_result(env, None)
        raise TranslationError("function falls off its end without `return`")

    def wrap(self, e):
        return f"(some {e})" if self.raises else e

    def fragment_result(self, env, yielded):
        parts = []
        if self.yield_ty is not None:
            parts.append(f"(none : {lean_ty(opt(self.yield_ty))})" if yielded is None else f"(some {yielded})")
        for o in self.outputs:
            if o not in env:
                if self.raises:
                    return "none"   # an output that was never assigned on this path: AttributeError in Python
                raise TranslationError(f"output {o} undefined on some path")
            e, t = env[o]
            want = self.spec.get("output_types", {}).get(o, t)
            parts.append(self.coerce(e, t, want))
        return self.wrap("(" + ", ".join(parts) + ")")

    def bind(self, name, e, t, env):
        env = dict(env)
        env[name] = (mangle(name), t)
        return f"let {mangle(name)} : {lean_ty(t)} := {e}\n", env

    def block(self, stmts, env, k):
        """translate `stmts` then continue with k(env) -> Lean term (string)"""
        if not stmts:
            return k(env)
        s, rest = stmts[0], stmts[1:]

        def cont(env2):
            return self.block(rest, env2, k)

        if isinstance(s, ast.Expr) and isinstance(s.value, ast.Constant) and isinstance(s.value.value, str):
            return cont(env)
        if isinstance(s, ast.Expr) and isinstance(s.value, ast.Call) and self.dotted(s.value.func) in self.ignore_calls:
            return cont(env)
        if isinstance(s, ast.Pass):
            return cont(env)
        if isinstance(s, ast.Expr) and isinstance(s.value, ast.Yield):
            if s.value.value is None:
                raise TranslationError("bare yield")
            e, t = self.expr(s.value.value, env)
            e = self.coerce(e, t, self.yield_ty)
            if self.mode == "generator":
                return f"let out_ : {self._list_ty()} := out_ ++ [{e}]\n" + cont(env)
            if self.mode == "fragment":
                return self.fragment_result(env, e)   # one pass of the loop body ends at the yield
            raise TranslationError("yield in a plain function")
        if isinstance(s, ast.Return):
            if self.mode == "fragment" and (s.value is None or self.spec.get("ignore_return_value")):
                return self.fragment_result(env, None)
            if self.mode == "generator" and s.value is None:
                return self.wrap(env["$out"][0])
            if s.value is None:
                raise TranslationError("bare return")
            e, t = self.expr(s.value, env)
            return self.wrap(self.coerce(e, t, self.ret_ty) if self.ret_ty else e)
        if isinstance(s, ast.Raise):
            if not self.raises:
                raise TranslationError("raise in a function declared not to raise")
            return "none"
        if isinstance(s, ast.Assign):
            if len(s.targets) != 1:
                raise TranslationError("chained assignment")
            tgt = s.targets[0]
            if isinstance(tgt, ast.Tuple):
                names = [self.dotted(el) for el in tgt.elts]
                if any(n is None for n in names):
                    raise TranslationError("tuple target")
                if isinstance(s.value, ast.Tuple) and len(s.value.elts) == len(names):
                    vals = [self.expr(v, env) for v in s.value.elts]     # evaluated before any binding
                    code, env2 = "", env
                    tmp = []
                    for i, (e, t) in enumerate(vals):
                        c, env2 = self.bind(f"tmp{i}", e, t, env2)
                        code += c
                        tmp.append((mangle(f"tmp{i}"), t))
                    for n, (e, t) in zip(names, tmp):
                        c, env2 = self.bind(n, e, t, env2)
                        code += c
                    return code + cont(env2)
                e, t = self.expr(s.value, env)
                if not (isinstance(t, tuple) and t[0] == "tuple" and len(t[1]) == len(names)):
                    raise TranslationError(f"cannot unpack {t!r}")
                c, env2 = self.bind("tmp_unpack", e, t, env)
                code = c
                for i, n in enumerate(names):
                    c, env2 = self.bind(n, proj("tmp_unpack", i, len(names)), t[1][i], env2)
                    code += c
                return code + cont(env2)
            name = self.dotted(tgt)
            if name is None and isinstance(tgt, ast.Subscript):
                return self.subscript_store(s, tgt, env, cont)
            if name is None:
                raise TranslationError(f"assignment target {ast.unparse(tgt)}")
            if name in self.skip_targets:
                want_src = self.skip_targets[name]
                if want_src is not None and ast.dump(s) != ast.dump(ast.parse(want_src).body[0]):
                    raise TranslationError(f"statement outside the translated subset changed: `{ast.unparse(s)[:100]}` "
                                           f"(expected `{want_src}`)")
                return cont(env)
            if isinstance(tgt, ast.Subscript) and not (isinstance(tgt.slice, ast.Constant) and isinstance(tgt.slice.value, str)):
                return self.subscript_store(s, tgt, env, cont)
            if isinstance(s.value, ast.Call):
                inl = self.spec.get("inline", {}).get(self.dotted(s.value.func))
                if isinstance(inl, dict) and inl.get("partial"):
                    if not self.raises:
                        raise TranslationError("call of a raising helper in a function declared not to raise")
                    e, t = self.expr(s.value, env)           # t = the type of the value on success
                    env2 = dict(env)
                    env2[name] = (mangle(name), t)
                    return f"(match {e} with\n| none => none\n| some {mangle(name)} =>\n{indent(cont(env2))})"
            rhs = self.dotted(s.value) if isinstance(s.value, (ast.Name, ast.Attribute)) else None
            if rhs is not None and rhs not in env and any(k.startswith(rhs + ".") for k in env) and isinstance(tgt, ast.Name):
                # `adef = self.target_area`: a second name for an object whose attributes are parameters
                if not hasattr(self, "aliases"):
                    self.aliases = {}
                self.aliases[tgt.id] = rhs
                return cont(env)
            self.masked_reads = []
            e, t = self.expr(s.value, env)
            if self.masked_reads:
                # `v = x[mask]`: v is "x at this element", meaningful only under that mask (checked at the masked store using it)
                if len(set(self.masked_reads)) != 1:
                    raise TranslationError(f"masked reads under different masks in `{ast.unparse(s)[:80]}`")
                if not hasattr(self, "masked_vars"):
                    self.masked_vars = {}
                self.masked_vars[name] = self.masked_reads[0]
                self.masked_reads = []
            want = self.spec.get("var_types", {}).get(name)
            if want is not None:
                e, t = self.coerce(e, t, want), want
            if t == NONE:
                raise TranslationError(f"`{name} = None` needs a declared type")
            code, env2 = self.bind(name, e, t, env)
            return code + cont(env2)
        if isinstance(s, ast.AugAssign):
            return self.block([ast.Assign(targets=[s.target], value=ast.BinOp(left=s.target, op=s.op, right=s.value))] + rest,
                              env, k)
        if isinstance(s, ast.If) and self.notnone_conj(s.test, env) is not None and \
                (isinstance(s.test, ast.BoolOp) or isinstance(s.test.ops[0], ast.NotIn)):
            names = self.notnone_conj(s.test, env)
            opt_names = [n for n in names if isinstance(env[n][1], tuple) and env[n][1][0] == "opt"]
            else_code = self.block(list(s.orelse) + rest, env, k)
            env_then = dict(env)
            fresh = {}
            for n in opt_names:
                fresh[n] = self.fresh(n)
                env_then[n] = (fresh[n], env[n][1][1])
            code = self.block(list(s.body) + rest, env_then, k)
            for n in reversed(opt_names):
                code = f"(match {env[n][0]} with\n| some {fresh[n]} =>\n{indent(code)}\n| none =>\n{indent(else_code)})"
            return code
        if isinstance(s, ast.If):
            refined = self.none_test(s.test, env)
            bare = self.dotted(s.test)
            if refined is not None:
                name, positive = refined
                e0, t0 = env[name]
                env_some = dict(env)
                fr = self.fresh(name)
                env_some[name] = (fr, t0[1])
                some_b, none_b = (s.body, s.orelse) if positive else (s.orelse, s.body)
                a = self.block(list(some_b) + rest, env_some, k)
                b = self.block(list(none_b) + rest, env, k)
                return f"(match {e0} with\n| some {fr} =>\n{indent(a)}\n| none =>\n{indent(b)})"
            if bare is not None and bare in env and isinstance(env[bare][1], tuple) and env[bare][1][0] == "opt" \
                    and is_num(env[bare][1][1]):
                # `if chunk:` on an Optional number: truthy iff not None and non-zero; inside, it is a number
                e0, t0 = env[bare]
                env_some = dict(env)
                fr = self.fresh(bare)
                env_some[bare] = (fr, t0[1])
                a = self.block(list(s.body) + rest, env_some, k)
                b_some = self.block(list(s.orelse) + rest, env_some, k)
                b = self.block(list(s.orelse) + rest, env, k)
                return (f"(match {e0} with\n| some {fr} =>\n  if {fr} ≠ 0 then\n{indent(a, 4)}\n  else\n"
                        f"{indent(b_some, 4)}\n| none =>\n{indent(b)})")
            if ast.unparse(s.test) in self.assume:
                c = "true" if self.assume[ast.unparse(s.test)] else "false"
            else:
                c, tc = self.expr(s.test, env)
                c = self.truthy(c, tc)
            if c in ("true", "(true)"):
                return self.block(list(s.body) + rest, env, k)
            if c in ("false", "(false)"):
                return self.block(list(s.orelse) + rest, env, k)
            a = self.block(list(s.body) + rest, env, k)
            b = self.block(list(s.orelse) + rest, env, k)
            return f"if {c} then\n{indent(a)}\nelse\n{indent(b)}"
        if isinstance(s, ast.With) and all(isinstance(i.context_expr, ast.Call) and self.dotted(i.context_expr.func) == "np.errstate"
                                           and i.optional_vars is None for i in s.items):
            return self.block(list(s.body) + rest, env, k)       # `with np.errstate(...)`: only silences warnings
        if isinstance(s, ast.While):
            return self.loop(s, rest, env, k)
        if isinstance(s, ast.For):
            return self.for_range(s, rest, env, k)
        raise TranslationError(f"statement {type(s).__name__}: {ast.unparse(s)[:80]}")

    def subscript_store(self, s, tgt, env, cont):
        """`name[k] = e` on a tuple-typed (list-valued) variable with a constant index"""
        base = self.dotted(tgt.value)
        sl_ = tgt.slice
        if base is not None and base in env and env[base][1] == ("list", INT) and isinstance(sl_, ast.Slice) \
                and sl_.step is None and sl_.lower is not None:
            # numpy `x[lo:hi] = e` on a 1-D array: shapes must agree (or e has one element), else ValueError
            if not self.raises:
                raise TranslationError("slice store in a function declared not to raise")
            lo, tl = self.expr(sl_.lower, env)
            hi, th = self.expr(sl_.upper, env) if sl_.upper is not None else ("none", None)
            e, t = self.expr(s.value, env)
            if tl != INT or th not in (INT, None) or t != ("list", INT):
                raise TranslationError(f"assignment target {ast.unparse(tgt)}")
            his = "none" if th is None else f"(some {hi})"
            env2 = dict(env)
            env2[base] = (mangle(base), ("list", INT))
            return (f"(match pySliceStore {env[base][0]} {lo} {his} {e} with\n| none => none\n| some {mangle(base)} =>\n"
                    f"{indent(cont(env2))})")
        if isinstance(sl_, ast.UnaryOp) and isinstance(sl_.op, ast.USub) and isinstance(sl_.operand, ast.Constant) \
                and isinstance(sl_.operand.value, int):
            sl_ = ast.Constant(value=-sl_.operand.value)
        if base is not None and base in env and (is_num(env[base][1]) or env[base][1] == BOOL) \
                and not isinstance(sl_, (ast.Slice, ast.Tuple, ast.Constant)):
            # elementwise reading of a masked store `x[mask] = e`: x = e where the mask holds, x elsewhere; masked reads
            # `y[mask2]` inside e are allowed only with the very same mask
            m, tm = self.expr(sl_, env)
            if tm != BOOL:
                raise TranslationError(f"assignment target {ast.unparse(tgt)}")
            self.masked_reads = []
            e, t = self.expr(s.value, env)
            via_vars = [mv for n, mv in getattr(self, "masked_vars", {}).items() if n in self.used_names([s.value])]
            if any(r != m for r in self.masked_reads + via_vars):
                raise TranslationError(f"masked read under a different mask in `{ast.unparse(s)[:80]}`")
            self.masked_reads = []
            e0, t0 = env[base]
            tj = self.join_branch(t0, t)
            code, env2 = self.bind(base, f"(if {m} then {self.coerce(e, t, tj)} else {self.coerce(e0, t0, tj)})", tj, env)
            return code + cont(env2)
        if base is None or base not in env or not (isinstance(env[base][1], tuple) and env[base][1][0] == "tuple") \
                or not (isinstance(sl_, ast.Constant) and isinstance(sl_.value, int)):
            raise TranslationError(f"assignment target {ast.unparse(tgt)}")
        e0, t0 = env[base]
        n = len(t0[1])
        i = sl_.value if sl_.value >= 0 else n + sl_.value
        if not 0 <= i < n:
            raise TranslationError(f"index out of range in {ast.unparse(tgt)}")
        e, t = self.expr(s.value, env)
        parts = [proj(e0, j, n) for j in range(n)]
        parts[i] = self.coerce(e, t, t0[1][i])
        code, env2 = self.bind(base, "(" + ", ".join(parts) + ")", t0, env)
        return code + cont(env2)

    def _list_ty(self):
        return f"(List {lean_ty(self.yield_ty)})"

    def loop(self, s, rest, env, k):
        if s.orelse:
            raise TranslationError("while … else")
        for n in ast.walk(ast.Module(body=list(s.body), type_ignores=[])):
            if isinstance(n, (ast.Break, ast.Continue, ast.Return)):
                raise TranslationError("break / continue / return inside while")
        self.nloops += 1
        lname = f"{self.spec['name']}_loop{self.nloops}"
        state = [n for n in self.assigned_names(s.body) if n in env]
        if self.mode == "generator":
            state.append("$out")
        used = self.used_names([s.test] + list(s.body))
        params = [n for n in env if n not in state and (n in used or any(u.startswith(n + ".") for u in used)) and n != "$out"]
        st_ty = [env[n][1] for n in state]

        def lty(t):
            return self._list_ty() if isinstance(t, tuple) and t[0] == "list" else lean_ty(t)

        st_lean = "(" + " × ".join(lty(t) for t in st_ty) + ")" if len(state) > 1 else lty(st_ty[0])
        pat = "(" + ", ".join(self._ln(n) for n in state) + ")" if len(state) > 1 else self._ln(state[0])
        inner_env = {n: (self._ln(n), env[n][1]) for n in list(params) + state}

        def recur(env2):
            vals = [env2[n][0] for n in state]
            return f"{lname} {' '.join(self._ln(p) for p in params)} fuel " + ("(" + ", ".join(vals) + ")" if len(vals) > 1 else vals[0])

        saved_mode_wrap = self.raises
        self.raises = False          # the loop body itself cannot raise in the supported subset
        try:
            c, tc = self.expr(s.test, inner_env)
            body = self.block(list(s.body), inner_env, recur)
        finally:
            self.raises = saved_mode_wrap
        sig = " ".join(f"({self._ln(p)} : {lty(env[p][1])})" for p in params)
        self.aux.append(
            f"def {lname} {sig} : Nat → {st_lean} → {st_lean}\n"
            f"  | 0, st => st\n"
            f"  | fuel + 1, {pat} =>\n"
            f"    if {self.truthy(c, tc)} then\n{indent(body, 6)}\n    else {pat}\n")
        call = f"{lname} {' '.join(env[p][0] for p in params)} fuel " + \
            ("(" + ", ".join(env[n][0] for n in state) + ")" if len(state) > 1 else env[state[0]][0])
        code = f"let st_ := {call}\n"
        env2 = dict(env)
        for i, n in enumerate(state):
            code += f"let {self._ln(n)} : {lty(env[n][1])} := {proj('st_', i, len(state))}\n"
            env2[n] = (self._ln(n), env[n][1])
        self.uses_fuel = True
        return code + self.block(rest, env2, k)

    def for_range(self, s, rest, env, k):
        """`for i in range(n): body` -> a left fold of the (emitted) body function over `List.range n`;
        `for k in (<constants>): body` -> the body once per constant, in order (unrolled)"""
        it = s.iter
        if isinstance(it, (ast.Tuple, ast.List)) and it.elts and all(isinstance(e, ast.Constant) for e in it.elts) \
                and isinstance(s.target, ast.Name) and not s.orelse:
            var = s.target.id
            for n in ast.walk(ast.Module(body=list(s.body), type_ignores=[])):
                if isinstance(n, (ast.Break, ast.Continue, ast.Return, ast.Yield)):
                    raise TranslationError("break / continue / return / yield inside for")
                if isinstance(n, ast.Name) and n.id == var and isinstance(n.ctx, ast.Store):
                    raise TranslationError(f"loop variable {var} is assigned in the loop")
            if var in env:
                raise TranslationError(f"loop variable {var} shadows a variable")

            class Sub(ast.NodeTransformer):
                def __init__(self, c):
                    self.c = c

                def visit_Name(self, node):
                    return ast.copy_location(ast.Constant(value=self.c), node) if node.id == var else node
            unrolled = []
            for e in it.elts:
                for st in s.body:
                    unrolled.append(ast.fix_missing_locations(Sub(e.value).visit(copy.deepcopy(st))))
            return self.block(unrolled + list(rest), env, k)
        if s.orelse or not isinstance(s.target, ast.Name) or not (isinstance(it, ast.Call) and self.dotted(it.func) == "range"
                                                                    and len(it.args) == 1 and not it.keywords):
            raise TranslationError(f"for loop other than `for i in range(n)`: {ast.unparse(s)[:60]}")
        for n in ast.walk(ast.Module(body=list(s.body), type_ignores=[])):
            if isinstance(n, (ast.Break, ast.Continue, ast.Return, ast.Yield)):
                raise TranslationError("break / continue / return / yield inside for")
        cnt, tc = self.expr(it.args[0], env)
        if tc != INT:
            raise TranslationError("range() of a non-integer")
        ivar = s.target.id
        assigned = self.assigned_names(s.body)
        if ivar in assigned or ivar in env:
            raise TranslationError(f"loop variable {ivar} is assigned in the loop or shadows a variable")
        state = [n for n in assigned if n in env]
        if not state:
            raise TranslationError("for loop without loop-carried variables")
        params = [n for n in env if n not in state and n != "$out"]
        self.nloops += 1
        lname = f"{self.spec['name']}_body{self.nloops}"
        st_ty = [env[n][1] for n in state]
        st_lean = "(" + " × ".join(lean_ty(t) for t in st_ty) + ")" if len(state) > 1 else lean_ty(st_ty[0])
        inner_env = {n: (self._ln(n), env[n][1]) for n in params + state}
        inner_env[ivar] = (mangle(ivar), INT)

        def pack(env2):
            vals = [self.coerce(env2[n][0], env2[n][1], t) for n, t in zip(state, st_ty)]
            return "(" + ", ".join(vals) + ")" if len(vals) > 1 else vals[0]

        saved = self.raises
        self.raises = False
        try:
            body = self.block(list(s.body), inner_env, pack)
        finally:
            self.raises = saved
        sig = " ".join(f"({self._ln(p)} : {lean_ty(env[p][1])})" for p in params)
        unpack = "".join(f"let {self._ln(n)} : {lean_ty(t)} := {proj('st_', i, len(state))}\n" for i, (n, t) in enumerate(zip(state, st_ty)))
        self.aux.append(f"def {lname} {sig} (st_ : {st_lean}) ({mangle(ivar)} : Int) : {st_lean} :=\n{indent(unpack + body)}\n")
        init = "(" + ", ".join(env[n][0] for n in state) + ")" if len(state) > 1 else env[state[0]][0]
        code = (f"let st_ : {st_lean} := (List.range ({cnt}).toNat).foldl (fun st_ i_ => {lname} {' '.join(env[p][0] for p in params)} st_ (Int.ofNat i_)) "
                f"{init}\n")
        env2 = dict(env)
        for i, n in enumerate(state):
            code += f"let {self._ln(n)} : {lean_ty(env[n][1])} := {proj('st_', i, len(state))}\n"
            env2[n] = (self._ln(n), env[n][1])
        return code + self.block(rest, env2, k)

    def _ln(self, n):
        return "out_" if n == "$out" else mangle(n)

    # ---------------------------------------------------------------- whole definition
    def translate(self, stmts):
        self.uses_fuel = False
        env = {}
        sig = []
        for pname, pty in self.spec["params"]:
            env[pname] = (mangle(pname), pty)
            sig.append(f"({mangle(pname)} : {lean_ty(pty)})")
        if self.mode == "generator":
            env["$out"] = ("out_", ("list", self.yield_ty))
        body = self.block(list(stmts), env, self.finish_end)
        if self.mode == "generator":
            body = f"let out_ : {self._list_ty()} := []\n" + body
            res = self._list_ty()
        elif self.mode == "fragment":
            parts = ([lean_ty(opt(self.yield_ty))] if self.yield_ty is not None else []) + \
                [lean_ty(self.spec["output_types"][o]) for o in self.outputs]
            res = "(" + " × ".join(parts) + ")"
        else:
            res = lean_ty(self.ret_ty)
        if self.raises:
            res = f"(Option {res})"
        if self.uses_fuel:
            sig = ["(fuel : Nat)"] + sig
        out = "".join(a + "\n" for a in self.aux)
        out += f"def {self.spec['name']} {' '.join(sig)} : {res} :=\n{indent(body)}\n"
        return out


def indent(s, n=2):
    return textwrap.indent(s, " " * n)


# ------------------------------------------------------------------------------------------------
# what is translated
# ------------------------------------------------------------------------------------------------
def find_def(tree, qualname):
    node = tree
    for part in qualname.split("."):
        for ch in node.body:
            if isinstance(ch, (ast.FunctionDef, ast.ClassDef)) and ch.name == part:
                node = ch
                break
        else:
            raise TranslationError(f"definition {qualname} not found")
    return node


def _whole(fn):
    return fn.body


def _first_while_body(fn):
    for s in fn.body:
        if isinstance(s, ast.While):
            return s.body
    raise TranslationError("no while loop")


def _from_if(testsrc):
    def sel(fn):
        for i, s in enumerate(fn.body):
            if isinstance(s, ast.If) and ast.unparse(s.test) == testsrc:
                return fn.body[i:]
        raise TranslationError(f"`if {testsrc}:` not found")
    return sel


def _after_call(callsrc):
    """statements after the one assignment whose right-hand side is the given (untranslatable) call"""
    def sel(fn):
        for i, s in enumerate(fn.body):
            if isinstance(s, ast.Assign) and ast.unparse(s.value).replace(" ", "") == callsrc.replace(" ", ""):
                return fn.body[i + 1:]
        raise TranslationError(f"call `{callsrc}` not found")
    return sel


def _assignments_to(*targets, guards=()):
    """the top-level assignments of the function whose (dotted) target is one of `targets`, in source order;
    `guards` are statements that must be present verbatim somewhere at top level"""
    def sel(fn):
        have = {ast.dump(s) for s in fn.body}
        for g in guards:
            if ast.dump(ast.parse(g).body[0]) not in have:
                raise TranslationError(f"expected statement `{g}` not found")
        out = []
        for s in fn.body:
            if isinstance(s, ast.Assign) and len(s.targets) == 1:
                try:
                    d = ast.unparse(s.targets[0])
                except Exception:
                    continue
                if d in targets:
                    out.append(s)
        if not out:
            raise TranslationError("no assignment to " + ", ".join(targets))
        # nothing else in the function (at any depth) may assign to these targets
        n_all = 0
        for node in ast.walk(fn):
            tl = node.targets if isinstance(node, ast.Assign) else [node.target] if isinstance(node, (ast.AugAssign, ast.AnnAssign)) else []
            for t in tl:
                for el in (t.elts if isinstance(t, ast.Tuple) else [t]):
                    try:
                        if ast.unparse(el) in targets:
                            n_all += 1
                    except Exception:
                        pass
        if n_all != len(out):
            raise TranslationError(f"{n_all - len(out)} further assignment(s) to {targets} outside the translated statements")
        return out
    return sel


def _drop(*sources):
    """all statements except the listed ones, each of which must be present verbatim (they are modelled separately)"""
    def sel(fn):
        dumps = [ast.dump(ast.parse(src).body[0]) for src in sources]
        out, seen = [], set()
        for s in fn.body:
            d = ast.dump(s)
            if d in dumps:
                seen.add(d)
            else:
                out.append(s)
        if len(seen) != len(dumps):
            raise TranslationError("a statement that is modelled separately changed: expected all of " + " ; ".join(sources))
        return out
    return sel


def _from_stmt(src, upto=None):
    """statements from the one given verbatim (inclusive) to the end / to the one given verbatim (exclusive)"""
    def sel(fn):
        d0 = ast.dump(ast.parse(src).body[0])
        d1 = ast.dump(ast.parse(upto).body[0]) if upto else None
        out, on = [], False
        for st in fn.body:
            d = ast.dump(st)
            if d == d0:
                on = True
            if on and d1 is not None and d == d1:
                return out
            if on:
                out.append(st)
        if not on or d1 is not None:
            raise TranslationError(f"statement `{src}`" + (f" … `{upto}`" if upto else "") + " not found")
        return out
    return sel


def _same(stmt, ref):
    return ast.dump(stmt) == ast.dump(ast.parse(ref).body[0])


SPECS = [
    # ---- C19 -----------------------------------------------------------------------------------
    dict(name="make_slice_divisible", file="pyresample/future/geometry/_subset.py", func="_make_slice_divisible",
         params=[("sli", sl(INT)), ("max_size", INT), ("factor", INT)], returns=sl(INT), select=_whole,
         owners=["C19"]),
    dict(name="get_slice_1d", file="pyresample/geometry.py", func="_get_slice", mode="generator", raises=True,
         params=[("segments", INT), ("shape", tup(INT))], yield_type=sl(INT), select=_whole, owners=["C19", "C03"]),
    dict(name="get_slice_2d", file="pyresample/geometry.py", func="_get_slice", mode="generator", raises=True,
         params=[("segments", INT), ("shape", tup(INT, INT))], yield_type=tup(sl(INT), sl(opt(INT))), select=_whole,
         owners=["C19", "C03"]),
    # ---- C02 / C03 / C05: which coordinates are legal ----------------------------------------------
    dict(name="kd_valid_input", file="pyresample/kd_tree.py", func="_get_valid_input_index", mode="fragment",
         params=[("source_lons", NRAT), ("source_lats", NRAT)], outputs=["valid_input_index"], output_types={"valid_input_index": BOOL},
         select=lambda fn: [st for st in fn.body if isinstance(st, ast.Assign) and ast.unparse(st.targets[0]) == "valid_input_index"][:1],
         post_guard=["source_lons = np.asanyarray(source_lons).ravel()", "source_lats = np.asanyarray(source_lats).ravel()"],
         owners=["C02", "C03"]),
    dict(name="kd_valid_output", file="pyresample/kd_tree.py", func="_get_valid_output_index", mode="fragment",
         params=[("target_lons", NRAT), ("target_lats", NRAT), ("valid_output_index", BOOL)],
         outputs=["valid_output_index"], output_types={"valid_output_index": BOOL},
         select=_from_stmt("valid_out = (target_lons >= -180) & (target_lons <= 180) & (target_lats <= 90) & (target_lats >= -90)",
                           upto="if isinstance(valid_output_index, np.ma.MaskedArray):\n    valid_output_index = valid_output_index.filled(False)"),
         post_guard=["return valid_output_index"], owners=["C02", "C03"]),
    # ---- C04: the accumulation loop, normalisation and uncertainty of the weighted resampling, one target element, one channel ----
    dict(name="weighted_result", file="pyresample/kd_tree.py", func="_resample_with_weights", mode="fragment",
         params=[("neighbours", INT), ("new_data.ndim", INT), ("index_mask_list", ("list", BOOL)), ("weight_list", ("list", RAT)),
                 ("ch_neighbour_list", ("list", RAT)), ("fill_value", RAT)],
         var_types={"result": RAT, "norm": RAT},
         outputs=["result", "result_valid_index", "norm"], output_types={"result": RAT, "result_valid_index": BOOL, "norm": RAT},
         select=_from_stmt("result = 0", upto="if with_uncert:\n    stddev, count = _calculate_uncertainty(neighbours, new_data, index_mask_list, "
                           "weight_list, ch_neighbour_list, result, norm)\n    return (result, stddev, count)"),
         post_guard=["return (result, None, None)"], owners=["C04"]),
    dict(name="weighted_uncertainty", file="pyresample/kd_tree.py", func="_calculate_uncertainty", mode="fragment", nan_division=True,
         params=[("neighbours", INT), ("new_data.ndim", INT), ("index_mask_list", ("list", BOOL)), ("weight_list", ("list", RAT)),
                 ("ch_neighbour_list", ("list", RAT)), ("result", RAT), ("norm", RAT), ("np.sqrt", SQRT)],
         var_types={"count": INT, "norm_sqr": RAT, "stddev": RAT}, assume={"stddev.ndim >= 2": False},
         outputs=["stddev", "count"], output_types={"stddev": NRAT, "count": INT},
         ignore_return_value=True, select=_whole, owners=["C04"]),
    # ---- C12: AreaDefinition.__eq__ ---------------------------------------------------------------------------------
    dict(name="area_eq", file="pyresample/geometry.py", func="AreaDefinition.__eq__",
         params=[("self.area_extent", tup(RAT, RAT, RAT, RAT)), ("other.area_extent", tup(RAT, RAT, RAT, RAT)),
                 ("crs_eq", BOOL), ("shape_eq", BOOL)],
         expr_params={"self.crs == other.crs": "crs_eq", "self.shape == other.shape": "shape_eq"}, returns=BOOL,
         select=lambda fn: fn.body[-1].body,
         guard=lambda fn: isinstance(fn.body[-1], ast.Try) and len(fn.body[-1].handlers) == 1 and not fn.body[-1].orelse
         and not fn.body[-1].finalbody and ast.unparse(fn.body[-1].handlers[0].type) == "AttributeError"
         and [ast.unparse(x) for x in fn.body[-1].handlers[0].body] == ["return super().__eq__(other)"]
         and all(isinstance(x, ast.Expr) and isinstance(x.value, ast.Constant) for x in fn.body[:-1]),
         owners=["C12"]),
    # ---- C17: which polygon `_bool_oper` returns when the outlines do not cross -----------------------------------------
    dict(name="bool_oper_dispatch", file="pyresample/spherical.py", func="SphPolygon._bool_oper",
         params=[("sign", INT), ("self", INT), ("other", INT), ("self_in_other", BOOL), ("other_in_self", BOOL)],
         call_params={"self._is_inside(other)": "self_in_other", "other._is_inside(self)": "other_in_self"},
         returns=opt(INT),
         select=lambda fn: [st for st in fn.body if isinstance(st, ast.If) and ast.unparse(st.test) == "inter is None"][0].body,
         guard=lambda fn: [ast.unparse(st.test) for st in fn.body if isinstance(st, ast.If)] == ["inter is None"]
         and not [st for st in fn.body if isinstance(st, ast.If)][0].orelse,
         owners=["C17"]),
    # ---- C05: when is the data mask used -------------------------------------------------------------
    dict(name="nn_mask_decision", file="pyresample/future/resamplers/nearest.py", func="KDTreeNearestXarrayResampler._get_area_mask",
         mode="fragment", params=[("mask_area", opt(BOOL)), ("is_swath", BOOL)],
         expr_params={"isinstance(self.source_geo_def, SwathDefinition)": "is_swath"},
         outputs=["mask_area"], output_types={"mask_area": opt(BOOL)},
         select=lambda fn: [fn.body[1]],
         guard=lambda fn: len(fn.body) == 3 and _same(fn.body[0], "if isinstance(mask_area, (np.ndarray, da.Array, DataArray)):\n    return mask_area")
         and _same(fn.body[2], "if mask_area:\n    return self.compute_data_mask(data)"),
         owners=["C05"]),
    dict(name="kd_default_segments", file="pyresample/kd_tree.py", func="get_neighbour_info", mode="fragment",
         params=[("segments", opt(INT)), ("target_geo_def.size", INT)], outputs=["segments"], output_types={"segments": INT},
         select=lambda fn: [st for st in fn.body if isinstance(st, ast.If) and ast.unparse(st.test) == "segments is None"],
         guard=lambda fn: sum(1 for st in fn.body if isinstance(st, ast.If) and ast.unparse(st.test) == "segments is None") == 1,
         owners=["C02", "C03", "C04"]),
    dict(name="gradient_block_too_thin", file="pyresample/gradient/__init__.py", func="gradient_resampler_indices",
         params=[("source_area.shape", tup(INT, INT))], returns=BOOL,
         select=lambda fn: [ast.Return(value=fn.body[1].test)],
         guard=lambda fn: isinstance(fn.body[1], ast.If) and not fn.body[1].orelse and len(fn.body[1].body) == 1
         and _same(fn.body[1].body[0], "return np.full((2,) + tuple(target_area.shape), np.nan)"),
         owners=["C09"]),
    # ---- C19: RowAppendableArray, one append of a 1-D array (or of a stack of rows, read row by row) and the final view ----
    dict(name="row_append", file="pyresample/utils/row_appendable_array.py", func="RowAppendableArray.append_row", mode="fragment",
         raises=True,
         params=[("np.empty.fill", INT), ("self._reserved_capacity", INT), ("self._data", opt(("list", INT))), ("self._cursor", INT),
                 ("next_array", ("list", INT))],
         outputs=["self._data", "self._cursor"], output_types={"self._data": ("list", INT), "self._cursor": INT},
         select=_whole, owners=["C19"]),
    dict(name="row_to_array", file="pyresample/utils/row_appendable_array.py", func="RowAppendableArray.to_array",
         params=[("self._data", ("list", INT)), ("self._cursor", INT)], returns=("list", INT),
         select=_whole, owners=["C19"]),
    dict(name="chunk_slice", file="pyresample/slicer.py", func="_enumerate_chunk_slices",
         params=[("chunk", ("list", INT)), ("pos", INT)], returns=sl(INT),
         select=lambda fn: list(fn.body[1].body[1].body[:2]) + [ast.Return(value=fn.body[1].body[1].body[2].value.args[0])],
         guard=lambda fn: (isinstance(fn.body[1], ast.For) and ast.unparse(fn.body[1].target) == "position"
                           and ast.unparse(fn.body[1].iter) == "np.ndindex(tuple(map(len, chunks)))"
                           and _same(fn.body[1].body[0], "slices = []")
                           and isinstance(fn.body[1].body[1], ast.For) and ast.unparse(fn.body[1].body[1].target) == "(pos, chunk)"
                           and ast.unparse(fn.body[1].body[1].iter) == "zip(position, chunks)"
                           and len(fn.body[1].body[1].body) == 3
                           and ast.unparse(fn.body[1].body[1].body[2]).startswith("slices.append(")
                           and _same(fn.body[1].body[2], "yield (position, slices)") and len(fn.body[1].body) == 3),
         owners=["C19", "C11"]),
    # ---- C11 -----------------------------------------------------------------------------------
    dict(name="expand_slice", file="pyresample/slicer.py", func="expand_slice",
         params=[("small_slice", sl(INT))], returns=sl(INT), select=_whole, owners=["C11"]),
    dict(name="create_slices_from_bounds", file="pyresample/slicer.py", func="AreaSlicer._create_slices_from_bounds",
         params=[("bounds", tup(tup(RAT, RAT), tup(RAT, RAT)))], returns=tup(sl(INT), sl(INT)),
         select=lambda fn: list(fn.body[:2]) + list(fn.body[2].body) + list(fn.body[3:]),   # the body of the `try:`
         inline={"expand_slice": dict(lean="expand_slice", args=[sl(INT)], returns=sl(INT))}, owners=["C11"]),
    dict(name="get_slice_starts_stops", file="pyresample/future/geometry/_subset.py", func="_get_slice_starts_stops",
         params=[("llx", RAT), ("lly", RAT), ("urx", RAT), ("ury", RAT), ("x", tup(RAT, RAT)), ("y", tup(RAT, RAT)),
                 ("src_area.area_extent", tup(RAT, RAT, RAT, RAT)), ("src_area.width", INT), ("src_area.height", INT)],
         returns=tup(INT, INT, INT, INT), select=lambda fn: fn.body[3:],
         guard=lambda fn: _same(fn.body[1], "llx, lly, urx, ury = area_to_cover.area_extent") and
         _same(fn.body[2], "x, y = src_area.get_array_coordinates_from_projection_coordinates([llx, urx], [lly, ury])"),
         owners=["C11"]),
    dict(name="check_slice_orientation", file="pyresample/utils/__init__.py", func="check_slice_orientation",
         params=[("sli", sl(INT))], returns=sl(INT), select=_whole, owners=["C11"]),
    dict(name="ensure_integer_slice", file="pyresample/future/geometry/_subset.py", func="_ensure_integer_slice",
         params=[("sli", ("slice3", opt(RAT)))], returns=("slice3", opt(INT)), select=_whole, owners=["C11"]),
    dict(name="get_area_slices_tail", file="pyresample/future/geometry/_subset.py", func="get_area_slices",
         params=[("x_slice", sl(INT)), ("y_slice", sl(INT)), ("src_area.width", INT), ("src_area.height", INT),
                 ("shape_divisible_by", opt(INT))],
         returns=tup(sl(INT), sl(INT)), select=_from_stmt("if shape_divisible_by is not None:\n    x_slice = _make_slice_divisible(x_slice, "
                 "src_area.width, factor=shape_divisible_by)\n    y_slice = _make_slice_divisible(y_slice, src_area.height, factor=shape_divisible_by)"),
         post_guard=["x_slice = _ensure_integer_slice(x_slice)", "y_slice = _ensure_integer_slice(y_slice)"],
         inline={"_make_slice_divisible": dict(lean="make_slice_divisible", args=[sl(INT), INT, INT], kwargs=["max_size", "factor"], returns=sl(INT)),
                 "check_slice_orientation": dict(lean="check_slice_orientation", args=[sl(INT)], returns=sl(INT))},
         owners=["C19", "C11"]),
    # ---- C15 -----------------------------------------------------------------------------------
    dict(name="scheduler_init", file="pyresample/_multi_proc.py", func="Scheduler.__init__", mode="fragment", raises=True,
         params=[("ndata", INT), ("nprocs", INT), ("chunk", opt(INT)), ("schedule", STR)],
         outputs=["self._chunk"], output_types={"self._chunk": INT}, select=_whole,
         skip_targets={"self._ndata": "self._ndata = mp.RawValue(ctypes.c_int, ndata)",
                       "self._start": "self._start = mp.RawValue(ctypes.c_int, 0)",
                       "self._lock": "self._lock = mp.Lock()",
                       "self._schedule": "self._schedule = schedule",
                       "self._nprocs": "self._nprocs = nprocs"}, owners=["C15"]),
    dict(name="scheduler_iter_body", file="pyresample/_multi_proc.py", func="Scheduler.__iter__", mode="fragment",
         params=[("self._ndata.value", INT), ("self._start.value", INT), ("self._nprocs", INT), ("self._chunk", INT),
                 ("self._schedule", STR)],
         outputs=["self._ndata.value", "self._start.value"],
         output_types={"self._ndata.value": INT, "self._start.value": INT}, yield_type=sl(INT),
         select=_first_while_body, ignore_calls=["self._lock.acquire", "self._lock.release"], owners=["C15"]),
    # ---- C14 -----------------------------------------------------------------------------------
    dict(name="compute_domain_shape", file="pyresample/geometry.py", func="DynamicAreaDefinition.compute_domain",
         params=[("corners", tup(RAT, RAT, RAT, RAT)), ("shape", tup(INT, INT))],
         assume={"shape": True}, returns=tup(tup(RAT, RAT, RAT, RAT), INT, INT), select=_from_if("shape"), owners=["C14"]),
    dict(name="compute_domain_res", file="pyresample/geometry.py", func="DynamicAreaDefinition.compute_domain",
         params=[("corners", tup(RAT, RAT, RAT, RAT)), ("resolution", tup(RAT, RAT))],
         assume={"shape": False, "resolution": True}, returns=tup(tup(RAT, RAT, RAT, RAT), INT, INT),
         select=_from_if("shape"), owners=["C14"]),
    dict(name="update_corners_shape", file="pyresample/geometry.py", func="DynamicAreaDefinition._update_corners_for_full_extent",
         params=[("corners", tup(opt(RAT), RAT, opt(RAT), RAT)), ("shape", tup(INT, INT)), ("aou.west", RAT), ("aou.east", RAT)],
         returns=tup(opt(RAT), RAT, opt(RAT), RAT), select=_drop("aou = self._get_crs_area_of_use(projection)"), owners=["C14"]),
    dict(name="update_corners_res", file="pyresample/geometry.py", func="DynamicAreaDefinition._update_corners_for_full_extent",
         params=[("corners", tup(opt(RAT), RAT, opt(RAT), RAT)), ("resolution", tup(RAT, RAT)), ("aou.west", RAT), ("aou.east", RAT)],
         assume={"shape is not None": False},
         returns=tup(opt(RAT), RAT, opt(RAT), RAT), select=_drop("aou = self._get_crs_area_of_use(projection)"), owners=["C14"]),
    # ---- the grid of an AreaDefinition (C01, C07, C08, C10, C18) -----------------------------------
    dict(name="area_init_derived", file="pyresample/geometry.py", func="AreaDefinition.__init__", mode="fragment",
         params=[("area_extent", tup(RAT, RAT, RAT, RAT)), ("self.area_extent", tup(RAT, RAT, RAT, RAT)), ("width", INT), ("height", INT)],
         outputs=["self.pixel_size_x", "self.pixel_size_y", "self.pixel_upper_left", "self.pixel_offset_x", "self.pixel_offset_y"],
         output_types={"self.pixel_size_x": RAT, "self.pixel_size_y": RAT, "self.pixel_upper_left": tup(RAT, RAT),
                       "self.pixel_offset_x": RAT, "self.pixel_offset_y": RAT},
         select=_assignments_to("self.pixel_size_x", "self.pixel_size_y", "self.pixel_upper_left", "self.pixel_offset_x",
                                "self.pixel_offset_y", guards=["self._area_extent = tuple(area_extent)"]),
         owners=["C01", "C10", "C18", "C07"]),
    dict(name="get_corner_and_scale", file="pyresample/geometry.py", func="AreaDefinition._get_corner_and_scale",
         params=[("self.pixel_size_x", RAT), ("self.pixel_size_y", RAT), ("self.pixel_upper_left", tup(RAT, RAT))],
         returns=tup(RAT, RAT, RAT, RAT), select=_whole, owners=["C01", "C18"]),
    dict(name="area_resolution", file="pyresample/geometry.py", func="AreaDefinition.resolution",
         params=[("self.pixel_size_x", RAT), ("self.pixel_size_y", RAT)], returns=tup(RAT, RAT), select=_whole,
         owners=["C18", "C07", "C11"]),
    dict(name="array_from_proj", file="pyresample/geometry.py", func="AreaDefinition.get_array_coordinates_from_projection_coordinates",
         params=[("xm", RAT), ("ym", RAT), ("self.pixel_size_x", RAT), ("self.pixel_size_y", RAT), ("self.pixel_upper_left", tup(RAT, RAT))],
         returns=tup(RAT, RAT), select=_whole,
         inline={"self._get_corner_and_scale": dict(lean="get_corner_and_scale", returns=tup(RAT, RAT, RAT, RAT),
                                                    implicit=["self.pixel_size_x", "self.pixel_size_y", "self.pixel_upper_left"])},
         owners=["C01", "C18"]),
    dict(name="proj_from_array", file="pyresample/geometry.py", func="AreaDefinition.get_projection_coordinates_from_array_coordinates",
         params=[("cols", RAT), ("rows", RAT), ("self.pixel_size_x", RAT), ("self.pixel_size_y", RAT), ("self.pixel_upper_left", tup(RAT, RAT))],
         returns=tup(RAT, RAT), select=_whole,
         inline={"self._get_corner_and_scale": dict(lean="get_corner_and_scale", returns=tup(RAT, RAT, RAT, RAT),
                                                    implicit=["self.pixel_size_x", "self.pixel_size_y", "self.pixel_upper_left"])},
         owners=["C01", "C18"]),
    # ---- cell assignment in the other modules (C18, C07) -------------------------------------------
    dict(name="proj_vectors1d", file="pyresample/geometry.py", func="_generate_1d_proj_vectors",
         params=[("col", RAT), ("row", RAT), ("pixel_size_xy", tup(RAT, RAT)), ("offset_xy", tup(RAT, RAT))],
         call_params={"arange(*col_range, **x_kwargs)": "col", "arange(*row_range, **y_kwargs)": "row"},
         returns=tup(RAT, RAT), select=lambda fn: fn.body[1:],
         guard=lambda fn: _same(fn.body[0], "x_kwargs, y_kwargs, arange = _get_vector_arange_args(dtype, chunks)"),
         also_guard=[("AreaDefinition._get_proj_vectors",
                      ["x, y = _generate_1d_proj_vectors((0, self.width), (0, self.height), (self.pixel_size_x, self.pixel_size_y), "
                       "(self.pixel_upper_left[0], self.pixel_upper_left[1]), dtype, chunks=chunks)", "return (x, y)"])],
         owners=["C01"]),
    dict(name="linesample", file="pyresample/grid.py", func="get_linesample", mode="fragment",
         params=[("source_x", RAT), ("source_y", RAT), ("source_area_def.pixel_offset_x", RAT), ("source_area_def.pixel_offset_y", RAT),
                 ("source_area_def.pixel_size_x", RAT), ("source_area_def.pixel_size_y", RAT)],
         outputs=["source_pixel_y", "source_pixel_x"], output_types={"source_pixel_y": INT, "source_pixel_x": INT},
         select=_assignments_to("source_pixel_x", "source_pixel_y", guards=["return (source_pixel_y, source_pixel_x)"]),
         owners=["C18"]),
    dict(name="gridfilter_index", file="pyresample/geo_filter.py", func="GridFilter.get_valid_index", mode="fragment",
         params=[("x_coord", RAT), ("y_coord", RAT), ("self.area_def.pixel_offset_x", RAT), ("self.area_def.pixel_offset_y", RAT),
                 ("self.area_def.pixel_size_x", RAT), ("self.area_def.pixel_size_y", RAT), ("self.area_def.width", INT),
                 ("self.area_def.height", INT)],
         outputs=["target_x", "target_y", "target_x_valid", "target_y_valid"],
         output_types={"target_x": INT, "target_y": INT, "target_x_valid": BOOL, "target_y_valid": BOOL},
         select=_assignments_to("target_x", "target_y", "target_x_valid", "target_y_valid"), owners=["C18"]),
    dict(name="bucket_indices", file="pyresample/bucket/__init__.py", func="BucketResampler._get_indices", mode="fragment",
         params=[("proj_x", RAT), ("proj_y", RAT), ("self.target_area.resolution", tup(RAT, RAT)),
                 ("self.target_area.area_extent", tup(RAT, RAT, RAT, RAT)), ("self.target_area.width", INT),
                 ("self.target_area.height", INT), ("self.target_area.shape", tup(INT, INT))],
         outputs=["self.y_idxs", "self.x_idxs", "self.idxs"],
         output_types={"self.y_idxs": INT, "self.x_idxs": INT, "self.idxs": INT},
         select=_from_stmt("adef = self.target_area"), owners=["C07", "C18"]),
    dict(name="bucket_invalid_mask", file="pyresample/bucket/__init__.py", func="_get_invalid_mask",
         params=[("data", NRAT), ("fill_value", NRAT)], returns=BOOL, select=_whole, owners=["C07"]),
    dict(name="bucket_sum_weight", file="pyresample/bucket/__init__.py", func="BucketResampler.get_sum", mode="fragment",
         params=[("data", NRAT), ("fill_value", NRAT)], outputs=["weights"], output_types={"weights": NRAT},
         select=lambda fn: [st for st in fn.body if isinstance(st, ast.Assign) and ast.unparse(st.targets[0]) in ("invalid_mask", "weights")],
         guard=lambda fn: [ast.unparse(st.targets[0]) for st in fn.body if isinstance(st, ast.Assign)
                           and ast.unparse(st.targets[0]) in ("invalid_mask", "weights")] == ["invalid_mask", "weights"],
         post_guard=["data = data.ravel()",
                     "if np.issubdtype(weights.dtype, np.integer) and weights.dtype.itemsize < 8:\n"
                     "    wide = np.uint64 if np.issubdtype(weights.dtype, np.unsignedinteger) else np.int64\n"
                     "    weights = weights.astype(wide)",
                     "(sums, _) = da.histogram(self.idxs, bins=out_size, range=(0, out_size), weights=weights, density=False)"],
         inline={"_get_invalid_mask": dict(lean="bucket_invalid_mask", args=[NRAT, NRAT], returns=BOOL)}, owners=["C07"]),
    # ---- C10 -----------------------------------------------------------------------------------
    dict(name="area_getitem", file="pyresample/geometry.py", func="AreaDefinition.__getitem__", mode="fragment",
         params=[("yindices", tup(INT, INT, INT)), ("xindices", tup(INT, INT, INT)), ("self.height", INT), ("self.width", INT),
                 ("self.pixel_upper_left", tup(RAT, RAT)), ("self.pixel_size_x", RAT), ("self.pixel_size_y", RAT),
                 ("self.area_extent", tup(RAT, RAT, RAT, RAT)), ("self.crop_offset", tup(INT, INT))],
         outputs=["total_cols", "total_rows", "new_area_extent", "new_area.crop_offset"],
         output_types={"total_cols": INT, "total_rows": INT, "new_area_extent": tup(RAT, RAT, RAT, RAT),
                       "new_area.crop_offset": tup(INT, INT)},
         select=_drop("yslice, xslice = key", "yindices = yslice.indices(self.height)", "xindices = xslice.indices(self.width)"),
         skip_targets={"new_area": "new_area = AreaDefinition(self.area_id, self.description, self.proj_id, self.crs, "
                                   "total_cols, total_rows, new_area_extent)"},
         ignore_return_value=True, owners=["C10"]),
    dict(name="combine_area_extents_vertical", file="pyresample/geometry.py", func="combine_area_extents_vertical", raises=True,
         params=[("area1.area_extent", tup(RAT, RAT, RAT, RAT)), ("area2.area_extent", tup(RAT, RAT, RAT, RAT))],
         returns=tup(RAT, RAT, RAT, RAT), select=_whole, owners=["C10"]),
    dict(name="concatenate_area_defs", file="pyresample/geometry.py", func="concatenate_area_defs", mode="fragment", raises=True,
         params=[("axis", INT), ("crs_eq", BOOL), ("area1.width", INT), ("area2.width", INT), ("area1.height", INT), ("area2.height", INT),
                 ("area1.area_extent", tup(RAT, RAT, RAT, RAT)), ("area2.area_extent", tup(RAT, RAT, RAT, RAT))],
         expr_params={"area1.crs == area2.crs": "crs_eq"},
         inline={"combine_area_extents_vertical": {"lean": "combine_area_extents_vertical", "implicit": ["area1.area_extent", "area2.area_extent"],
                                                   "drop_args": 2, "args": [], "returns": tup(RAT, RAT, RAT, RAT), "partial": True}},
         outputs=["x_size", "y_size", "area_extent"],
         output_types={"x_size": INT, "y_size": INT, "area_extent": tup(RAT, RAT, RAT, RAT)}, ignore_return_value=True, select=_whole,
         post_guard=["return AreaDefinition(area1.area_id, area1.description, area1.proj_id, area1.crs, x_size, y_size, area_extent)"],
         owners=["C10"]),
    # ---- C16 -----------------------------------------------------------------------------------
    dict(name="bbox_counts", file="pyresample/geometry.py", func="BaseDefinition._get_bbox_slices", mode="fragment",
         params=[("self.shape", tup(INT, INT)), ("vertices_per_side", opt(INT))],
         outputs=["row_num", "col_num"], output_types={"row_num": INT, "col_num": INT},
         select=_from_stmt("height, width = self.shape", upto="s1_slice = (0, np.linspace(0, width - 1, col_num, dtype=int))"),
         post_guard=["s1_slice = (0, np.linspace(0, width - 1, col_num, dtype=int))",
                     "s2_slice = (np.linspace(0, height - 1, row_num, dtype=int), -1)",
                     "s3_slice = (-1, np.linspace(width - 1, 0, col_num, dtype=int))",
                     "s4_slice = (np.linspace(height - 1, 0, row_num, dtype=int), 0)",
                     "return (s1_slice, s2_slice, s3_slice, s4_slice)"], owners=["C16"]),
    dict(name="geos_nb_points", file="pyresample/geometry.py", func="AreaDefinition._get_geostationary_boundary_sides", mode="fragment",
         params=[("vertices_per_side", opt(INT))], outputs=["vertices_per_side"], output_types={"vertices_per_side": INT},
         select=_from_stmt("if vertices_per_side is None:\n    vertices_per_side = 50", upto="if coordinates == 'geographic':\n    x, y = get_geostationary_bounding_box_in_lonlats(self, nb_points=vertices_per_side)\nelse:\n    x, y = get_geostationary_bounding_box_in_proj_coords(self, nb_points=vertices_per_side)"),
         owners=["C16"]),
    dict(name="geos_side_step", file="pyresample/geometry.py", func="AreaDefinition._get_geostationary_boundary_sides", mode="fragment",
         params=[("x.shape", tup(INT))], outputs=["side02_step"], output_types={"side02_step": INT},
         select=_assignments_to("side02_step", guards=[
             "sides_x = [x[slice(0, side02_step + 1)], x[slice(side02_step, side02_step + 1 + 1)], x[slice(side02_step + 1, None)], np.append(x[-1], x[0])]",
             "sides_y = [y[slice(0, side02_step + 1)], y[slice(side02_step, side02_step + 1 + 1)], y[slice(side02_step + 1, None)], np.append(y[-1], y[0])]",
             "return (sides_x, sides_y)"]), owners=["C16"]),
    # ---- C17 -----------------------------------------------------------------------------------
    dict(name="sph_area_tail", file="pyresample/spherical.py", func="SphPolygon.area",
         params=[("S", RAT), ("n", INT), ("np.pi", RAT), ("self.radius", RAT)], returns=RAT,
         call_params={"sum(alpha)": "S", "len(self.lon)": "n"},
         select=lambda fn: [fn.body[-1]],
         guard=lambda fn: _same(fn.body[-2], "alpha[alpha < 0] += 2 * np.pi") and _same(fn.body[-3], "alpha = new_lons_a - new_lons_b"),
         owners=["C17"]),
    # ---- C09 (python-level interpolators of resample_blocks) -------------------------------------
    dict(name="block_adjusted_indices", file="pyresample/gradient/__init__.py", func="_get_mask_and_adjusted_indices",
         params=[("indices_xy", tup(NRAT, NRAT)), ("x_slice.start", INT), ("y_slice.start", INT)], returns=tup(BOOL, RAT, RAT),
         select=lambda fn: [fn.body[1]] + list(fn.body[2].body[1:]) + list(fn.body[3:]),
         guard=lambda fn: isinstance(fn.body[2], ast.If) and ast.unparse(fn.body[2].test) == "block_info" and not fn.body[2].orelse
         and _same(fn.body[2].body[0], "y_slice, x_slice = block_info[0]['array-location'][-2:]"),
         owners=["C09"]),
    dict(name="block_nn_indices", file="pyresample/gradient/__init__.py", func="block_nn_interpolator", mode="fragment",
         params=[("indices_xy", tup(NRAT, NRAT)), ("x_slice.start", INT), ("y_slice.start", INT), ("nrows", INT), ("ncols", INT)],
         expr_params={"data.shape[-1]": "ncols", "data.shape[-2]": "nrows"},
         outputs=["mask", "y_indices", "x_indices"], output_types={"mask": BOOL, "y_indices": INT, "x_indices": INT},
         select=_from_stmt("mask, x_indices, y_indices = _get_mask_and_adjusted_indices(indices_xy, block_info)",
                           upto="res = data[..., y_indices, x_indices]"),
         post_guard=["res = data[..., y_indices, x_indices]", "return np.where(mask, fill_value, res)"],
         inline={"_get_mask_and_adjusted_indices": dict(lean="block_adjusted_indices", args=[tup(NRAT, NRAT)], drop_args=1,
                                                        implicit_after=["x_slice.start", "y_slice.start"], returns=tup(BOOL, RAT, RAT))},
         owners=["C09"]),
    dict(name="block_bilinear", file="pyresample/gradient/__init__.py", func="block_bilinear_interpolator",
         params=[("indices_xy", tup(NRAT, NRAT)), ("x_slice.start", INT), ("y_slice.start", INT), ("nrows", INT), ("ncols", INT),
                 ("d_ss", RAT), ("d_se", RAT), ("d_es", RAT), ("d_ee", RAT), ("fill_value", NRAT)],
         expr_params={"data.shape[-1]": "ncols", "data.shape[-2]": "nrows", "data[..., l_start, p_start]": "d_ss",
                      "data[..., l_start, p_end]": "d_se", "data[..., l_end, p_start]": "d_es", "data[..., l_end, p_end]": "d_ee"},
         float_dtypes=["data.dtype"], returns=NRAT, select=_whole,
         inline={"_get_mask_and_adjusted_indices": dict(lean="block_adjusted_indices", args=[tup(NRAT, NRAT)], drop_args=1,
                                                        implicit_after=["x_slice.start", "y_slice.start"], returns=tup(BOOL, RAT, RAT))},
         owners=["C09"]),
    # ---- C06 -----------------------------------------------------------------------------------
    dict(name="calc_abc", file="pyresample/bilinear/_base.py", func="_calc_abc",
         params=[("corner_points", tup(tup(RAT, RAT), tup(RAT, RAT), tup(RAT, RAT), tup(RAT, RAT))), ("out_y", RAT), ("out_x", RAT)],
         returns=tup(RAT, RAT, RAT), select=_whole, owners=["C06"]),
    dict(name="bil_resample", file="pyresample/bilinear/_base.py", func="_resample",
         params=[("corner_points", tup(RAT, RAT, RAT, RAT)), ("fractional_distances", tup(RAT, RAT))],
         returns=RAT, select=_whole, owners=["C06"]),
    # ---- C08 -----------------------------------------------------------------------------------
    dict(name="ewa_ll2cr_params", file="pyresample/ewa/ewa.py", func="ll2cr", mode="fragment",
         params=[("area_def.pixel_size_x", RAT), ("area_def.pixel_size_y", RAT), ("area_def.width", INT), ("area_def.height", INT),
                 ("area_def.area_extent", tup(RAT, RAT, RAT, RAT))],
         outputs=["cw", "ch", "w", "h", "ox", "oy"],
         output_types={"cw": RAT, "ch": RAT, "w": INT, "h": INT, "ox": RAT, "oy": RAT},
         select=_from_stmt("cw = area_def.pixel_size_x", upto="swath_points_in_grid = _ll2cr.ll2cr_static(lons, lats, fill, "
                           "swath_def.crs, area_def.crs, cw, ch, w, h, ox, oy)"),
         post_guard=["return (swath_points_in_grid, lons, lats)"], owners=["C08", "C18"]),
    dict(name="dask_ewa_rebase", file="pyresample/ewa/dask_ewa.py", func="_delayed_fornav", mode="fragment",
         params=[("ll2cr_result", tup(RAT, RAT)), ("x_slice", sl(INT)), ("y_slice", sl(INT))],
         outputs=["cols", "rows"], output_types={"cols": RAT, "rows": RAT},
         select=_from_stmt("cols = ll2cr_result[0]", upto="weights = np.zeros(subdef.shape, dtype=weights_dtype)"),
         post_guard=["subdef = target_geo_def[y_slice, x_slice]"], owners=["C08", "C18"]),
    dict(name="ewa_rows_per_scan", file="pyresample/ewa/dask_ewa.py", func="DaskEWAResampler._get_rows_per_scan", raises=True,
         params=[("rows_per_scan", opt(INT)), ("has_xr", BOOL), ("lons_is_dataarray", BOOL), ("attr_rows_per_scan", opt(INT)), ("swath_rows", INT)],
         expr_params={"xr is not None": "has_xr", "isinstance(self.source_geo_def.lons, xr.DataArray)": "lons_is_dataarray",
                      "self.source_geo_def.lons.attrs.get('rows_per_scan')": "attr_rows_per_scan", "self.source_geo_def.shape[0]": "swath_rows"},
         returns=INT, select=_whole, owners=["C08"]),
    dict(name="ewa_chunk_rows", file="pyresample/ewa/dask_ewa.py", func="DaskEWAResampler._new_chunks", mode="fragment",
         params=[("auto_rows", INT), ("rows_per_scan", INT)], expr_params={"auto_chunks[0][0]": "auto_rows"},
         outputs=["chunk_rows"], output_types={"chunk_rows": INT}, select=_assignments_to("chunk_rows"),
         post_guard=["return {0: chunk_rows, 1: num_cols}"], owners=["C08"]),
    # ---- C20 -----------------------------------------------------------------------------------
    dict(name="cf_axis_info", file="pyresample/utils/cf.py", func="_load_cf_axis_info", mode="fragment",
         params=[("first", RAT), ("last", RAT), ("nb", INT)], outputs=["delta", "spacing", "sign"],
         output_types={"delta": RAT, "spacing": RAT, "sign": RAT},
         select=_assignments_to("delta", "spacing", "sign",
                                guards=["first = nc_handle[coord_varname][0].item()", "last = nc_handle[coord_varname][-1].item()",
                                        "nb = len(nc_handle[coord_varname])",
                                        "return {'first': first, 'last': last, 'spacing': spacing, 'nb': nb, 'sign': sign, 'unit': unit}"]),
         owners=["C20"]),
    dict(name="cf_geos_convert", file="pyresample/utils/cf.py", func="_convert_XY_CF_to_Proj", mode="fragment",
         params=[("axis_info['unit']", opt(STR)), ("crs_cf['grid_mapping_name']", STR), ("crs_cf['perspective_point_height']", RAT),
                 ("axis_info['first']", RAT), ("axis_info['last']", RAT), ("axis_info['spacing']", RAT)],
         skip_targets={"crs_cf": "crs_cf = crs.to_cf()"}, ignore_return_value=True,
         outputs=["axis_info['first']", "axis_info['last']", "axis_info['spacing']"],
         output_types={"axis_info['first']": RAT, "axis_info['last']": RAT, "axis_info['spacing']": RAT},
         select=_whole, owners=["C20"]),
    dict(name="cf_extent", file="pyresample/utils/cf.py", func="_get_area_extent_from_cf_axis",
         params=[("x['first']", RAT), ("x['last']", RAT), ("x['sign']", RAT), ("x['spacing']", RAT),
                 ("y['first']", RAT), ("y['last']", RAT), ("y['sign']", RAT), ("y['spacing']", RAT)],
         returns=tup(RAT, RAT, RAT, RAT), select=_whole, owners=["C20"]),
    dict(name="cartopy_bounds", file="pyresample/geometry.py", func="AreaDefinition.to_cartopy_crs", mode="fragment",
         params=[("self.area_extent", tup(RAT, RAT, RAT, RAT))], outputs=["bounds"], output_types={"bounds": tup(RAT, RAT, RAT, RAT)},
         select=_from_stmt("bounds = (self.area_extent[0], self.area_extent[2], self.area_extent[1], self.area_extent[3])",
                           upto="from pyresample.utils.cartopy import Projection"),
         post_guard=["crs = Projection(self.crs, bounds=bounds)", "return crs"], owners=["C20"]),
    dict(name="find_outside", file="pyresample/bilinear/_base.py", func="find_indices_outside_min_and_max",
         params=[("data", NRAT), ("min_val", RAT), ("max_val", RAT)], returns=BOOL, select=_whole, owners=["C06"]),
    dict(name="solve_quadratic", file="pyresample/bilinear/_base.py", func="_solve_quadratic",
         params=[("np.sqrt", SQRT), ("a__", RAT), ("b__", RAT), ("c__", RAT), ("min_val", RAT), ("max_val", RAT)], returns=NRAT,
         select=_whole, nan_division=True, identity_calls=["_ensure_array"],
         inline={"find_indices_outside_min_and_max": dict(lean="find_outside", args=[NRAT, RAT, RAT], returns=BOOL)}, owners=["C06"]),
    dict(name="solve_another", file="pyresample/bilinear/_base.py", func="_solve_another_fractional_distance",
         params=[("f__", NRAT), ("y_corners", tup(RAT, RAT, RAT, RAT)), ("out_y", RAT)], returns=NRAT, select=_whole, nan_division=True,
         inline={"find_indices_outside_min_and_max": dict(lean="find_outside", args=[NRAT, RAT, RAT], returns=BOOL)}, owners=["C06"]),
    dict(name="bil_parallelogram", file="pyresample/bilinear/_base.py", func="_get_fractional_distances_parallellogram",
         params=[("points", tup(tup(RAT, RAT), tup(RAT, RAT), tup(RAT, RAT))), ("out_y", RAT), ("out_x", RAT)],
         returns=tup(NRAT, NRAT), select=_whole, nan_division=True,
         inline={"find_indices_outside_min_and_max": dict(lean="find_outside", args=[NRAT, RAT, RAT], returns=BOOL)}, owners=["C06"]),
    # ---- C14: what `freeze` keeps of what was given explicitly ---------------------------------------------------------
    dict(name="freeze_plan", file="pyresample/geometry.py", func="DynamicAreaDefinition.freeze", mode="fragment",
         params=[("resolution", opt(RAT)), ("self.resolution", opt(RAT)), ("shape", opt(tup(opt(INT), opt(INT)))),
                 ("self.shape", tup(opt(INT), opt(INT))), ("self.area_extent", opt(tup(RAT, RAT, RAT, RAT)))],
         outputs=["resolution", "shape", "height", "width", "area_extent", "need_compute"],
         output_types={"resolution": opt(RAT), "shape": opt(tup(opt(INT), opt(INT))), "height": opt(INT), "width": opt(INT),
                       "area_extent": opt(tup(RAT, RAT, RAT, RAT)), "need_compute": BOOL},
         select=lambda fn: (lambda i: list(fn.body[i:-2]) + [ast.fix_missing_locations(ast.Assign(
             targets=[ast.Name(id="need_compute", ctx=ast.Store())], value=fn.body[-2].test, lineno=0))])(
             [k for k, st in enumerate(fn.body) if isinstance(st, ast.If) and ast.unparse(st.test) == "resolution is None"][0]),
         guard=lambda fn: isinstance(fn.body[-2], ast.If) and not fn.body[-2].orelse
         and [ast.unparse(x) for x in fn.body[-2].body] == [
             "projection, corners = self._compute_bound_centers(proj_dict, lonslats, antimeridian_mode=antimeridian_mode)",
             "with suppress(CRSError):\n    projection = CRS(CRS(projection).to_epsg())",
             "area_extent, width, height = self.compute_domain(corners, resolution, shape, projection)"]
         and ast.unparse(fn.body[-1]) == "return AreaDefinition(self.area_id, self.description, '', projection, width, height, area_extent)",
         owners=["C14"]),
    # ---- C13 -----------------------------------------------------------------------------------
    dict(name="validate_variable2", file="pyresample/area_config.py", func="_validate_variable", raises=True,
         params=[("var", opt(tup(RAT, RAT))), ("new_var", tup(RAT, RAT))], returns=tup(RAT, RAT), select=_whole, owners=["C13"]),
    dict(name="validate_variable4", file="pyresample/area_config.py", func="_validate_variable", raises=True,
         params=[("var", opt(tup(RAT, RAT, RAT, RAT))), ("new_var", tup(RAT, RAT, RAT, RAT))], returns=tup(RAT, RAT, RAT, RAT),
         select=_whole, owners=["C13"]),
    dict(name="round_shape", file="pyresample/area_config.py", func="_round_shape",
         params=[("shape", tup(RAT, RAT))], returns=tup(INT, INT), assume={"shape is None": False, "incorrect_shape": False},
         select=_whole, skip_targets=["incorrect_shape"], owners=["C13"]),
    dict(name="extrapolate_information", file="pyresample/area_config.py", func="_extrapolate_information", raises=True,
         params=[("area_extent", opt(tup(RAT, RAT, RAT, RAT))), ("shape", opt(tup(RAT, RAT))), ("center", opt(tup(RAT, RAT))),
                 ("radius", opt(tup(RAT, RAT))), ("resolution", opt(tup(RAT, RAT))), ("upper_left_extent", opt(tup(RAT, RAT)))],
         returns=tup(opt(tup(RAT, RAT, RAT, RAT)), opt(tup(RAT, RAT)), opt(tup(RAT, RAT))), select=_whole,
         identity_calls=["_convert_units"],
         inline={"_validate_variable": dict(partial=True, by_arg=1, variants={
                     2: dict(lean="validate_variable2", args=[opt(tup(RAT, RAT)), tup(RAT, RAT)], returns=tup(RAT, RAT)),
                     4: dict(lean="validate_variable4", args=[opt(tup(RAT, RAT, RAT, RAT)), tup(RAT, RAT, RAT, RAT)],
                             returns=tup(RAT, RAT, RAT, RAT))}),
                 "_round_shape": dict(lean="round_shape", args=[tup(RAT, RAT)], returns=tup(INT, INT), ignore_keywords=True)},
         owners=["C13"]),
]


# slice with an Optional step that is itself computed (only `_ensure_integer_slice` needs it)
def _slice3_patch():
    """`("slice3", opt T)` = PySl3 T: start stop step : T"""
    orig_lean_ty = globals()["lean_ty"]

    def lean_ty2(t):
        if isinstance(t, tuple) and t[0] == "slice3":
            return f"(PySl3 {orig_lean_ty(t[1])})"
        return orig_lean_ty(t)
    globals()["lean_ty"] = lean_ty2


def generate(repo=REPO):
    """-> (lean source, report).  report[name] = {"ok": bool, "error": str, "sha": source hash}"""
    report = {}
    chunks = []
    trees = {}
    for spec in SPECS:
        name = spec["name"]
        try:
            path = Path(repo) / spec["file"]
            if spec["file"] not in trees:
                trees[spec["file"]] = ast.parse(path.read_text())
            fn = find_def(trees[spec["file"]], spec["func"])
            if "guard" in spec and not spec["guard"](fn):
                raise TranslationError("the statements that precede the translated part changed (guard)")
            for qual, wanted in spec.get("also_guard", []):
                other = {ast.dump(st) for st in find_def(trees[spec["file"]], qual).body}
                for g in wanted:
                    if ast.dump(ast.parse(g).body[0]) not in other:
                        raise TranslationError(f"expected statement `{g[:80]}` not found in {qual}")
            have = {ast.dump(st) for st in fn.body}
            for g in spec.get("post_guard", []):
                if ast.dump(ast.parse(g).body[0]) not in have:
                    raise TranslationError(f"expected statement `{g}` not found")
            stmts = spec["select"](fn)
            tr = Tr3(spec, fn)
            lean = tr.translate(stmts)
            src = "\n".join(ast.unparse(s) for s in stmts)
            report[name] = {"ok": True, "owners": spec["owners"], "source": f"{spec['file']}::{spec['func']}",
                            "sha": hashlib.sha1(src.encode()).hexdigest()[:12]}
            chunks.append(f"/-- generated from `{spec['file']}::{spec['func']}` -/\n" + lean)
        except (TranslationError, OSError, SyntaxError, KeyError, IndexError, AttributeError) as e:
            report[name] = {"ok": False, "owners": spec["owners"], "source": f"{spec['file']}::{spec['func']}",
                            "error": f"{type(e).__name__}: {e}"}
            chunks.append(f"-- `{name}` could not be translated: {type(e).__name__}: {str(e)[:200]}\n")
    header = ("import PyresampleModel.Gen.Prelude\n\n"
              "/-\n  GENERATED by harness/py2lean.py from /repo's working tree — do not edit.\n"
              "  Regenerated on every check run; `Props/Tie.lean` proves each definition equal to the hand-written model.\n-/\n"
              "set_option linter.unusedVariables false\nnamespace PyresampleModel.Gen\n\n")
    return header + "\n".join(chunks) + "\nend PyresampleModel.Gen\n", report


class Tr3(Tr):
    """adds `slice3` values (slice whose three fields have one type) and inlining of translated helpers"""

    def expr(self, node, env):
        if isinstance(node, ast.Attribute):
            d = self.dotted(node)
            if d not in env and d != "np.nan":
                try:
                    base, tb = Tr.expr(self, node.value, env)
                except TranslationError:
                    base, tb = None, None
                if isinstance(tb, tuple) and tb[0] == "slice3" and node.attr in ("start", "stop", "step"):
                    return f"({base}).{node.attr}", tb[1]
        return Tr.expr(self, node, env)

    def call(self, node, env):
        fname = self.dotted(node.func)
        if fname == "slice" and isinstance(self.ret_ty, tuple) and self.ret_ty[0] == "slice3" and len(node.args) == 3:
            args = [self.expr(a, env) for a in node.args]
            t = self.ret_ty[1]
            return "(PySl3.mk " + " ".join(self.coerce(a, ta, t) for a, ta in args) + ")", self.ret_ty
        return Tr.call(self, node, env)


_slice3_patch()


def main():
    src, report = generate()
    OUT.parent.mkdir(parents=True, exist_ok=True)
    old = OUT.read_text() if OUT.exists() else None
    if old != src:
        OUT.write_text(src)
    (OUT.parent / "report.json").write_text(json.dumps(report, indent=1))
    bad = [n for n, r in report.items() if not r["ok"]]
    print(f"py2lean: {len(report) - len(bad)}/{len(report)} functions translated" + (f"; NOT translated: {bad}" if bad else ""))
    return 0


if __name__ == "__main__":
    sys.exit(main())
