#!/venv/bin/python
"""Regenerate MANIFEST.json from harness/manifest_data.py (keeps it valid at all times)."""
import json, sys
import os
HERE = os.path.dirname(os.path.abspath(__file__))
CHECKS, NOT_APPLICABLE = [], []
for i in range(1, 21):
    pid = f"C{i:02d}"
    f = os.path.join(HERE, "meta", pid + ".json")
    meta = json.load(open(f)) if os.path.exists(f) else {}
    if meta.get("claimed"):
        c = {"property_id": pid, **meta["manifest"]}
        tie = meta.get("tie")
        if tie:
            rep = {}
            try:
                rep = json.load(open(os.path.join(HERE, "lean", "PyresampleModel", "PyresampleModel", "Gen", "report.json")))
            except OSError:
                pass
            srcs = sorted({rep.get(fn, {}).get("source", fn).split("/")[-1] for fn in tie["functions"]})
            c["text"] += (" TRANSLATOR TIE (DESIGN.md §13): on every run harness/py2lean.py regenerates Lean definitions of "
                          + ", ".join(srcs) + " from /repo's current source (Gen/Src.lean) and the tie theorems "
                          + ", ".join(tie["theorems"]) + f" ({tie['module']}) are re-checked against them: generated definition = "
                          "hand-written model for all inputs, so a change to one of these functions breaks a proof obligation "
                          "deterministically, independent of the input generators.")
            c["note"] += (" The translator (restricted, statically typed Python subset; floored // and %, half-even round, exact "
                          "rational /, float literals as the exact value of the double; numpy expressions read elementwise; IEEE "
                          "rounding not modelled) is part of the trusted base of the tie.")
            c["technique"] = c.get("technique", "Lean 4 theorems over a hand-written executable model + differential correspondence "
                                   "check against /repo") + \
                " + Lean definitions regenerated from /repo's source by a translator on every run and proved equal to the model (tie theorems)"
        CHECKS.append(c)
    else:
        NOT_APPLICABLE.append({"property_id": pid, "reason": meta.get("not_applicable_reason",
            "check not built yet in this session; will be claimed once its model, theorems and correspondence exist")})
m = {
 "version": 1,
 "setup_cmd": "./setup.sh",
 "hooks": {"guard": "PYRESAMPLE_VERIF", "enable": "no source hooks: instrumentation is done from the harness by attribute replacement; PYRESAMPLE_VERIF=1 is set by ./vcheck but nothing in /repo reads it",
           "baseline_off_cmd": "cd /repo && /venv/bin/python -m pytest -ra -q -p no:cacheprovider --timeout=900 --continue-on-collection-errors",
           "source_commits": [], "add_only": True},
 "engines": [{"name": "lean-model+correspondence", "path": "vcheck",
              "serves_properties": [c["property_id"] for c in CHECKS],
              "kind_free_text": "Lean 4 theorems about a hand-written executable model (lean/PyresampleModel), tied to /repo (a) by a differential correspondence harness (harness/) that drives the compiled model through a line protocol and (b), for the scalar helper functions listed per check, by a translator (harness/py2lean.py) that regenerates Lean definitions from /repo's source on every run, with tie theorems proving them equal to the model"}],
 "checks": [],
 "not_applicable": NOT_APPLICABLE,
 "notes": "See DESIGN.md. Every check: ./vcheck <id> --tier quick|thorough; VERIF_SEED honoured; evidence/<id>.json rewritten per run.",
}
for c in CHECKS:
    pid = c["property_id"]
    m["checks"].append({
        "property_id": pid,
        "quick_cmd": f"./vcheck {pid} --tier quick",
        "thorough_cmd": f"./vcheck {pid} --tier thorough",
        "evidence_file": f"evidence/{pid}.json",
        "replay_cmd_template": f"./vcheck {pid} --replay {{path}}",
        "engine": "lean-model+correspondence",
        "level_claimed": {"category": "proof", "text": c["text"], "design_ref": c.get("design_ref", f"DESIGN.md §6 {pid}")},
        "level_note": c["note"],
        "technique": c.get("technique", "Lean 4 theorems over a hand-written executable model + differential correspondence check against /repo"),
    })
json.dump(m, open(os.path.join(HERE, 'MANIFEST.json'), 'w'), indent=1)
print("MANIFEST.json:", len(m["checks"]), "checks,", len(NOT_APPLICABLE), "not_applicable")
