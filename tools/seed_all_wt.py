#!/venv/bin/python
"""Re-run every kept seeded change against the check of the property it breaks, each in its own scratch worktree
(PYRESAMPLE_REPO), several at a time; /repo is never touched.  Quick tier, --no-proof (the committed evidence is not
touched); the translator tie is evaluated separately by tools/tie_eval.py.  Writes seeded/STATUS.json.

usage: tools/seed_all_wt.py [-j N] [id-prefix ...]
"""
import concurrent.futures as cf
import json
import os
import re
import subprocess
import sys
import time

ROOT = os.path.dirname(os.path.dirname(os.path.abspath(__file__)))
SEEDED = os.path.join(ROOT, "seeded")


def sh(cmd, **kw):
    p = subprocess.run(cmd, stdout=subprocess.PIPE, stderr=subprocess.STDOUT, text=True, **kw)
    return p.returncode, p.stdout


def one(sid, head):
    prop = sid.split("-")[0]
    patch = os.path.join(SEEDED, sid, "patch.diff")
    wt = f"/tmp/sawt-{sid}"
    rec = {"repo_head": head, "when": time.strftime("%Y-%m-%d %H:%M"), "mode": "scratch worktree"}
    sh([os.path.join(ROOT, "tools", "mkwt.sh"), wt])
    try:
        rc, out = sh(["git", "-C", wt, "apply", patch])
        if rc:
            rec["result"] = "patch-does-not-apply"
            return sid, rec
        t0 = time.time()
        env = dict(os.environ, VERIF_SEED=os.environ.get("VERIF_SEED", "0"), PYRESAMPLE_REPO=wt, OMP_NUM_THREADS="2")
        rc, out = sh([os.path.join(ROOT, "vcheck"), prop, "--tier", "quick", "--no-proof"], env=env, cwd=ROOT, timeout=3600)
        rec["exit"] = rc
        rec["wall_s"] = round(time.time() - t0, 1)
        viol = [ln for ln in out.splitlines() if ln.startswith("VIOLATION")]
        rec["violations"] = len(viol)
        rec["no_failing_input"] = any(ln.rstrip().endswith("no-failing-input-found") for ln in viol)
        m = re.findall(r"(\d+) disagreements, (\d+) new failures", out)
        rec["disagreements"], rec["new_failures"] = (int(m[-1][0]), int(m[-1][1])) if m else (None, None)
        rec["result"] = "caught" if rc == 1 and viol else ("missed" if rc == 0 else f"check-error-exit-{rc}")
    finally:
        sh(["git", "-C", "/repo", "worktree", "remove", "--force", wt])
    return sid, rec


def main():
    args = sys.argv[1:]
    j = 4
    if "-j" in args:
        j = int(args[args.index("-j") + 1])
        del args[args.index("-j"):args.index("-j") + 2]
    status = {}
    path = os.path.join(SEEDED, "STATUS.json")
    if os.path.exists(path):
        status = json.load(open(path))
    ids = sorted(d for d in os.listdir(SEEDED) if os.path.isfile(os.path.join(SEEDED, d, "patch.diff")))
    ids = [i for i in ids if not args or any(i.startswith(w) for w in args)]
    keep = []
    for i in ids:
        try:
            if json.load(open(os.path.join(SEEDED, i, "meta.json"))).get("dropped"):
                status[i] = {"result": "dropped", "why": "see meta.json"}
                continue
        except (OSError, ValueError):
            pass
        keep.append(i)
    head = sh(["git", "-C", "/repo", "rev-parse", "--short=8", "HEAD"])[1].strip()
    with cf.ThreadPoolExecutor(max_workers=j) as ex:
        for sid, rec in ex.map(lambda s: one(s, head), keep):
            status[sid] = rec
            print(f"{sid:8s} {rec['result']:10s} new_failures={rec.get('new_failures')} disagreements={rec.get('disagreements')} "
                  f"{'no-failing-input' if rec.get('no_failing_input') else ''} {rec.get('wall_s')}s", flush=True)
            json.dump(status, open(path, "w"), indent=1, sort_keys=True)
    res = [status[i]["result"] for i in ids if i in status]
    print({r: res.count(r) for r in sorted(set(res))})


if __name__ == "__main__":
    main()
