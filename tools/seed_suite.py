#!/venv/bin/python
"""Confirm that the pinned suite still passes with a seeded patch, in a scratch worktree (never touches /repo's tree).
usage: tools/seed_suite.py <srcdir-with-patch.diff> <seed-id>   -> writes /verif/seeded/<seed-id>/suite.json"""
import json, os, subprocess, sys, time
VERIF = os.path.dirname(os.path.dirname(os.path.abspath(__file__)))
src, sid = sys.argv[1], sys.argv[2]
wt = f"/tmp/seedwt-{sid}"
def sh(c): return subprocess.run(c, shell=True, capture_output=True, text=True)
sh(f"git -C /repo worktree remove --force {wt}")
sh(f"git -C /repo worktree add --detach {wt} HEAD")
try:
    sh(f"cd /repo && for f in $(find pyresample -name '*.so'); do cp /repo/$f {wt}/$f; done")
    a = sh(f"git -C {wt} apply {src}/patch.diff")
    r = subprocess.run([os.path.join(VERIF, "tools", "suite.py"), wt], capture_output=True, text=True)
    rec = {"seed": sid, "applied": a.returncode == 0, "suite_exit": r.returncode, "out": r.stdout[-400:],
           "repo_head": sh("git -C /repo rev-parse --short HEAD").stdout.strip(), "when": time.strftime("%Y-%m-%d %H:%M")}
finally:
    sh(f"git -C /repo worktree remove --force {wt}")
d = os.path.join(VERIF, "seeded", sid); os.makedirs(d, exist_ok=True)
json.dump(rec, open(os.path.join(d, "suite.json"), "w"), indent=1)
print(json.dumps(rec))
