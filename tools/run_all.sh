#!/bin/sh
# run every check of one tier in parallel and print one line per check:  tools/run_all.sh quick|thorough [jobs] [seed] [--no-proof]
cd "$(dirname "$0")/.." || exit 2
tier=${1:-quick}; jobs=${2:-5}; seed=${3:-0}; extra=${4:-}
mkdir -p /tmp/runall-$tier-$seed
for i in 01 02 03 04 05 06 07 08 09 10 11 12 13 14 15 16 17 18 19 20; do echo C$i; done | \
  xargs -P "$jobs" -I{} sh -c "VERIF_SEED=$seed ./vcheck {} --tier $tier $extra > /tmp/runall-$tier-$seed/{}.log 2>&1; echo \"{} exit=\$? \$(grep -v condarc /tmp/runall-$tier-$seed/{}.log | grep -c '^VIOLATION') violation(s) \$(grep -v condarc /tmp/runall-$tier-$seed/{}.log | grep -c '^KNOWN-FINDING') known  \$(grep '^{} ' /tmp/runall-$tier-$seed/{}.log | tail -1 | cut -c1-160)\""
