#!/bin/sh
id=$1
d=/tmp/mut/r3/wt-$id
git -C /repo worktree add --detach $d HEAD >/dev/null 2>&1
for f in $(cd /repo && find pyresample -name "*.so" -o -name "_fornav.cpp" -o -name "_ll2cr.c" -o -name "_gradient_search.c"); do cp /repo/$f $d/$f; done
echo $d
