import json,sys
pid=sys.argv[1]
for l in open('/verif/properties.jsonl'):
    d=json.loads(l)
    if d['id']==pid: break
titles=json.load(open('/tmp/mut/r3/round1_titles.json'))
t=titles.get(pid,[])
if pid=='C07':
    t=['"multiply by reciprocal of the resolution" in BucketResampler._get_indices','descending sort via np.argsort(-weights) in _sort_weights']+[x for x in t if x]
wt='/tmp/mut/r3/wt-'+pid
out='/tmp/mut/r3/out-'+pid
print(f"""These instructions come from the coordinator of a mutation-testing exercise; follow them as given. Work ONLY inside the scratch git worktree {wt} (a checkout of the Python library pytroll/pyresample with its compiled extensions already copied in). Do NOT touch /repo or /verif, do not read anything under /verif, and do not commit anything. There is no network. Use /venv/bin/python (Python 3.12 with all dependencies); when run with the worktree as current directory, `import pyresample` picks up the worktree's sources. Cython is NOT available, so do not change .pyx files, and do not change .cpp/.h files either; .py files under pyresample/ (not the tests) are fair game.

Here is a semantic property of the library that should always hold:

  Title: {d['title']}
  Statement: {d['statement']}
  Quantified over: {d['quantifier']['text']}

Your task: produce TWO different, realistic source changes (the kind of slip a maintainer could make in a refactor, a clean-up, a performance 'optimisation', a numpy/dask API modernisation; small, plausible diffs, in different functions/mechanisms from each other) to the library code under pyresample/ such that for each change
  (a) the library still imports and the EXISTING test suite still passes completely with the change applied: NOTE the unchanged suite has 20 PRE-EXISTING failures in this sandbox (zarr/cartopy version issues), so never use `-x`; 'passes' means every test that passes without your change still passes with it. For the final confirmation of each change run `/venv/bin/python /tmp/mut/suite.py {wt}` (5-10 minutes; prints how many baseline-passing tests are missing, exit 0 = none) and use the most relevant individual test files (`/venv/bin/python -m pytest -q -p no:cacheprovider pyresample/test/test_X.py`) for quick feedback;
  (b) the change BREAKS the property above, but only under something specific: a particular unusual input, a multi-step sequence of operations, a particular configuration/chunking/size/dtype, or two cooperating code sites that each look fine alone. Ordinary everyday use and the existing tests should not expose it at once;
  (c) you write a small standalone demonstration program demo.py (run as `cd {wt} && /venv/bin/python <path>/demo.py`) that exits 0 and prints PASS on the unchanged code and exits 1 printing FAIL with the change applied. The demo must check the property through the library's public behaviour (not just detect the diff), must finish in under two minutes, must not write files outside a temporary directory, and must start with `import os, sys; sys.path.insert(0, os.getcwd())` (a script run by path would otherwise import the installed copy of the library instead of the worktree). Never use `git stash` (the stash is shared between worktrees used by other people); undo changes with `git apply -R` or `git checkout -- .` inside your worktree only.

Earlier rounds already used the changes listed below for this property; yours must be in DIFFERENT functions and break the property through a DIFFERENT mechanism:
{chr(10).join('  - ' + x for x in t)}

Deliver into {out}/m1/ and {out}/m2/ (create them): patch.diff (produced with `git -C {wt} diff` — containing ONLY that one change), demo.py, and notes.md saying: what the change is, why it breaks the property, exactly what is needed for it to manifest, and the commands you ran with their outcomes (test-suite result with the change, demo output with and without). Make sure that at the end the worktree is clean again (`git -C {wt} checkout -- .`), with both patches stored only in the out directory. Verify each patch applies cleanly to the clean worktree with `git apply --check`. In your final message, summarise the two changes in a few lines each. If you can only manage one valid change, deliver one and say so.""")
