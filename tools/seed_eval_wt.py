#!/venv/bin/python
"""Evaluate a seeded change WITHOUT touching /repo: everything runs against a scratch worktree (PYRESAMPLE_REPO).

usage: tools/seed_eval_wt.py <srcdir> <seed-id> <prop>[,<prop>...] [--keep] [--thorough]

 1. scratch worktree of /repo HEAD (tools/mkwt.sh); demo.py there -> must exit 0
 2. apply patch.diff in the worktree; demo.py -> must exit 1
 3. PYRESAMPLE_REPO=<worktree> ./vcheck <prop> --no-proof   (correspondence + oracles; the proof / tie obligations are
    evaluated separately in step 4 because the generated Lean file is shared)
 4. translator tie: which translated functions have a different source in the patched worktree (harness/py2lean.py), and
    whether the tie modules still build against the regenerated definitions (in a scratch copy of the Lean project)
 --keep : copy patch, demo, notes and a meta.json into /verif/seeded/<seed-id>/
"""
import json
import os
import shutil
import subprocess
import sys
import time

VERIF = os.path.dirname(os.path.dirname(os.path.abspath(__file__)))


def sh(cmd, cwd=None, timeout=7200, env=None):
    p = subprocess.run(cmd, cwd=cwd, shell=isinstance(cmd, str), capture_output=True, text=True, timeout=timeout, env=env)
    out = "\n".join(l for l in (p.stdout + p.stderr).splitlines() if "condarc" not in l)
    return p.returncode, out


def main():
    args = [a for a in sys.argv[1:] if not a.startswith("--")]
    src, sid, props = args[0], args[1], args[2].split(",")
    tier = "thorough" if "--thorough" in sys.argv else "quick"
    patch = os.path.abspath(os.path.join(src, "patch.diff"))
    demo = os.path.abspath(os.path.join(src, "demo.py"))
    wt = f"/tmp/sevwt-{sid}"
    rec = {"seed": sid, "properties_checked": props, "tier": tier, "when": time.strftime("%Y-%m-%d %H:%M"),
           "repo_head": sh("git -C /repo rev-parse --short HEAD")[1].strip(), "mode": "scratch worktree (PYRESAMPLE_REPO)"}
    sh([os.path.join(VERIF, "tools", "mkwt.sh"), wt])
    try:
        env = dict(os.environ, PYTHONPATH=wt)
        rc, out = sh(["/venv/bin/python", demo], cwd=wt, env=env, timeout=1800)
        rec["demo_clean"] = {"exit": rc, "tail": out[-300:]}
        sys.path.insert(0, os.path.join(VERIF, "harness"))
        import py2lean
        _, rep0 = py2lean.generate(wt)
        rc, out = sh(["git", "-C", wt, "apply", patch])
        if rc != 0:
            rec["applies"] = False
            print(json.dumps(rec, indent=1))
            return 2
        rc, out = sh(["/venv/bin/python", demo], cwd=wt, env=env, timeout=1800)
        rec["demo_patched"] = {"exit": rc, "tail": out[-300:]}
        rec["checks"] = {}
        for p in props:
            t0 = time.time()
            rc, out = sh(["./vcheck", p, "--tier", tier, "--no-proof"], cwd=VERIF, env=dict(os.environ, PYRESAMPLE_REPO=wt))
            viol = [l for l in out.splitlines() if l.startswith("VIOLATION")]
            summ = [l for l in out.splitlines() if l.startswith(p + " ")]
            rec["checks"][p] = {"exit": rc, "violations": viol[:4], "summary": summ[-1:], "wall_s": round(time.time() - t0, 1)}
            if viol:
                rp = viol[0].split("replay=")[1].split()[0]
                try:
                    rec["checks"][p]["replay_excerpt"] = open(os.path.join(VERIF, rp)).read()[:1500]
                except OSError:
                    pass
        # translator tie
        src_lean, rep1 = py2lean.generate(wt)
        changed = sorted(n for n in rep1 if (rep1[n].get("sha"), rep1[n].get("ok")) != (rep0.get(n, {}).get("sha"), rep0.get(n, {}).get("ok")))
        tie = {"translated_functions_changed": changed, "untranslatable_now": sorted(n for n in changed if not rep1[n]["ok"])}
        if changed:
            copy = f"/tmp/sevlean-{sid}"
            shutil.rmtree(copy, ignore_errors=True)
            shutil.copytree(os.path.join(VERIF, "lean", "PyresampleModel"), copy, symlinks=True)
            try:
                open(os.path.join(copy, "PyresampleModel", "Gen", "Src.lean"), "w").write(src_lean)
                mods = sorted(f[:-5] for f in os.listdir(os.path.join(copy, "PyresampleModel", "Props")) if f.startswith(("Tie", "Code")))
                rc, out = sh("lake build " + " ".join("PyresampleModel.Props." + m for m in mods), cwd=copy)
                tie["modules_broken"] = sorted({l.split("PyresampleModel.Props.")[1].split()[0] for l in out.splitlines()
                                                if l.startswith("- PyresampleModel.Props.")})
            finally:
                shutil.rmtree(copy, ignore_errors=True)
        owners = set()
        for mf in os.listdir(os.path.join(VERIF, "meta")):
            t = json.load(open(os.path.join(VERIF, "meta", mf))).get("tie")
            if t and set(t["functions"]) & set(changed):
                owners.add(mf[:3])
        tie["owners"] = sorted(owners)
        rec["translator_tie"] = tie
    finally:
        sh(["git", "-C", "/repo", "worktree", "remove", "--force", wt])
    caught = [p for p, c in rec.get("checks", {}).items() if c["exit"] == 1 and c["violations"]]
    rec["caught_by"] = caught
    rec["caught_by_tie"] = [p for p in props if p in rec.get("translator_tie", {}).get("owners", []) and
                            (rec["translator_tie"].get("modules_broken") or rec["translator_tie"].get("untranslatable_now"))]
    print(json.dumps({k: rec[k] for k in ("seed", "demo_clean", "demo_patched", "caught_by", "caught_by_tie", "translator_tie") if k in rec}, indent=1)[:1800])
    if "--keep" in sys.argv:
        d = os.path.join(VERIF, "seeded", sid)
        os.makedirs(d, exist_ok=True)
        for f in ("patch.diff", "demo.py", "notes.md"):
            if os.path.exists(os.path.join(src, f)):
                shutil.copy(os.path.join(src, f), os.path.join(d, f))
        mp = os.path.join(d, "meta.json")
        meta = json.load(open(mp)) if os.path.exists(mp) else {"breaks_property": props[0], "seed": sid, "runs": []}
        meta["runs"].append(rec)
        json.dump(meta, open(mp, "w"), indent=1)
    return 0


if __name__ == "__main__":
    sys.exit(main())
