#!/venv/bin/python
"""Evaluate a seeded change (patch.diff + demo.py) against the checks.

usage: tools/seed_eval.py <srcdir> <seed-id> <prop>[,<prop>...] [--tier quick|thorough] [--suite] [--keep]

 1. demo.py on the unchanged /repo  -> must exit 0
 2. git -C /repo apply patch.diff; demo.py -> must exit 1
 3. ./vcheck <prop> for each property -> record exit code / VIOLATION lines
 4. git -C /repo checkout -- .   (always)
 --suite : additionally run the pinned test suite with the patch in a scratch worktree under /tmp
 --keep  : copy patch, demo and a meta.json into /verif/seeded/<seed-id>/
"""
import json
import os
import shutil
import subprocess
import sys
import time

VERIF = os.path.dirname(os.path.dirname(os.path.abspath(__file__)))


def sh(cmd, cwd=None, timeout=3600, env=None):
    p = subprocess.run(cmd, cwd=cwd, shell=isinstance(cmd, str), capture_output=True, text=True, timeout=timeout, env=env)
    out = "\n".join(l for l in (p.stdout + p.stderr).splitlines() if "condarc" not in l)
    return p.returncode, out


def main():
    args = [a for a in sys.argv[1:] if not a.startswith("--")]
    src, sid, props = args[0], args[1], args[2].split(",")
    tier = "thorough" if "--thorough" in sys.argv else "quick"
    patch = os.path.join(src, "patch.diff")
    demo = os.path.join(src, "demo.py")
    rec = {"seed": sid, "properties_checked": props, "tier": tier, "when": time.strftime("%Y-%m-%d %H:%M")}
    rc, out = sh(["git", "-C", "/repo", "status", "--porcelain", "--untracked-files=no"])
    if out.strip():
        print("refusing: /repo has local modifications:\n" + out)
        return 2
    env = dict(os.environ, PYTHONPATH="/repo")
    rc, out = sh(["/venv/bin/python", demo], cwd="/repo", env=env, timeout=1800)
    rec["demo_clean"] = {"exit": rc, "tail": out[-300:]}
    rc, out = sh(["git", "-C", "/repo", "apply", "--check", patch])
    if rc != 0:
        print("patch does not apply:", out)
        rec["applies"] = False
        print(json.dumps(rec, indent=1))
        return 2
    try:
        sh(["git", "-C", "/repo", "apply", patch])
        rc, out = sh(["/venv/bin/python", demo], cwd="/repo", env=env, timeout=1800)
        rec["demo_patched"] = {"exit": rc, "tail": out[-300:]}
        rec["checks"] = {}
        for p in props:
            t0 = time.time()
            rc, out = sh(["./vcheck", p, "--tier", tier], cwd=VERIF, timeout=7200)
            viol = [l for l in out.splitlines() if l.startswith("VIOLATION")]
            summ = [l for l in out.splitlines() if l.startswith(p + " ")]
            rec["checks"][p] = {"exit": rc, "violations": viol[:4], "summary": summ[-1:] , "wall_s": round(time.time() - t0, 1)}
            # keep the first replay as illustration
            if viol and "--keep" in sys.argv:
                rp = viol[0].split("replay=")[1].split()[0]
                try:
                    rec["checks"][p]["replay_excerpt"] = open(os.path.join(VERIF, rp)).read()[:1500]
                except OSError:
                    pass
    finally:
        sh(["git", "-C", "/repo", "checkout", "--", "."])
        sh("rm -f /repo/test_areas.yaml")
    if "--suite" in sys.argv:
        wt = f"/tmp/seedwt-{sid}"
        sh(["git", "-C", "/repo", "worktree", "add", "--detach", wt, "HEAD"])
        try:
            sh(f"cd /repo && for f in $(find pyresample -name '*.so'); do cp /repo/$f {wt}/$f; done")
            sh(["git", "-C", wt, "apply", patch])
            rc, out = sh([os.path.join(VERIF, "tools", "suite.py"), wt], timeout=3600)
            rec["suite_with_patch"] = {"exit": rc, "out": out[-400:]}
        finally:
            sh(["git", "-C", "/repo", "worktree", "remove", "--force", wt])
    caught = [p for p, c in rec.get("checks", {}).items() if c["exit"] == 1 and c["violations"]]
    rec["caught_by"] = caught
    print(json.dumps(rec, indent=1))
    if "--keep" in sys.argv:
        d = os.path.join(VERIF, "seeded", sid)
        os.makedirs(d, exist_ok=True)
        shutil.copy(patch, os.path.join(d, "patch.diff"))
        shutil.copy(demo, os.path.join(d, "demo.py"))
        notes = os.path.join(src, "notes.md")
        if os.path.exists(notes):
            shutil.copy(notes, os.path.join(d, "notes.md"))
        meta_p = os.path.join(d, "meta.json")
        meta = json.load(open(meta_p)) if os.path.exists(meta_p) else {}
        meta.update({"breaks_property": props[0], "seed": sid, "runs": meta.get("runs", []) + [rec]})
        json.dump(meta, open(meta_p, "w"), indent=1)
    return 0


if __name__ == "__main__":
    sys.exit(main())
