#!/venv/bin/python
"""Run the pinned test suite in a checkout (default /repo) and compare with /root/.vp/BASELINE.json.
usage: tools/suite.py [dir] [pytest-args...]   exit 0 iff every stable_pass test passed."""
import json, os, subprocess, sys, tempfile
import xml.etree.ElementTree as ET
d = sys.argv[1] if len(sys.argv) > 1 and os.path.isdir(sys.argv[1]) else "/repo"
extra = [a for a in sys.argv[1:] if a != d]
base = json.load(open("/root/.vp/BASELINE.json"))
with tempfile.NamedTemporaryFile(suffix=".xml", delete=False) as f:
    xml = f.name
env = dict(os.environ); env.pop("PYRESAMPLE_VERIF", None)
subprocess.run(["/venv/bin/python", "-m", "pytest", "-q", "-p", "no:cacheprovider", "--timeout=900",
                "--continue-on-collection-errors", f"--junitxml={xml}"] + extra, cwd=d, env=env,
               stdout=subprocess.DEVNULL, stderr=subprocess.DEVNULL)
passed = set()
for tc in ET.parse(xml).getroot().iter("testcase"):
    ok = not any(c.tag in ("failure", "error", "skipped") for c in tc)
    if ok:
        passed.add(f"{tc.get('classname')}::{tc.get('name')}")
os.unlink(xml)
for junk in ("test_areas.yaml",):
    p = os.path.join(d, junk)
    if os.path.exists(p):
        os.unlink(p)
missing = [t for t in base["stable_pass"] if t not in passed]
print(f"{len(passed)} passed; baseline stable_pass {len(base['stable_pass'])}; missing from passed: {len(missing)}")
for t in missing[:30]:
    print("  NOT PASSED:", t)
sys.exit(1 if missing else 0)
