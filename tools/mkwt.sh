#!/bin/sh
# scratch worktree of /repo at HEAD with the compiled extensions and generated C sources copied in, usable as
#   PYRESAMPLE_REPO=<dir> ./vcheck Cxx --no-proof
# usage: tools/mkwt.sh <dir> [patch.diff]     remove with: git -C /repo worktree remove --force <dir>
set -e
d="$1"
git -C /repo worktree remove --force "$d" 2>/dev/null || true
git -C /repo worktree add --detach "$d" HEAD >/dev/null 2>&1
cd /repo
for f in $(find pyresample -name '*.so' -o -name '_fornav.cpp' -o -name '_ll2cr.c' -o -name '_gradient_search.c'); do cp "/repo/$f" "$d/$f"; done
if [ -n "$2" ]; then git -C "$d" apply "$2"; fi
echo "worktree ready: $d"
