#!/venv/bin/python
"""Re-run every kept seeded change against the check of the property it breaks (quick tier, --no-proof so that the
committed evidence is not touched) and write /verif/seeded/STATUS.json + a table on stdout.

usage: tools/seed_all.py [id-prefix ...]      (e.g. tools/seed_all.py C11 C16-m1)

Never run while anything else uses /repo: each patch is applied to /repo's working tree and removed again.
"""
import json
import os
import re
import subprocess
import sys
import time

ROOT = os.path.dirname(os.path.dirname(os.path.abspath(__file__)))
SEEDED = os.path.join(ROOT, "seeded")


def sh(cmd, **kw):
    p = subprocess.run(cmd, stdout=subprocess.PIPE, stderr=subprocess.STDOUT, text=True, **kw)
    return p.returncode, p.stdout


def main():
    want = sys.argv[1:]
    rc, out = sh(["git", "-C", "/repo", "status", "--porcelain", "--untracked-files=no"])
    if out.strip():
        sys.exit("/repo has uncommitted changes: " + out)
    status = {}
    path = os.path.join(SEEDED, "STATUS.json")
    if os.path.exists(path):
        status = json.load(open(path))
    ids = sorted(d for d in os.listdir(SEEDED) if os.path.isfile(os.path.join(SEEDED, d, "patch.diff")))
    ids = [i for i in ids if not want or any(i.startswith(w) for w in want)]
    head = sh(["git", "-C", "/repo", "rev-parse", "--short=8", "HEAD"])[1].strip()
    for sid in ids:
        prop = sid.split("-")[0]
        patch = os.path.join(SEEDED, sid, "patch.diff")
        rec = {"repo_head": head, "when": time.strftime("%Y-%m-%d %H:%M")}
        rc, out = sh(["git", "-C", "/repo", "apply", "--check", patch])
        if rc:
            rec["result"] = "patch-does-not-apply"
            status[sid] = rec
            print(f"{sid:8s} PATCH DOES NOT APPLY")
            continue
        try:
            sh(["git", "-C", "/repo", "apply", patch])
            t0 = time.time()
            env = dict(os.environ, VERIF_SEED=os.environ.get("VERIF_SEED", "0"))
            rc, out = sh([os.path.join(ROOT, "vcheck"), prop, "--tier", "quick", "--no-proof"], env=env, cwd=ROOT, timeout=3600)
            rec["exit"] = rc
            rec["wall_s"] = round(time.time() - t0, 1)
            viol = [ln for ln in out.splitlines() if ln.startswith("VIOLATION")]
            rec["violations"] = len(viol)
            rec["no_failing_input"] = any(ln.rstrip().endswith("no-failing-input-found") for ln in viol)
            m = re.findall(r"(\d+) disagreements, (\d+) new failures", out)
            rec["disagreements"], rec["new_failures"] = (int(m[-1][0]), int(m[-1][1])) if m else (None, None)
            rec["result"] = "caught" if rc == 1 and viol else ("missed" if rc == 0 else f"check-error-exit-{rc}")
        finally:
            sh(["git", "-C", "/repo", "checkout", "--", "."])
        status[sid] = rec
        print(f"{sid:8s} {rec['result']:8s} failures={rec.get('new_failures')} disagreements={rec.get('disagreements')} {rec.get('wall_s')}s", flush=True)
        json.dump(status, open(path, "w"), indent=1, sort_keys=True)
    res = [status[i]["result"] for i in ids]
    print(f"{len(ids)} seeds: {res.count('caught')} caught, {res.count('missed')} missed, {len(res) - res.count('caught') - res.count('missed')} other")


if __name__ == "__main__":
    main()
