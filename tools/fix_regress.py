#!/venv/bin/python
"""For every `fixed:` entry of known_findings.json: take the repair out of /repo's working tree again (reverse-apply the fix
commit's diff), run the quick check of the property (--no-proof: the committed evidence is not touched) and record whether
the violation is reported again.  A `fixed:` entry suppresses nothing, so the expected result is exit 1 with a VIOLATION line.

usage: tools/fix_regress.py [Fnn ...]
Writes /verif/seeded/FIX_REGRESS.json.  Never run while anything else uses /repo.
"""
import json
import os
import re
import subprocess
import sys
import time

ROOT = os.path.dirname(os.path.dirname(os.path.abspath(__file__)))


def sh(cmd, **kw):
    p = subprocess.run(cmd, stdout=subprocess.PIPE, stderr=subprocess.STDOUT, text=True, **kw)
    return p.returncode, p.stdout


def main():
    want = set(sys.argv[1:])
    rc, out = sh(["git", "-C", "/repo", "status", "--porcelain", "--untracked-files=no"])
    if out.strip():
        sys.exit("/repo has uncommitted changes: " + out)
    kf = json.load(open(os.path.join(ROOT, "known_findings.json")))["findings"]
    path = os.path.join(ROOT, "seeded", "FIX_REGRESS.json")
    res = json.load(open(path)) if os.path.exists(path) else {}
    head = sh(["git", "-C", "/repo", "rev-parse", "--short=8", "HEAD"])[1].strip()
    for e in kf:
        if e.get("status") != "fixed" or (want and e["id"] not in want):
            continue
        commit = e["commit"]
        rc, diff = sh(["git", "-C", "/repo", "diff", f"{commit}^", commit, "--", "pyresample"])
        rec = {"property": e["property"], "commit": commit, "repo_head": head, "when": time.strftime("%Y-%m-%d %H:%M")}
        p = subprocess.run(["git", "-C", "/repo", "apply", "-R", "--3way", "-"], input=diff, text=True, stdout=subprocess.PIPE, stderr=subprocess.STDOUT)
        if p.returncode:
            sh(["git", "-C", "/repo", "reset", "-q"])
            sh(["git", "-C", "/repo", "checkout", "--", "."])
            rec["result"] = "cannot-unapply (later commits changed the same lines)"
            rec["detail"] = p.stdout[-300:]
            res[e["id"]] = rec
            print(f"{e['id']:4s} {e['property']} {commit} cannot be un-applied")
            continue
        try:
            env = dict(os.environ, VERIF_SEED=os.environ.get("VERIF_SEED", "0"))
            t0 = time.time()
            rc, out = sh([os.path.join(ROOT, "vcheck"), e["property"], "--tier", "quick", "--no-proof"], env=env, cwd=ROOT, timeout=3600)
            viol = [ln for ln in out.splitlines() if ln.startswith("VIOLATION")]
            m = re.findall(r"(\d+) disagreements, (\d+) new failures", out)
            rec.update({"exit": rc, "violations": len(viol), "wall_s": round(time.time() - t0, 1),
                        "disagreements": int(m[-1][0]) if m else None, "new_failures": int(m[-1][1]) if m else None,
                        "result": "reported-again" if rc == 1 and viol else ("NOT-REPORTED" if rc == 0 else f"check-error-exit-{rc}")})
        finally:
            sh(["git", "-C", "/repo", "reset", "-q"])
            sh(["git", "-C", "/repo", "checkout", "--", "."])
        res[e["id"]] = rec
        print(f"{e['id']:4s} {e['property']} {commit} {rec['result']} failures={rec.get('new_failures')} disagreements={rec.get('disagreements')}", flush=True)
        json.dump(res, open(path, "w"), indent=1, sort_keys=True)
    rc, out = sh(["git", "-C", "/repo", "status", "--porcelain", "--untracked-files=no"])
    if out.strip():
        print("WARNING: /repo not clean:", out)


if __name__ == "__main__":
    main()
