#!/venv/bin/python
"""Which kept seeded changes does the TRANSLATOR TIE alone see?  (independent of the correspondence suites)

For every seeded/<id>/patch.diff: apply it in a scratch worktree of /repo, regenerate Gen/Src.lean from that worktree
inside a scratch COPY of the Lean project (so /verif/lean and /repo are not touched and other checks can run meanwhile),
rebuild every Props/Tie*.lean, record which functions stop translating and which tie modules stop compiling.
Writes seeded/TIE_STATUS.json.   usage: tools/tie_eval.py [seed-id-prefix ...]
"""
import json, os, shutil, subprocess, sys, time
from pathlib import Path

VERIF = Path(__file__).resolve().parent.parent
WT = Path("/tmp/tie-eval-wt")
LEANCOPY = Path("/tmp/tie-eval-lean")


def sh(cmd, **kw):
    return subprocess.run(cmd, shell=True, capture_output=True, text=True, **kw)


def main():
    prefixes = sys.argv[1:]
    sh(f"git -C /repo worktree remove --force {WT}")
    sh(f"git -C /repo worktree add --detach {WT} HEAD")
    if LEANCOPY.exists():
        shutil.rmtree(LEANCOPY)
    shutil.copytree(VERIF / "lean" / "PyresampleModel", LEANCOPY, symlinks=True)
    sys.path.insert(0, str(VERIF / "harness"))
    import py2lean
    out_path = LEANCOPY / "PyresampleModel" / "Gen" / "Src.lean"
    ties = sorted(p.stem for p in (LEANCOPY / "PyresampleModel" / "Props").glob("Tie*.lean"))
    status = {}
    try:
        for d in sorted((VERIF / "seeded").iterdir()):
            if not (d / "patch.diff").exists() or (prefixes and not any(d.name.startswith(p) for p in prefixes)):
                continue
            sh(f"git -C {WT} checkout -- . && git -C {WT} clean -fdq")
            a = sh(f"git -C {WT} apply {d / 'patch.diff'}")
            if a.returncode != 0:
                status[d.name] = {"applied": False}
                continue
            src, report = py2lean.generate(WT)
            out_path.write_text(src)
            untranslated = [n for n, r in report.items() if not r["ok"]]
            b = sh("lake build " + " ".join(f"PyresampleModel.Props.{t}" for t in ties), cwd=LEANCOPY)
            failed = sorted({l.split("PyresampleModel.Props.")[1].split()[0] for l in (b.stdout + b.stderr).splitlines()
                             if l.startswith("- PyresampleModel.Props.")})
            status[d.name] = {"applied": True, "untranslated": untranslated, "tie_modules_broken": failed,
                              "seen_by_tie": bool(untranslated or failed)}
            print(d.name, status[d.name], flush=True)
    finally:
        sh(f"git -C /repo worktree remove --force {WT}")
        shutil.rmtree(LEANCOPY, ignore_errors=True)
    seen = sorted(k for k, v in status.items() if v.get("seen_by_tie"))
    rec = {"when": time.strftime("%Y-%m-%d %H:%M"), "repo_head": sh("git -C /repo rev-parse --short HEAD").stdout.strip(),
           "n": len(status), "seen_by_tie": seen, "status": status}
    (VERIF / "seeded" / "TIE_STATUS.json").write_text(json.dumps(rec, indent=1))
    print(f"{len(seen)} of {len(status)} kept changes are seen by the translator tie alone: {seen}")


if __name__ == "__main__":
    main()
