import PyresampleModel.Model.C02

/- Line-protocol driver for C02: one request per line `<op> <args…>`, one reply per line.
   `err:<kind>` = the real code rejects this input; `bad-op` = the model does not understand it. -/
open PyresampleModel

partial def loop (hin hout : IO.FS.Stream) : IO Unit := do
  let line ← hin.getLine
  if line.isEmpty then return ()
  let toks := Wire.tokens line.trimAscii.toString
  let out := match toks with
    | ["ping"] => "pong"
    | _ => (C02.handle toks).getD "bad-op"
  hout.putStrLn out
  hout.flush
  loop hin hout

def main : IO Unit := do
  loop (← IO.getStdin) (← IO.getStdout)
