import PyresampleModel.Model.Core

/-
  C19 — partition helpers and overlap merging.

  Models, written from the code as it stands:
  * `geometry._get_slice`                                  → `getSlice`
  * `slicer._enumerate_chunk_slices`                       → `enumerateChunkSlices`
  * `utils.row_appendable_array.RowAppendableArray`        → `RowApp`
  * `future.geometry._subset._make_slice_divisible`        → `makeSliceDivisible`
  * `spherical_utils.GetNonOverlapUnionsBaseClass.merge`   → `mergeUnions`
-/

namespace PyresampleModel.C19

/-! ### `_get_slice` -/

/-- the `while start_idx < size` loop; `fuel` bounds the iterations (size + 1 suffices). -/
def getSliceLoop (size len : Nat) : Nat → Nat → Nat → List (Nat × Nat)
  | 0, _, _ => []
  | fuel + 1, start, stop =>
    if start < size then
      (start, stop) :: getSliceLoop size len fuel stop (min (stop + len) size)
    else []

/-- `list(_get_slice(segments, (size,)))` as (start, stop) pairs; `segments ≥ 1`. -/
def getSlice (segments size : Nat) : List (Nat × Nat) :=
  let len := ceilDiv size segments
  getSliceLoop size len (size + 1) 0 len

/-! ### `_enumerate_chunk_slices` -/

/-- slices of one axis: `(offset, offset + chunk)` with offset the sum of preceding chunks -/
def axisSlices : List Nat → Nat → List (Nat × Nat)
  | [], _ => []
  | c :: cs, off => (off, off + c) :: axisSlices cs (off + c)

/-- positions paired with slices for one axis -/
def axisEnum (chunks : List Nat) : List (Nat × (Nat × Nat)) :=
  (List.range chunks.length).zip (axisSlices chunks 0)

/-- `np.ndindex` order (last axis fastest): cartesian product of per-axis enumerations. -/
def enumerateChunkSlices : List (List Nat) → List (List Nat × List (Nat × Nat))
  | [] => [([], [])]
  | ax :: rest =>
    (axisEnum ax).flatMap (fun (p, s) =>
      (enumerateChunkSlices rest).map (fun (ps, ss) => (p :: ps, s :: ss)))

/-! ### `RowAppendableArray` -/

/-- buffer cells are `none` while uninitialised (`np.empty`). -/
structure RowApp (α : Type) where
  cap    : Nat
  data   : Option (List (Option α))
  cursor : Nat
deriving Repr

def RowApp.new {α} (cap : Nat) : RowApp α := { cap := cap, data := none, cursor := 0 }

/-- the buffer, allocated on first use: `np.empty((reserved_capacity, …))` -/
def RowApp.buf {α} (s : RowApp α) : List (Option α) :=
  match s.data with
  | none => List.replicate s.cap none
  | some d => d

def RowApp.appendRow {α} (s : RowApp α) (next : List α) : RowApp α :=
  let data := s.buf
  let cursorEnd := s.cursor + next.length
  if cursorEnd > data.length then
    let remaining := data.length - s.cursor
    -- self._data[self._cursor:] = next_array[:remaining]
    let data1 := data.take s.cursor ++ (next.take remaining).map some
    -- np.append / np.vstack
    let data2 := data1 ++ (next.drop remaining).map some
    { s with data := some data2, cursor := cursorEnd }
  else
    let data1 := data.take s.cursor ++ next.map some ++ data.drop cursorEnd
    { s with data := some data1, cursor := cursorEnd }

/-- `to_array`; `none` when nothing was ever appended (`None[:0]` raises in Python). -/
def RowApp.toArray {α} (s : RowApp α) : Option (List (Option α)) :=
  s.data.map (fun d => d.take s.cursor)

/-! ### `_make_slice_divisible` -/

/-- as in the code: grow at the stop, else at the start, else shrink. -/
def makeSliceDivisible (start stop : Int) (maxSize : Int) (factor : Int) : Int × Int :=
  let rem := (stop - start) % factor
  if rem ≠ 0 then
    let adj := factor - rem
    if stop + adj ≤ maxSize then (start, stop + adj)
    else if start - adj ≥ 0 then (start - adj, stop)
    else if maxSize - (stop - start) ≥ adj then (0, stop + (adj - start))
    else (start, stop - rem)
  else (start, stop)

/-- the code before the `fix:` commit (kept to state the counter-witness). -/
def makeSliceDivisibleOld (start stop : Int) (maxSize : Int) (factor : Int) : Int × Int :=
  let rem := (stop - start) % factor
  if rem ≠ 0 then
    let adj := factor - rem
    if stop + 1 + rem < maxSize then (start, stop + adj)
    else if start > 0 then (start - adj, stop)
    else (start, stop - rem)
  else (start, stop)

/-! ### `_merge_unions` -/

/-- dict keys: ints or nested 2-tuples of keys -/
inductive Key where
  | leaf : Nat → Key
  | node : Key → Key → Key
deriving Repr, DecidableEq

/-- `merge_tuples`: left-to-right flattening -/
def Key.flatten : Key → List Nat
  | .leaf i => [i]
  | .node a b => a.flatten ++ b.flatten

/-- remove and return the first element satisfying `p` -/
def extractFirst {β} (p : β → Bool) : List β → Option (β × List β)
  | [] => none
  | y :: ys =>
    if p y then some (y, ys)
    else match extractFirst p ys with
      | none => none
      | some (z, zs) => some (z, y :: zs)

/-- `_find_union_pair`: first overlapping pair in `itertools.combinations` order, together
with the dict entries that remain after deleting both. -/
def extractPair {α} (ov : α → α → Bool) :
    List (Key × α) → Option ((Key × α) × (Key × α) × List (Key × α))
  | [] => none
  | x :: rest =>
    match extractFirst (fun y => ov x.2 y.2) rest with
    | some (y, rest') => some (x, y, rest')
    | none =>
      match extractPair ov rest with
      | none => none
      | some (a, b, r) => some (a, b, x :: r)

/-- `_merge_unions` with explicit fuel (one merge per unit). -/
def mergeLoop {α} (ov : α → α → Bool) (un : α → α → α) : Nat → List (Key × α) → List (Key × α)
  | 0, g => g
  | fuel + 1, g =>
    match extractPair ov g with
    | none => g
    | some (a, b, r) => mergeLoop ov un fuel (r ++ [(.node a.1 b.1, un a.2 b.2)])

/-- `GetNonOverlapUnionsBaseClass(geoms).merge()`; result in dict order. -/
def mergeUnions {α} (ov : α → α → Bool) (un : α → α → α) (geoms : List α) : List (Key × α) :=
  let g := (List.range geoms.length).zip geoms |>.map (fun (i, x) => (Key.leaf i, x))
  mergeLoop ov un geoms.length g

/-- Python sets of ints as sorted duplicate-free lists -/
def setOverlaps (a b : List Nat) : Bool := a.any (fun x => b.contains x)

def insertSorted (x : Nat) : List Nat → List Nat
  | [] => [x]
  | y :: ys => if x < y then x :: y :: ys else if x = y then y :: ys else y :: insertSorted x ys

def setUnion (a b : List Nat) : List Nat := a.foldr insertSorted b

def normSet (a : List Nat) : List Nat := a.foldr insertSorted []

/-! ### driver -/

open Wire

def showPair (p : Nat × Nat) : String := s!"{p.1}:{p.2}"

def handle : List String → Option String
  | ["getslice", seg, size] => do
    let seg ← nat? seg; let size ← nat? size
    if seg = 0 then some "err:value" else
    some (showList showPair (getSlice seg size))
  | "enumchunks" :: rest => do
    -- enumchunks <rank> (<k> c₁ … c_k)*
    let rank ← nat? (← rest.head?)
    let chunks ← allLists nat? rank rest.tail
    let out := enumerateChunkSlices chunks
    some (" ".intercalate (toString out.length ::
      out.map (fun (ps, ss) =>
        ",".intercalate (ps.map toString) ++ "|" ++ ",".intercalate (ss.map showPair))))
  | "rowapp" :: cap :: rest => do
    -- rowapp <cap> <nrows> (<k> v₁ … v_k)*   values are ints
    let cap ← nat? cap
    let n ← nat? (← rest.head?)
    let rows ← allLists int? n rest.tail
    let s := rows.foldl RowApp.appendRow (RowApp.new cap)
    match s.toArray with
    | none => some "err:none"
    | some xs => some (showList (fun | none => "garbage" | some v => toString v) xs)
  | ["divisible", start, stop, maxSize, factor] => do
    let a ← int? start; let b ← int? stop; let m ← int? maxSize; let f ← int? factor
    if f ≤ 0 then some "err:value" else
    let (s, e) := makeSliceDivisible a b m f
    some s!"{s} {e}"
  | "merge" :: rest => do
    -- merge <m> (<k> e₁ … e_k)*  sets of naturals
    let n ← nat? (← rest.head?)
    let sets ← allLists nat? n rest.tail
    let out := mergeUnions setOverlaps setUnion (sets.map normSet)
    some (" ".intercalate (toString out.length ::
      out.map (fun (k, v) =>
        ",".intercalate (k.flatten.map toString) ++ "|" ++ ",".intercalate (v.map toString))))
  | _ => none

end PyresampleModel.C19
