import PyresampleModel.Model.Core

/-
  C06 — model of the bilinear resampler's analytic core (`pyresample/bilinear/_base.py`), over exact
  rationals. NaN is `none`; ±inf only ever feeds an "outside [0, 1]" test that turns it into NaN, so it is
  `none` as well. `np.sqrt` is a parameter: every function that needs the square root of a discriminant
  takes `r` ("the value returned by sqrt") and the theorems assume `r * r = discriminant`.

  * `_get_stride_and_valid_corner_indices` / `_get_corner`  → `pickCorner`, `fourCorners`
  * `_calc_abc`, `_solve_quadratic`, `_solve_another_fractional_distance` → `calcABC`, `solveQuadratic`, `solveAnother`
  * `_get_fractional_distances_irregular / _uprights_parallel / _parallellogram`, `_invalid_s_and_t_to_nan`,
    `_update_fractional_distances` → `irregular`, `uprights`, `parallelogram`, `fractional`
  * `_resample` → `resample`
-/
namespace PyresampleModel.C06

structure Pt where
  x : Rat
  y : Rat
deriving Repr, DecidableEq

/-- `find_indices_outside_min_and_max(v, 0, 1)` negated -/
def in01 (v : Rat) : Bool := decide (0 ≤ v) && decide (v ≤ 1)

/-- a / b with division by zero giving inf/NaN (= `none`) -/
def divQ (a b : Rat) : Option Rat := if b = 0 then none else some (a / b)

/-- keep a value only if it is inside [0, 1] (`np.where(outside, nan, v)`; NaN stays NaN) -/
def keep01 : Option Rat → Option Rat
  | some v => if in01 v then some v else none
  | none => none

/-! ### corner selection -/

/-- quadrant tests of `_get_stride_and_valid_corner_indices` for corner number `q` (0 = upper left,
1 = upper right, 2 = lower left, 3 = lower right); `x_diff = out_x - in_x`, `y_diff = out_y - in_y` -/
def inQuadrant (q : Nat) (ox oy : Rat) (p : Pt) : Bool :=
  let xd := ox - p.x
  let yd := oy - p.y
  match q with
  | 0 => decide (xd > 0) && decide (yd < 0)
  | 1 => decide (xd < 0) && decide (yd < 0)
  | 2 => decide (xd > 0) && decide (yd > 0)
  | _ => decide (xd < 0) && decide (yd > 0)

/-- `_get_corner`: position (in kd-tree order) of the first neighbour in the quadrant; neighbours with NaN
coordinates (`none`) are never valid -/
def pickCorner (q : Nat) (ox oy : Rat) (nb : List (Option Pt)) : Option Nat :=
  nb.findIdx? (fun o => match o with | some p => inQuadrant q ox oy p | none => false)

/-! ### the solver -/

/-- `_calc_abc` for corner order (pt_1, pt_2, pt_3, pt_4) -/
def calcABC (p1 p2 p3 p4 : Pt) (oy ox : Rat) : Rat × Rat × Rat :=
  let x21 := p2.x - p1.x
  let x31 := p3.x - p1.x
  let x42 := p4.x - p2.x
  let y21 := p2.y - p1.y
  let y31 := p3.y - p1.y
  let y42 := p4.y - p2.y
  let a := x31 * y42 - y31 * x42
  let b := oy * (x42 - x31) - ox * (y42 - y31) + x31 * p2.y - y31 * p2.x + y42 * p1.x - x42 * p1.y
  let c := oy * x21 - ox * y21 + p1.x * p2.y - p2.x * p1.y
  (a, b, c)

def disc (abc : Rat × Rat × Rat) : Rat := abc.2.1 * abc.2.1 - 4 * abc.1 * abc.2.2

/-- which candidate `_solve_quadratic` returned -/
inductive Root | x1 | x2 | lin
deriving Repr, DecidableEq

/-- the two roots in the numerically stable form used by the code: `q = -(b + sgn(b)·sqrt(D)) / 2`, roots `q / a` and `c / q`,
ordered as `x_1 = (-b + sqrt(D)) / 2a`, `x_2 = (-b - sqrt(D)) / 2a` -/
def stableRoots (abc : Rat × Rat × Rat) (r : Rat) : Option Rat × Option Rat :=
  let (a, b, c) := abc
  let q := -(1/2 : Rat) * (b + (if b < 0 then -1 else 1) * r)
  let rootQA := divQ q a
  let rootCQ := divQ c q
  if b < 0 then (rootQA, rootCQ) else (rootCQ, rootQA)

/-- `_solve_quadratic(a, b, c, 0, 1)` with `r = sqrt(discriminant)` (`none` = NaN for a negative discriminant) -/
def solveQuadratic (abc : Rat × Rat × Rat) (r : Option Rat) : Option (Rat × Root) :=
  let x12 : Option Rat × Option Rat := match r with
    | some r => stableRoots abc r
    | none => (none, none)
  let x3 := divQ (-abc.2.2) abc.2.1
  match keep01 x12.1 with
  | some v => some (v, .x1)
  | none =>
    match keep01 x12.2 with
    | some v => some (v, .x2)
    | none =>
      match keep01 x3 with
      | some v => some (v, .lin)
      | none => none

def absQ (q : Rat) : Rat := if 0 ≤ q then q else -q
def maxQ (a b : Rat) : Rat := if a ≤ b then b else a

/-- the double nearest to `1e-6`, exactly (the literal of `_solve_another_fractional_distance`; fixed by the tie theorem
`Tie.tie_solve_another` against the translated source: 1/10^6 is not a double) -/
def tiny6 : Rat := mkRat 4722366482869645 4722366482869645213696

/-- `_solve_another_fractional_distance(f, (y_1, y_2, y_3, y_4), out_y)`; a denominator that is tiny against the y-extent
of the two sides is treated as ill-conditioned (NaN) -/
def solveAnother (f : Option Rat) (y1 y2 y3 y4 oy : Rat) : Option Rat :=
  match f with
  | none => none
  | some f =>
    let y21 := y2 - y1
    let y43 := y4 - y3
    let den := y3 + y43 * f - y1 - y21 * f
    if absQ den ≤ tiny6 * maxQ (absQ y21) (absQ y43) then none
    else keep01 (divQ (oy - y1 - y21 * f) den)

/-- a branch result: (t, s) both valid -/
def both (t s : Option Rat) : Option (Rat × Rat) :=
  match t, s with
  | some t, some s => if in01 t && in01 s then some (t, s) else none
  | _, _ => none

def irregularRoot (p1 p2 p3 p4 : Pt) (ox oy : Rat) (r : Option Rat) : Option (Rat × Root) :=
  solveQuadratic (calcABC p1 p2 p3 p4 oy ox) r

/-- `_get_fractional_distances_irregular` followed by `_invalid_s_and_t_to_nan` -/
def irregular (p1 p2 p3 p4 : Pt) (ox oy : Rat) (r : Option Rat) : Option (Rat × Rat) :=
  let t := (irregularRoot p1 p2 p3 p4 ox oy r).map (·.1)
  let s := solveAnother t p1.y p3.y p2.y p4.y oy
  both t s

def uprightsRoot (p1 p2 p3 p4 : Pt) (ox oy : Rat) (r : Option Rat) : Option (Rat × Root) :=
  solveQuadratic (calcABC p1 p3 p2 p4 oy ox) r

/-- `_get_fractional_distances_uprights_parallel` -/
def uprights (p1 p2 p3 p4 : Pt) (ox oy : Rat) (r : Option Rat) : Option (Rat × Rat) :=
  let s := (uprightsRoot p1 p2 p3 p4 ox oy r).map (·.1)
  let t := solveAnother s p1.y p2.y p3.y p4.y oy
  both t s

/-- `_get_fractional_distances_parallellogram` (pt_4 is not used) -/
def parallelogram (p1 p2 p3 : Pt) (ox oy : Rat) : Option (Rat × Rat) :=
  let x21 := p2.x - p1.x
  let x31 := p3.x - p1.x
  let y21 := p2.y - p1.y
  let y31 := p3.y - p1.y
  let t := keep01 (divQ (x21 * (oy - p1.y) - y21 * (ox - p1.x)) (x21 * y31 - y21 * x31))
  let s := match t with
    | some t => keep01 (divQ (ox - p1.x + x31 * t) x21)
    | none => none
  both t s

inductive Branch | irr | upr | par
deriving Repr, DecidableEq

/-- `_get_fractional_distances`: the general case, then the two updates where the result is still NaN.
`r1`, `r2` = square roots of the discriminants of the first and of the second quadratic -/
def fractional (p1 p2 p3 p4 : Pt) (ox oy : Rat) (r1 r2 : Option Rat) : Option (Rat × Rat × Branch) :=
  match irregular p1 p2 p3 p4 ox oy r1 with
  | some (t, s) => some (t, s, .irr)
  | none =>
    match uprights p1 p2 p3 p4 ox oy r2 with
    | some (t, s) => some (t, s, .upr)
    | none =>
      match parallelogram p1 p2 p3 ox oy with
      | some (t, s) => some (t, s, .par)
      | none => none

/-- `BilinearBase._get_fractional_distances`: corners may be missing (NaN coordinates); a NaN in any of the first three
corners poisons all three solution methods, a missing fourth corner is masked explicitly -/
def fractionalOpt (c1 c2 c3 c4 : Option Pt) (ox oy : Rat) (r1 r2 : Option Rat) : Option (Rat × Rat × Branch) :=
  match c1, c2, c3, c4 with
  | some p1, some p2, some p3, some p4 => fractional p1 p2 p3 p4 ox oy r1 r2
  | _, _, _, _ => none

/-- executable certificate of the solution path: the value came from one of the two quadratic branches and the root used
is a root of the quadratic (not the linear fallback with `a ≠ 0`). `certified_exact` proves that certified results are exact. -/
def certified (p1 p2 p3 p4 : Pt) (ox oy : Rat) (r1 r2 : Option Rat) : Bool :=
  match irregular p1 p2 p3 p4 ox oy r1 with
  | some _ =>
    (match irregularRoot p1 p2 p3 p4 ox oy r1 with
     | some (_, rt) => rt != .lin || (calcABC p1 p2 p3 p4 oy ox).1 == 0
     | none => false)
  | none =>
    match uprights p1 p2 p3 p4 ox oy r2 with
    | some _ =>
      (match uprightsRoot p1 p2 p3 p4 ox oy r2 with
       | some (_, rt) => rt != .lin || (calcABC p1 p3 p2 p4 oy ox).1 == 0
       | none => false)
    | none => false

/-- `_resample`: the weighted sum of the four corner values -/
def resample (v1 v2 v3 v4 s t : Rat) : Rat :=
  v1 * (1 - s) * (1 - t) + v2 * s * (1 - t) + v3 * (1 - s) * t + v4 * s * t

/-- the bilinear map of the unit square onto the quadrilateral: what (s, t) mean geometrically -/
def bilinMap (p1 p2 p3 p4 : Pt) (s t : Rat) : Pt :=
  { x := resample p1.x p2.x p3.x p4.x s t, y := resample p1.y p2.y p3.y p4.y s t }

/-! ### executable square root (driver only; the theorems take `r` as a parameter) -/

/-- exact for perfect squares, otherwise the floor of the root at 18 decimal digits -/
def sqrtQ (q : Rat) : Option Rat :=
  if q < 0 then none else
  let n := q.num.toNat
  let d := q.den
  let m := n * d
  let s := Nat.sqrt m
  if s * s = m then some ((s : Rat) / (d : Rat))
  else
    let k := 10 ^ 18
    some ((Nat.sqrt (m * k * k) : Rat) / ((d : Rat) * (k : Rat)))

/-! ### driver -/
open Wire

def showBranch : Branch → String
  | .irr => "irr" | .upr => "upr" | .par => "par"

def pts? (toks : List String) : Option (List Rat) := toks.mapM rat?

def handle : List String → Option String
  | "frac" :: rest => do
    -- frac x1 y1 x2 y2 x3 y3 x4 y4 ox oy  ->  none | <branch> <t> <s> <certified>
    let v ← pts? rest
    match v with
    | [x1, y1, x2, y2, x3, y3, x4, y4, ox, oy] =>
      let p1 : Pt := ⟨x1, y1⟩; let p2 : Pt := ⟨x2, y2⟩; let p3 : Pt := ⟨x3, y3⟩; let p4 : Pt := ⟨x4, y4⟩
      let r1 := sqrtQ (disc (calcABC p1 p2 p3 p4 oy ox))
      let r2 := sqrtQ (disc (calcABC p1 p3 p2 p4 oy ox))
      match fractional p1 p2 p3 p4 ox oy r1 r2 with
      | none => some "none"
      | some (t, s, b) => some s!"{showBranch b} {showRat t} {showRat s} {showBool (certified p1 p2 p3 p4 ox oy r1 r2)}"
    | _ => none
  | "corners" :: k :: ox :: oy :: rest => do
    -- corners k ox oy (x y | nan nan) * k  ->  four positions (or -1)
    let k ← nat? k; let ox ← rat? ox; let oy ← rat? oy
    if rest.length ≠ 2 * k then none else
    let rec mk : Nat → List String → Option (List (Option Pt))
      | 0, _ => some []
      | n + 1, a :: b :: t => do
        let tl ← mk n t
        if a = "nan" || b = "nan" then some (none :: tl)
        else
          let x ← rat? a; let y ← rat? b
          some (some ⟨x, y⟩ :: tl)
      | _, _ => none
    let nb ← mk k rest
    let sh := fun (o : Option Nat) => match o with | some i => toString i | none => "-1"
    some (" ".intercalate ((List.range 4).map (fun q => sh (pickCorner q ox oy nb))))
  | ["resample", v1, v2, v3, v4, s, t] => do
    let v1 ← rat? v1; let v2 ← rat? v2; let v3 ← rat? v3; let v4 ← rat? v4; let s ← rat? s; let t ← rat? t
    some (showRat (resample v1 v2 v3 v4 s t))
  | _ => none

end PyresampleModel.C06
