import PyresampleModel.Model.Core

/-
  C06 — model (stub: not built yet).
-/
namespace PyresampleModel.C06

def handle : List String → Option String
  | _ => none

end PyresampleModel.C06
