/-
  Shared executable definitions used by every property model.
  Import-free (core Lean only) so that the line-protocol driver links as a `lean_exe`.

  * Python / numpy integer conversions over `Rat`: floor, ceil, trunc, round-half-even
  * CPython `slice.indices` for step ∈ {None, 1}
  * wire format helpers for the line protocol (ints, rationals `n/d`, length-prefixed lists)
-/

namespace PyresampleModel

/-! ### numeric conversions -/

/-- `math.floor`, `np.floor(...).astype(int)` -/
def pyFloor (x : Rat) : Int := x.floor

/-- `math.ceil`, `np.ceil(...).astype(int)` -/
def pyCeil (x : Rat) : Int := -((-x).floor)

/-- `int(x)`, `ndarray.astype(int)` of a finite float: truncation toward zero. -/
def pyTrunc (x : Rat) : Int := if 0 ≤ x then x.floor else -((-x).floor)

/-- Python 3 `round(x)` and `np.round` on exact halves: round half to even. -/
def roundHalfEven (x : Rat) : Int :=
  let f := x.floor
  let r := x - (f : Rat)
  if r < 1/2 then f
  else if 1/2 < r then f + 1
  else if f % 2 = 0 then f else f + 1

/-- ceiling division on naturals; `int(np.ceil(float(a)/b))` for `b ≥ 1`. -/
def ceilDiv (a b : Nat) : Nat := (a + b - 1) / b

/-! ### CPython `slice.indices(n)` for unit step -/

/-- A Python slice with step `None` or `1`. -/
structure PySlice where
  start : Option Int
  stop  : Option Int
deriving Repr, DecidableEq

/-- clamp used by `PySlice_AdjustIndices` for positive step. -/
def adjustIndex (i : Int) (n : Nat) : Nat :=
  if i < 0 then
    (if i + n < 0 then 0 else (i + n).toNat)
  else
    (if i ≥ n then n else i.toNat)

/-- `slice(start, stop).indices(n)[:2]` -/
def PySlice.indices (s : PySlice) (n : Nat) : Nat × Nat :=
  let lo := match s.start with | none => 0 | some i => adjustIndex i n
  let hi := match s.stop with | none => n | some i => adjustIndex i n
  (lo, hi)

/-- `len(range(*slice.indices(n)))` -/
def PySlice.len (s : PySlice) (n : Nat) : Nat :=
  let (lo, hi) := s.indices n
  hi - lo

/-- `xs[s]` for a Python list / first axis of an array -/
def PySlice.apply {α} (s : PySlice) (xs : List α) : List α :=
  let (lo, hi) := s.indices xs.length
  (xs.drop lo).take (hi - lo)

/-! ### wire format -/

namespace Wire

def tokens (line : String) : List String :=
  (line.splitOn " ").filter (fun t => t ≠ "")

def int? (s : String) : Option Int := s.toInt?

def nat? (s : String) : Option Nat := s.toNat?

/-- `n/d` (d > 0) or plain integer -/
def rat? (s : String) : Option Rat :=
  match s.splitOn "/" with
  | [n] => (n.toInt?).map (fun (i : Int) => (i : Rat))
  | [n, d] =>
    match n.toInt?, d.toNat? with
    | some i, some k => if k = 0 then none else some (mkRat i k)
    | _, _ => none
  | _ => none

def optInt? (s : String) : Option (Option Int) :=
  if s = "none" then some none else (s.toInt?).map some

def showRat (q : Rat) : String :=
  if q.den = 1 then toString q.num else toString q.num ++ "/" ++ toString q.den

def showOptInt : Option Int → String
  | none => "none"
  | some i => toString i

def showBool (b : Bool) : String := if b then "1" else "0"

def bool? (s : String) : Option Bool :=
  if s = "1" then some true else if s = "0" then some false else none

/-- parse `k t₁ … t_k` from the front of a token list with element parser `p`. -/
def takeList {α} (p : String → Option α) : List String → Option (List α × List String)
  | [] => none
  | n :: rest =>
    match n.toNat? with
    | none => none
    | some k =>
      if rest.length < k then none else
      match (rest.take k).mapM p with
      | none => none
      | some xs => some (xs, rest.drop k)

/-- parse `n` consecutive length-prefixed lists -/
def takeLists {α} (p : String → Option α) : Nat → List String → Option (List (List α) × List String)
  | 0, toks => some ([], toks)
  | n + 1, toks =>
    match takeList p toks with
    | none => none
    | some (xs, toks') =>
      match takeLists p n toks' with
      | none => none
      | some (more, toks'') => some (xs :: more, toks'')

/-- parse `n` consecutive length-prefixed lists that consume the whole token list -/
def allLists {α} (p : String → Option α) (n : Nat) (toks : List String) : Option (List (List α)) :=
  match takeLists p n toks with
  | some (xs, []) => some xs
  | _ => none

def showList {α} (f : α → String) (xs : List α) : String :=
  " ".intercalate (toString xs.length :: xs.map f)

end Wire

end PyresampleModel
