import PyresampleModel.Model.Core

/-
  The regular grid of an `AreaDefinition`, with the derived quantities computed exactly as
  `AreaDefinition.__init__` computes them (over ℚ: every finite float is a rational).

  Shared by C01, C07, C08, C10, C18.
-/

namespace PyresampleModel

structure Grid where
  x0 : Rat        -- area_extent[0]
  y0 : Rat        -- area_extent[1]
  x1 : Rat        -- area_extent[2]
  y1 : Rat        -- area_extent[3]
  w  : Nat        -- width  (columns)
  h  : Nat        -- height (rows)
deriving Repr, DecidableEq

namespace Grid

/-- `pixel_size_x = (area_extent[2] - area_extent[0]) / float(width)` -/
def dx (g : Grid) : Rat := (g.x1 - g.x0) / g.w
/-- `pixel_size_y = (area_extent[3] - area_extent[1]) / float(height)` -/
def dy (g : Grid) : Rat := (g.y1 - g.y0) / g.h
/-- `pixel_upper_left[0]` -/
def uplx (g : Grid) : Rat := g.x0 + g.dx / 2
/-- `pixel_upper_left[1]` -/
def uply (g : Grid) : Rat := g.y1 - g.dy / 2
/-- `pixel_offset_x = -area_extent[0] / pixel_size_x` -/
def offx (g : Grid) : Rat := -g.x0 / g.dx
/-- `pixel_offset_y = area_extent[3] / pixel_size_y` -/
def offy (g : Grid) : Rat := g.y1 / g.dy

/-- `get_projection_coordinates_from_array_coordinates`, `_generate_1d_proj_vectors`:
`cols * xscale + upl_x` -/
def projX (g : Grid) (c : Rat) : Rat := c * g.dx + g.uplx
/-- `rows * yscale + upl_y` with `yscale = -pixel_size_y` -/
def projY (g : Grid) (r : Rat) : Rat := r * (-g.dy) + g.uply

/-- `get_array_coordinates_from_projection_coordinates`: `(xm - upl_x) / xscale` -/
def arrX (g : Grid) (x : Rat) : Rat := (x - g.uplx) / g.dx
/-- `(ym - upl_y) / yscale` -/
def arrY (g : Grid) (y : Rat) : Rat := (y - g.uply) / (-g.dy)

/-- reference semantics: the cell (row, col) whose extent contains the point — column `c` spans
`[x0 + c·dx, x0 + (c+1)·dx)`, row `r` spans `(y1 - (r+1)·dy, y1 - r·dy]` — or none. -/
def cellOf (g : Grid) (x y : Rat) : Option (Nat × Nat) :=
  let c := pyFloor ((x - g.x0) / g.dx)
  let r := pyFloor ((g.y1 - y) / g.dy)
  if 0 ≤ c ∧ c < g.w ∧ 0 ≤ r ∧ r < g.h then some (r.toNat, c.toNat) else none

/-- `np.clip(v, 0, n - 1)` -/
def clip (v : Rat) (n : Nat) : Rat :=
  let hi : Rat := (n : Rat) - 1
  if v < 0 then 0 else if v > hi then hi else v

/-- `masked_ints` on one axis: (mask, index). `ε = 0.02` -/
def maskedInt (v : Rat) (n : Nat) : Bool × Int :=
  let eps : Rat := 2 / 100
  let mask := decide (v < -(1/2) - eps) || decide (v > (n : Rat) - 1/2 + eps)
  (mask, roundHalfEven (clip v n))

end Grid

namespace Wire

def grid? : List String → Option (Grid × List String)
  | x0 :: y0 :: x1 :: y1 :: w :: h :: rest => do
    let x0 ← rat? x0; let y0 ← rat? y0; let x1 ← rat? x1; let y1 ← rat? y1
    let w ← nat? w; let h ← nat? h
    some ({ x0 := x0, y0 := y0, x1 := x1, y1 := y1, w := w, h := h }, rest)
  | _ => none

end Wire

end PyresampleModel
