import PyresampleModel.Model.Core

/-
  C20 — model (stub: not built yet).
-/
namespace PyresampleModel.C20

def handle : List String → Option String
  | _ => none

end PyresampleModel.C20
