import PyresampleModel.Model.Grid

/-
  C20 — conversions: CF axis → extent (`utils/cf.py`), rasterio transform/bounds → extent,
  odc-geo GeoBox and cartopy argument wiring.
-/
namespace PyresampleModel.C20

open Grid

def absQ (q : Rat) : Rat := if 0 ≤ q then q else -q

/-- `_load_cf_axis_info` on a stored coordinate vector: (first, last, nb, spacing, sign); `none` for a
vector of length < 2 (division by zero in the code) or zero spacing -/
structure Axis where
  first   : Rat
  last    : Rat
  nb      : Nat
  spacing : Rat
  sign    : Rat
deriving Repr, DecidableEq

def axisInfo (v : List Rat) : Option Axis :=
  match v.head?, v.getLast? with
  | some f, some l =>
    if v.length < 2 then none else
    let delta := (l - f) / ((v.length : Rat) - 1)
    if delta = 0 then none else
    some { first := f, last := l, nb := v.length, spacing := absQ delta, sign := delta / absQ delta }
  | _, _ => none

/-- unit scaling applied by `create_area_def(units=…)` (e.g. km → m: factor 1000) and the geostationary
radians → metres scaling by the satellite height: all axis quantities are multiplied -/
def scaleAxis (k : Rat) (a : Axis) : Axis :=
  { a with first := k * a.first, last := k * a.last, spacing := k * a.spacing }

/-- `_get_area_extent_from_cf_axis` -/
def cfExtent (x y : Axis) : Rat × Rat × Rat × Rat :=
  (x.first - x.sign * (1/2) * x.spacing,
   y.last + y.sign * (1/2) * y.spacing,
   x.last + x.sign * (1/2) * x.spacing,
   y.first - y.sign * (1/2) * y.spacing)

/-- the coordinate vectors an area exports: pixel-centre x of every column, y of every row (row 0 first) -/
def xvec (g : Grid) : List Rat := (List.range g.w).map (fun (c : Nat) => g.projX (c : Rat))
def yvec (g : Grid) : List Rat := (List.range g.h).map (fun (r : Nat) => g.projY (r : Rat))

/-- `load_cf_area` on the CF export of `g` (same units): the loaded grid -/
def cfRoundTrip (xv yv : List Rat) : Option Grid :=
  match axisInfo xv, axisInfo yv with
  | some x, some y =>
    let e := cfExtent x y
    some { x0 := e.1, y0 := e.2.1, x1 := e.2.2.1, y1 := e.2.2.2, w := x.nb, h := y.nb }
  | _, _ => none

/-- the affine transform written for an area: (a, b, c, d, e, f) = (dx, 0, x0, 0, -dy, y1) -/
def affineOf (g : Grid) : Rat × Rat × Rat × Rat × Rat × Rat := (g.dx, 0, g.x0, 0, -g.dy, g.y1)

/-- rasterio's `dataset.bounds` from a transform and a shape: (left, bottom, right, top) -/
def rasterBounds (t : Rat × Rat × Rat × Rat × Rat × Rat) (w h : Nat) : Rat × Rat × Rat × Rat :=
  let (a, _, c, _, e, f) := t
  (c, f + e * h, c + a * w, f)

/-- `_get_area_def_from_rasterio`: extent = bounds -/
def rasterRoundTrip (g : Grid) : Grid :=
  let b := rasterBounds (affineOf g) g.w g.h
  { x0 := b.1, y0 := b.2.1, x1 := b.2.2.1, y1 := b.2.2.2, w := g.w, h := g.h }

/-- `to_cartopy_crs`: bounds = (x0, x1, y0, y1) -/
def cartopyBounds (g : Grid) : Rat × Rat × Rat × Rat := (g.x0, g.x1, g.y0, g.y1)

/-- `to_odc_geobox`: `GeoBox.from_bbox(bbox=extent, resolution=(dx, -dy), tight=True)` — the affine
maps array corner (0, 0) to (left, top) and (w, h) to (right, bottom) -/
def odcAffine (g : Grid) : Rat × Rat × Rat × Rat × Rat × Rat := (g.dx, 0, g.x0, 0, -g.dy, g.y1)

/-! ### driver -/
open Wire

def handle : List String → Option String
  | "cf" :: k :: rest => do
    -- cf <unit-scale> <n> xvec… <m> yvec…   → loaded grid (extent scaled back by k)
    let k ← rat? k
    let (xv, tl) ← takeList rat? rest
    let (yv, tl) ← takeList rat? tl
    if tl ≠ [] then none else
    match axisInfo xv, axisInfo yv with
    | some x, some y =>
      let e := cfExtent (scaleAxis k x) (scaleAxis k y)
      some s!"{showRat e.1} {showRat e.2.1} {showRat e.2.2.1} {showRat e.2.2.2} {x.nb} {y.nb}"
    | _, _ => some "err:axis"
  | "raster" :: rest => do
    let (g, tl) ← grid? rest
    if tl ≠ [] then none else
    let r := rasterRoundTrip g
    some s!"{showRat r.x0} {showRat r.y0} {showRat r.x1} {showRat r.y1} {r.w} {r.h}"
  | _ => none

end PyresampleModel.C20
