import PyresampleModel.Model.Grid

/-
  C07 — `bucket.BucketResampler`: raveled cell index, histograms, sort-based min / max, average,
  fractions.  Data values are `Option Rat` (`none` = NaN).
-/

namespace PyresampleModel.C07

open Grid

/-- `_get_indices`: (y_idx, x_idx) with out-of-area → (-1, -1), then `idxs = y_idxs * width + x_idxs` -/
def ravelIdx (g : Grid) (x y : Rat) : Int :=
  let c := pyFloor ((x - g.x0) / g.dx)
  let r := pyFloor ((g.y1 - y) / g.dy)
  if 0 ≤ c ∧ c < g.w ∧ 0 ≤ r ∧ r < g.h then r * g.w + c else (-1) * g.w + (-1)

/-- `da.histogram(idxs, bins=size, range=(0, size))` of one chunk: count per bin -/
def histCount (idxs : List Int) (size : Nat) : List Nat :=
  (List.range size).map (fun (b : Nat) => (idxs.filter (fun i => i == (b : Int))).length)

/-- weighted histogram of one chunk -/
def histSum (idxs : List Int) (weights : List Rat) (size : Nat) : List Rat :=
  (List.range size).map (fun (b : Nat) =>
    ((idxs.zip weights).filter (fun p => p.1 == (b : Int))).foldl (fun acc p => acc + p.2) 0)

def addLists {α} [Add α] (a b : List α) : List α := List.zipWith (· + ·) a b

/-- dask's histogram: per-chunk histograms summed -/
def histCountChunked (chunks : List (List Int)) (size : Nat) : List Nat :=
  chunks.foldl (fun acc ch => addLists acc (histCount ch size)) (List.replicate size 0)

def histSumChunked (chunks : List (List Int × List Rat)) (size : Nat) : List Rat :=
  chunks.foldl (fun acc ch => addLists acc (histSum ch.1 ch.2 size)) (List.replicate size 0)

/-- `_get_invalid_mask`: NaN fill → isnan, else `data == fill` -/
def invalid (fill : Option Rat) (v : Option Rat) : Bool :=
  match fill with
  | none => v.isNone
  | some f => v == some f

/-- `get_sum`: result per bin; `none` = NaN -/
def getSum (idxs : List Int) (data : List (Option Rat)) (size : Nat) (fill : Option Rat)
    (skipna : Bool) (empty : Option Rat) : List (Option Rat) :=
  let inv := data.map (invalid fill)
  -- `weights = where(invalid, 0, data)`; a NaN that is *not* the fill value stays NaN and poisons its bin
  let w : List Rat := (data.zip inv).map (fun p => if p.2 then 0 else p.1.getD 0)
  let poison : List Bool := (data.zip inv).map (fun p => !p.2 && p.1.isNone)
  let sums := histSum idxs w size
  let nanBins := histCount ((idxs.zip poison).filterMap (fun p => if p.2 then some p.1 else none)) size
  let s0 : List (Option Rat) := (sums.zip nanBins).map (fun p => if p.2 > 0 then none else some p.1)
  let s1 :=
    if skipna then s0 else
      let miss := histCount ((idxs.zip inv).filterMap (fun p => if p.2 then some p.1 else none)) size
      (s0.zip miss).map (fun p => if p.2 > 0 then fill else p.1)
  match empty with
  | some e => if e = 0 then s1 else s1.map (fun v => if v == some 0 then some e else v)
  | none => s1.map (fun v => if v == some 0 then none else v)

/-- order used by `np.argsort` on floats: NaN last -/
def leNan : Option Rat → Option Rat → Bool
  | some a, some b => decide (a ≤ b)
  | some _, none => true
  | none, some _ => false
  | none, none => true

/-- `_get_statistics`: sort by weight (reverse for max), first element of each bin, NaN for empty bins -/
def binStat (isMax : Bool) (idxs : List Int) (data : List (Option Rat)) (size : Nat) : List (Option Rat) :=
  let sorted := (idxs.zip data).mergeSort (fun p q => leNan p.2 q.2)
  let order := if isMax then sorted.reverse else sorted
  (List.range size).map (fun (b : Nat) =>
    match order.find? (fun p => p.1 == (b : Int)) with
    | some p => p.2
    | none => none)

/-- `_get_abs_max_from_min_max`: `where(-min > max, min, max)`; comparisons with NaN are false -/
def absMax (mn mx : Option Rat) : Option Rat :=
  match mn, mx with
  | some a, some b => if -a > b then some a else some b
  | _, _ => mx

/-- `get_average` -/
def getAverage (idxs : List Int) (data : List (Option Rat)) (size : Nat) (fill : Option Rat)
    (skipna : Bool) : List (Option Rat) :=
  let data' := match fill with
    | none => data
    | some f => data.map (fun v => if v == some f then none else v)
  let sums := getSum idxs data' size none skipna (some 0)
  let cnt := histSum idxs (data'.map (fun v => if v.isSome then 1 else 0)) size
  (sums.zip cnt).map (fun p =>
    match p.1 with
    | none => fill
    | some s => if p.2 = 0 then fill else some (s / p.2))

/-- `get_fractions` for one category: `sum(data == cat) / count`, fill where count = 0 -/
def getFraction (idxs : List Int) (data : List (Option Rat)) (size : Nat) (cat : Rat) : List (Option Rat) :=
  let sums := histSum idxs (data.map (fun v => if v == some cat then 1 else 0)) size
  let cnt := histCount idxs size
  (sums.zip cnt).map (fun p => if p.2 = 0 then none else some (p.1 / p.2))

/-! ### driver -/
open Wire

def optRat? (s : String) : Option (Option Rat) :=
  if s = "nan" then some none else (rat? s).map some

def showOptRat : Option Rat → String
  | none => "nan"
  | some q => showRat q

def handle : List String → Option String
  | "ravel" :: rest => do
    -- ravel <grid> <n> x₁ … x_n <n> y₁ … y_n
    let (g, tl) ← grid? rest
    let (xs, tl) ← takeList rat? tl
    let (ys, tl) ← takeList rat? tl
    if tl ≠ [] ∨ xs.length ≠ ys.length then none else
    if g.w = 0 ∨ g.h = 0 ∨ g.dx = 0 ∨ g.dy = 0 then some "err:degenerate" else
    some (showList toString ((xs.zip ys).map (fun p => ravelIdx g p.1 p.2)))
  | "count" :: size :: rest => do
    let size ← nat? size
    let n ← nat? (← rest.head?)
    let chunks ← allLists int? n rest.tail
    some (showList toString (histCountChunked chunks size))
  | "sum" :: size :: fill :: skipna :: empty :: rest => do
    -- sum <size> <fill> <skipna> <empty> <n> idx… <n> data…
    let size ← nat? size; let fill ← optRat? fill; let sk ← bool? skipna; let em ← optRat? empty
    let (idxs, tl) ← takeList int? rest
    let (data, tl) ← takeList optRat? tl
    if tl ≠ [] ∨ idxs.length ≠ data.length then none else
    some (showList showOptRat (getSum idxs data size fill sk em))
  | "stat" :: which :: size :: rest => do
    -- stat min|max|absmax <size> <n> idx… <n> data…
    let size ← nat? size
    let (idxs, tl) ← takeList int? rest
    let (data, tl) ← takeList optRat? tl
    if tl ≠ [] ∨ idxs.length ≠ data.length then none else
    match which with
    | "min" => some (showList showOptRat (binStat false idxs data size))
    | "max" => some (showList showOptRat (binStat true idxs data size))
    | "absmax" =>
      some (showList showOptRat (((binStat false idxs data size).zip (binStat true idxs data size)).map
        (fun p => absMax p.1 p.2)))
    | _ => none
  | "avg" :: size :: fill :: skipna :: rest => do
    let size ← nat? size; let fill ← optRat? fill; let sk ← bool? skipna
    let (idxs, tl) ← takeList int? rest
    let (data, tl) ← takeList optRat? tl
    if tl ≠ [] ∨ idxs.length ≠ data.length then none else
    some (showList showOptRat (getAverage idxs data size fill sk))
  | "frac" :: size :: cat :: rest => do
    let size ← nat? size; let cat ← rat? cat
    let (idxs, tl) ← takeList int? rest
    let (data, tl) ← takeList optRat? tl
    if tl ≠ [] ∨ idxs.length ≠ data.length then none else
    some (showList showOptRat (getFraction idxs data size cat))
  | _ => none

end PyresampleModel.C07
