import PyresampleModel.Model.Core

/-
  C07 — model (stub: not built yet).
-/
namespace PyresampleModel.C07

def handle : List String → Option String
  | _ => none

end PyresampleModel.C07
