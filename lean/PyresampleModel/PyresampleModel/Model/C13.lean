import PyresampleModel.Model.Core

/-
  C13 — model (stub: not built yet).
-/
namespace PyresampleModel.C13

def handle : List String → Option String
  | _ => none

end PyresampleModel.C13
