import PyresampleModel.Model.Grid

/-
  C13 — `area_config._extrapolate_information`, `_validate_variable`, `_round_shape`
  (all quantities in projection units; unit conversion through PROJ is not modelled).
-/
namespace PyresampleModel.C13

abbrev P2 := Rat × Rat
abbrev P4 := Rat × Rat × Rat × Rat

def absQ (q : Rat) : Rat := if 0 ≤ q then q else -q

/-- `np.allclose(a, b)` for one element: `|a - b| <= 1e-8 + 1e-5 * |b|` -/
def close1 (a b : Rat) : Bool := decide (absQ (a - b) ≤ 1 / 100000000 + 1 / 100000 * absQ b)

def close2 (a b : P2) : Bool := close1 a.1 b.1 && close1 a.2 b.2
def close4 (a b : P4) : Bool := close1 a.1 b.1 && close1 a.2.1 b.2.1 && close1 a.2.2.1 b.2.2.1 && close1 a.2.2.2 b.2.2.2

/-- `_validate_variable`: `none` = ValueError('CONFLICTING DATA'); otherwise the newly found value wins -/
def validate2 (given : Option P2) (found : P2) : Option P2 :=
  match given with
  | none => some found
  | some g => if close2 g found then some found else none

def validate4 (given : Option P4) (found : P4) : Option P4 :=
  match given with
  | none => some found
  | some g => if close4 g found then some found else none

/-- the double nearest to `1e-8` and the double nearest to `.01`, exactly (the literals of `_round_shape`; the tie
theorem `Tie.tie_round_shape` against the translated source fixed these: `1/10^8` and `1/100` are not doubles) -/
def eps8 : Rat := mkRat 3022314549036573 302231454903657293676544
def c01 : Rat := mkRat 5764607523034235 576460752303423488

/-- `_round_shape` on one number: keep if within 1e-8 of an integer, else round up when the
fractional part is >= .01, then `int(round(.))` -/
def roundDim (x : Rat) : Int :=
  let x' := if absQ (x - (roundHalfEven x : Rat)) > eps8 then
      (if x - (pyFloor x : Rat) ≥ c01 then (pyCeil x : Rat) else x) else x
  roundHalfEven x'

structure Desc where
  extent     : Option P4 := none   -- (x0, y0, x1, y1)
  shape      : Option P2 := none   -- (height, width)
  center     : Option P2 := none
  radius     : Option P2 := none
  resolution : Option P2 := none
  ule        : Option P2 := none   -- upper_left_extent (x, y)
deriving Repr

structure Found where
  extent : Option P4
  shape  : Option P2
deriving Repr, DecidableEq

/-- `_extrapolate_information`; outer `none` = a conflict was detected (ValueError) -/
def extrapolate (d : Desc) : Option Found := do
  -- stage 1: centre / radius / upper-left extent
  let (center, radius) ←
    match d.extent with
    | some e =>
      let c ← validate2 d.center ((e.2.2.1 + e.1) / 2, (e.2.2.2 + e.2.1) / 2)
      let r ← validate2 d.radius ((e.2.2.1 - e.1) / 2, (e.2.2.2 - e.2.1) / 2)
      let _ ← validate2 d.ule (e.1, e.2.2.2)
      pure (some c, some r)
    | none =>
      match d.ule, d.center with
      | some u, some c =>
        let r ← validate2 d.radius (c.1 - u.1, u.2 - c.2)
        pure (some c, some r)
      | _, _ => pure (d.center, d.radius)
  -- stage 2: shape / radius from resolution
  let (shape, radius) ←
    match radius, d.resolution with
    | some r, some res =>
      let s ← validate2 d.shape ((roundDim (2 * r.2 / res.2) : Rat), (roundDim (2 * r.1 / res.1) : Rat))
      pure (some s, some r)
    | _, _ =>
      match d.resolution, d.shape with
      | some res, some s =>
        let r ← validate2 radius (res.1 * s.2 / 2, res.2 * s.1 / 2)
        pure (some s, some r)
      | _, _ => pure (d.shape, radius)
  -- stage 3: the extent
  let extent ←
    match center, radius with
    | some c, some r => (validate4 d.extent (c.1 - r.1, c.2 - r.2, c.1 + r.1, c.2 + r.2)).map some
    | _, _ =>
      match d.ule, radius with
      | some u, some r => (validate4 d.extent (u.1, u.2 - 2 * r.2, u.1 + 2 * r.1, u.2)).map some
      | _, _ => pure d.extent
  pure { extent := extent, shape := shape }

/-- `create_area_def` after unit handling: nothing to extrapolate when extent and shape are both given -/
def createArea (d : Desc) : Option Found :=
  match d.extent, d.shape with
  | some e, some s => some { extent := some e, shape := some s }
  | _, _ => extrapolate d

/-! ### driver -/
open Wire

def p2? : List String → Option (Option P2 × List String)
  | "none" :: rest => some (none, rest)
  | a :: b :: rest => do
    let a ← rat? a; let b ← rat? b
    some (some (a, b), rest)
  | _ => none

def p4? : List String → Option (Option P4 × List String)
  | "none" :: rest => some (none, rest)
  | a :: b :: c :: d :: rest => do
    let a ← rat? a; let b ← rat? b; let c ← rat? c; let d ← rat? d
    some (some (a, b, c, d), rest)
  | _ => none

def showO2 : Option P2 → String
  | none => "none"
  | some p => showRat p.1 ++ " " ++ showRat p.2

def showO4 : Option P4 → String
  | none => "none"
  | some p => showRat p.1 ++ " " ++ showRat p.2.1 ++ " " ++ showRat p.2.2.1 ++ " " ++ showRat p.2.2.2

def handle : List String → Option String
  | "create" :: rest => do
    -- create <extent|none> <shape|none> <center|none> <radius|none> <resolution|none> <ule|none>
    let (e, t) ← p4? rest
    let (s, t) ← p2? t
    let (c, t) ← p2? t
    let (r, t) ← p2? t
    let (res, t) ← p2? t
    let (u, t) ← p2? t
    if t ≠ [] then none else
    if (match res with | some q => decide (q.1 = 0 ∨ q.2 = 0) | none => false) then some "err:zerodiv" else
    match createArea { extent := e, shape := s, center := c, radius := r, resolution := res, ule := u } with
    | none => some "err:conflict"
    | some f => some ("extent " ++ showO4 f.extent ++ " shape " ++ showO2 f.shape)
  | ["rounddim", x] => do
    let x ← rat? x
    some (toString (roundDim x))
  | _ => none

end PyresampleModel.C13
