import PyresampleModel.Model.C02

/-
  C05 — the dask/xarray nearest-neighbour path: `query_no_distance` (re-expansion of the per-valid-target
  query result to the full target block with -1 for "nothing") and `_my_index` (gather through the
  compacted valid sources, fill where the index is -1).
-/
namespace PyresampleModel.C05

/-- `query_no_distance` after the kd-tree call, for one target block: `good = index < kdtree.n`,
`res[voi & good] = index`, `-1` elsewhere -/
def expandIdx (n : Nat) (voi : List Bool) (q : List Nat) : List Int :=
  scatter (-1 : Int) voi (q.map (fun i => if i < n then (i : Int) else -1))

/-- dask `blockwise` over target blocks: each block is expanded on its own and the results are concatenated -/
def expandBlocks (n : Nat) (blocks : List (List Bool × List Nat)) : List Int :=
  blocks.flatMap (fun b => expandIdx n b.1 b.2)

/-- `_my_index` for one non-geographic slice: `data[vii][ia]`, fill where `ia == -1` -/
def myIndex {α} (ia : List Int) (vii : List Bool) (data : List α) (fill : α) : List α :=
  let newData := compact data vii
  ia.map (fun i => if i = -1 then fill else newData.getD i.toNat fill)

/-- data with extra leading dims: `_my_index` is applied to every non-geographic slice separately -/
def myIndexND {α} (ia : List Int) (vii : List Bool) (slices : List (List α)) (fill : α) : List (List α) :=
  slices.map (fun d => myIndex ia vii d fill)

/-! ### driver -/
open Wire

def handle : List String → Option String
  | "xr" :: fill :: n :: rest => do
    -- xr <fill> <n_tree> <n> vii… <n> data… <nblocks> (<m> voi… <k> q…)*
    let fill ← int? fill; let n ← nat? n
    let (vii, tl) ← takeList bool? rest
    let (data, tl) ← takeList int? tl
    let nb ← nat? (← tl.head?)
    let rec blocks : Nat → List String → Option (List (List Bool × List Nat))
      | 0, [] => some []
      | 0, _ => none
      | k + 1, toks => do
        let (voi, t1) ← takeList bool? toks
        let (q, t2) ← takeList nat? t1
        let more ← blocks k t2
        some ((voi, q) :: more)
    let bs ← blocks nb tl.tail
    if vii.length ≠ data.length then none else
    if bs.any (fun b => b.2.length ≠ b.1.count true) then some "err:shape" else
    some (showList toString (myIndex (expandBlocks n bs) vii data fill))
  | _ => none

end PyresampleModel.C05
