import PyresampleModel.Model.Core

/-
  C05 — model (stub: not built yet).
-/
namespace PyresampleModel.C05

def handle : List String → Option String
  | _ => none

end PyresampleModel.C05
