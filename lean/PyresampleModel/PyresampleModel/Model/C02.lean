import PyresampleModel.Model.Core

/-
  C02 — model (stub: not built yet).
-/
namespace PyresampleModel.C02

def handle : List String → Option String
  | _ => none

end PyresampleModel.C02
