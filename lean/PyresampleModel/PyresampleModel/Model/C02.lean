import PyresampleModel.Model.Compact

/-
  C02 — nearest-neighbour resampling: validity filters, compaction of the valid sources, the
  `index == n_valid ⇒ fill` rule, scatter into the full target.  The kd-tree query result is data.
-/
namespace PyresampleModel.C02

/-- `(lon >= -180) & (lon <= 180) & (lat <= 90) & (lat >= -90)`; `none` = NaN / ±inf (all comparisons False) -/
def validCoord (lon lat : Option Rat) : Bool :=
  match lon, lat with
  | some lo, some la => decide (-180 ≤ lo) && decide (lo ≤ 180) && decide (la ≤ 90) && decide (-90 ≤ la)
  | _, _ => false

/-- `_extract_resample_result`, `resample_type == 'nn'`: `index == valid_input_size` ⇒ fill, else gather
from the compacted data -/
def gatherNN {α} (newData : List α) (nValid : Nat) (fill : α) (idx : List Nat) : List α :=
  idx.map (fun i => if i = nValid then fill else newData.getD i fill)

/-- `get_sample_from_neighbour_info('nn', …)` for one data column -/
def pipelineNN {α} (srcValid : List Bool) (data : List α) (tgtValid : List Bool) (q : List Nat) (fill : α) : List α :=
  scatter fill tgtValid (gatherNN (compact data srcValid) (srcValid.count true) fill q)

/-- brute-force reference: index of a nearest valid source within `r2` (first minimum), if any -/
def nearestValid (srcValid : List Bool) (d2 : Nat → Rat) (r2 : Rat) : Option Nat :=
  (List.range srcValid.length).foldl (fun best s =>
    if srcValid.getD s false && decide (d2 s ≤ r2) then
      match best with
      | none => some s
      | some b => if d2 s < d2 b then some s else some b
    else best) none

/-! ### driver -/
open Wire

def optRat? (s : String) : Option (Option Rat) :=
  if s = "nan" then some none else (rat? s).map some

def handle : List String → Option String
  | "valid" :: rest => do
    -- valid <n> lon… <n> lat…
    let (lons, tl) ← takeList optRat? rest
    let (lats, tl) ← takeList optRat? tl
    if tl ≠ [] ∨ lons.length ≠ lats.length then none else
    some (showList showBool ((lons.zip lats).map (fun p => validCoord p.1 p.2)))
  | "nn" :: fill :: rest => do
    -- nn <fill> <n> srcValid… <n> data(int)… <m> tgtValid… <k> query-index…
    let fill ← int? fill
    let (sv, tl) ← takeList bool? rest
    let (data, tl) ← takeList int? tl
    let (tv, tl) ← takeList bool? tl
    let (q, tl) ← takeList nat? tl
    if tl ≠ [] ∨ sv.length ≠ data.length then none else
    if q.length ≠ tv.count true then some "err:shape" else
    some (showList toString (pipelineNN sv data tv q fill))
  | _ => none

end PyresampleModel.C02
