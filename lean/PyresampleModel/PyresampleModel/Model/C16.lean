import PyresampleModel.Model.Core

/-
  C16 — the combinatorics of a geometry's boundary: the four index sides of `_get_bbox_slices`,
  ring / contour assembly (`AreaBoundary.contour` drops each side's last vertex), reversal.
  The per-side index selections (numpy's `linspace(..., dtype=int)`) enter as data.
  Pixels are (row, col).
-/
namespace PyresampleModel.C16

abbrev Px := Nat × Nat

/-- `_get_bbox_slices` + `_get_sides`: top (row 0), right (last column), bottom (last row, reversed
columns), left (first column, reversed rows); `selB` and `selL` are given as the code produces them
(descending) -/
def sides (H W : Nat) (selT selR selB selL : List Nat) : List (List Px) :=
  [selT.map (fun c => (0, c)), selR.map (fun r => (r, W - 1)),
   selB.map (fun c => (H - 1, c)), selL.map (fun r => (r, 0))]

/-- `AreaBoundary.contour`: every side without its last vertex, concatenated -/
def contour (ss : List (List Px)) : List Px := ss.flatMap (fun s => s.dropLast)

/-- `_reverse_boundaries`: reverse the list of sides and each side -/
def reverseSides (ss : List (List Px)) : List (List Px) := (ss.map List.reverse).reverse

/-- strictly increasing selection from 0 to n-1 -/
def goodAsc (n : Nat) (sel : List Nat) : Bool :=
  sel.head? == some 0 && sel.getLast? == some (n - 1) && (sel.zip sel.tail).all (fun p => p.1 < p.2)

/-- the exact-arithmetic selection `floor(i (n-1) / (k-1))`, i = 0..k-1 (what `np.linspace(0, n-1, k, dtype=int)`
computes up to float rounding) -/
def linSel (n k : Nat) : List Nat :=
  if k ≤ 1 then [0] else (List.range k).map (fun i => i * (n - 1) / (k - 1))

/-- `AreaDefinition._get_geostationary_boundary_sides`: the vertices of (extent ∩ Earth-disk polygon), however many the
intersection returned, are split into four sides: `x[0 : s+1]`, `x[s : s+2]`, `x[s+1 :]`, `[x[-1], x[0]]` with `s = len(x) // 2 - 1` -/
def geosSides {α} (x : List α) : List (List α) :=
  let s := x.length / 2 - 1
  [x.take (s + 1), (x.drop s).take 2, x.drop (s + 1), (x.getLast?.toList ++ x.head?.toList)]

/-- `AreaBoundary.contour` for any vertex type -/
def contourOf {α} (ss : List (List α)) : List α := ss.flatMap (fun s => s.dropLast)

/-! ### driver -/
open Wire

def showPx (p : Px) : String := s!"{p.1},{p.2}"

def handle : List String → Option String
  | "ring" :: h :: w :: rest => do
    -- ring <H> <W> <k> selT… <k> selR… <k> selB… <k> selL…  → goodness flags | contour | contour of the reversed sides
    let h ← nat? h; let w ← nat? w
    let (t, tl) ← takeList nat? rest
    let (r, tl) ← takeList nat? tl
    let (b, tl) ← takeList nat? tl
    let (l, tl) ← takeList nat? tl
    if tl ≠ [] then none else
    let ss := sides h w t r b l
    let good := [goodAsc w t, goodAsc h r, goodAsc w b.reverse, goodAsc h l.reverse]
    let c := contour ss
    let cr := contour (reverseSides ss)
    some (" ".intercalate (good.map showBool) ++ " | " ++ " ".intercalate (c.map showPx) ++ " | " ++ " ".intercalate (cr.map showPx))
  | ["geos", n] => do
    -- geos <n> → the four sides (as indices into the n vertices of the extent ∩ disk polygon) | the contour
    let n ← nat? n
    let ss := geosSides (List.range n)
    some (" ; ".intercalate (ss.map (fun s => " ".intercalate (s.map toString))) ++ " | " ++ " ".intercalate ((contourOf ss).map toString))
  | ["linsel", n, k] => do
    let n ← nat? n; let k ← nat? k
    some (showList toString (linSel n k))
  | _ => none

end PyresampleModel.C16
