import PyresampleModel.Model.Core

/-
  C16 — model (stub: not built yet).
-/
namespace PyresampleModel.C16

def handle : List String → Option String
  | _ => none

end PyresampleModel.C16
