import PyresampleModel.Model.Core

/-
  C15 — model (stub: not built yet).
-/
namespace PyresampleModel.C15

def handle : List String → Option String
  | _ => none

end PyresampleModel.C15
