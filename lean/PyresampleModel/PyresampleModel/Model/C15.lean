import PyresampleModel.Model.Core

/-
  C15 — `_multi_proc.Scheduler`: small-step semantics of `__iter__` run by several workers.

  Every model step is exactly one observable event of the real code:
  `acquire`, read `_ndata`, read `_start`, write `_ndata`, write `_start`, `release`,
  `yield slice(s0, s1)`, `return`.  A schedule is an arbitrary list of worker ids; a worker that
  is chosen while it waits for the lock (or has returned) does not move.
-/

namespace PyresampleModel.C15

inductive Kind where
  | guided | dynamic | static
deriving Repr, DecidableEq

structure Cfg where
  kind   : Kind
  chunk  : Nat      -- `self._chunk`
  nprocs : Nat      -- `self._nprocs`
deriving Repr

/-- `Scheduler.__init__`: the value stored in `self._chunk`.  `chunkArg = 0` encodes a falsy
`chunk` argument (`None` or `0`). -/
def initChunk (kind : Kind) (ndata nprocs : Nat) (chunkArg : Int) : Nat :=
  match kind with
  | .static =>
    let m : Int := (ndata / nprocs : Nat)
    let m := if chunkArg ≠ 0 then max chunkArg m else m
    (max m 1).toNat
  | _ =>
    let m : Int := (ndata / (10 * nprocs) : Nat)
    let m := if chunkArg ≠ 0 then chunkArg else m
    (max m 1).toNat

/-- the chunk used by one pass of the `while True` body, given the `_ndata` value it read -/
def chunkOf (c : Cfg) (nd : Nat) : Nat :=
  match c.kind with
  | .guided => max c.chunk (nd / c.nprocs)
  | _ => c.chunk

/-- program counter of one worker inside `__iter__` -/
inductive Pc where
  | idle                      -- about to `acquire`
  | locked                    -- holds the lock, about to read `_ndata`
  | readN (nd : Nat)          -- about to read `_start`
  | readS (nd st : Nat)       -- about to write `_ndata` (or to release, if nd = 0)
  | wroteN (s0 s1 : Nat)      -- about to write `_start := s1`
  | relY (s0 s1 : Nat)        -- about to release, will yield `slice(s0, s1)`
  | yielding (s0 s1 : Nat)    -- released, about to yield
  | retg                      -- released, about to return
  | done
deriving Repr, DecidableEq

inductive Ev where
  | acq | rdN (v : Nat) | rdS (v : Nat) | wrN (v : Nat) | wrS (v : Nat) | rel
  | yld (s0 s1 : Nat) | ret
deriving Repr, DecidableEq

structure St where
  ndata   : Nat
  start   : Nat
  lock    : Option Nat
  pcs     : List Pc
  yielded : List (Nat × Nat × Nat)   -- (worker, s0, s1) in yield order
  log     : List (Nat × Nat)         -- ghost: slices in the order they were decided
deriving Repr

def init (n workers : Nat) : St :=
  { ndata := n, start := 0, lock := none, pcs := List.replicate workers .idle, yielded := [], log := [] }

/-- one event of worker `w`; `none` = `w` cannot move (waits for the lock / has returned / no such worker) -/
def step (c : Cfg) (s : St) (w : Nat) : Option (St × Ev) :=
  match s.pcs[w]? with
  | none => none
  | some .idle =>
    if s.lock = none then some ({ s with lock := some w, pcs := s.pcs.set w .locked }, .acq) else none
  | some .locked => some ({ s with pcs := s.pcs.set w (.readN s.ndata) }, .rdN s.ndata)
  | some (.readN nd) => some ({ s with pcs := s.pcs.set w (.readS nd s.start) }, .rdS s.start)
  | some (.readS nd st) =>
    if nd ≠ 0 then
      if chunkOf c nd > nd then
        some ({ s with ndata := 0, pcs := s.pcs.set w (.relY st (st + nd)),
                       log := s.log ++ [(st, st + nd)] }, .wrN 0)
      else
        some ({ s with ndata := nd - chunkOf c nd, pcs := s.pcs.set w (.wroteN st (st + chunkOf c nd)),
                       log := s.log ++ [(st, st + chunkOf c nd)] }, .wrN (nd - chunkOf c nd))
    else some ({ s with lock := none, pcs := s.pcs.set w .retg }, .rel)
  | some (.wroteN a b) => some ({ s with start := b, pcs := s.pcs.set w (.relY a b) }, .wrS b)
  | some (.relY a b) => some ({ s with lock := none, pcs := s.pcs.set w (.yielding a b) }, .rel)
  | some (.yielding a b) =>
    some ({ s with yielded := s.yielded ++ [(w, a, b)], pcs := s.pcs.set w .idle }, .yld a b)
  | some .retg => some ({ s with pcs := s.pcs.set w .done }, .ret)
  | some .done => none

/-- state after a schedule (disabled choices are skipped) -/
def run (c : Cfg) (s : St) : List Nat → St
  | [] => s
  | w :: ws =>
    match step c s w with
    | none => run c s ws
    | some (s', _) => run c s' ws

/-- event trace of a schedule (`none` for a disabled choice) -/
def trace (c : Cfg) (s : St) : List Nat → List (Option Ev)
  | [] => []
  | w :: ws =>
    match step c s w with
    | none => none :: trace c s ws
    | some (s', e) => some e :: trace c s' ws

/-! ### result assembly of `_parallel_query` / `_parallel_proj`: `res[s] = f(x[s])` per yielded slice -/

/-- write `vals` into `res` at positions `[a, a + vals.length)` -/
def writeAt {α} (res : List α) (a : Nat) (vals : List α) : List α :=
  res.take a ++ vals ++ res.drop (a + vals.length)

/-- every worker computes `f` on its slice of the input and stores it in the shared result -/
def assemble {α β} (f : α → β) (x : List α) (slices : List (Nat × Nat)) (res : List β) : List β :=
  slices.foldl (fun r (p : Nat × Nat) => writeAt r p.1 (((x.drop p.1).take (p.2 - p.1)).map f)) res

/-! ### driver -/

open Wire

def kind? : String → Option Kind
  | "guided" => some .guided
  | "dynamic" => some .dynamic
  | "static" => some .static
  | _ => none

def showEv : Option Ev → String
  | none => "-"
  | some .acq => "acq"
  | some (.rdN v) => s!"rn{v}"
  | some (.rdS v) => s!"rs{v}"
  | some (.wrN v) => s!"wn{v}"
  | some (.wrS v) => s!"ws{v}"
  | some .rel => "rel"
  | some (.yld a b) => s!"y{a}:{b}"
  | some .ret => "ret"

def handle : List String → Option String
  | ["initchunk", kind, n, nprocs, chunkArg] => do
    let k ← kind? kind; let n ← nat? n; let p ← nat? nprocs; let ca ← int? chunkArg
    if p = 0 then some "err:zerodiv" else
    some (toString (initChunk k n p ca))
  | "sched" :: kind :: chunk :: nprocs :: n :: workers :: rest => do
    -- sched <kind> <self._chunk> <nprocs> <n> <workers> <k> w₁ … w_k
    let k ← kind? kind; let ch ← nat? chunk; let p ← nat? nprocs; let n ← nat? n; let wk ← nat? workers
    let (ws, tl) ← takeList nat? rest
    if tl ≠ [] then none else
    if p = 0 then some "err:zerodiv" else
    let c : Cfg := { kind := k, chunk := ch, nprocs := p }
    some (" ".intercalate ((trace c (init n wk) ws).map showEv))
  | _ => none

end PyresampleModel.C15
