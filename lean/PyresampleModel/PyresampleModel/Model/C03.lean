import PyresampleModel.Model.C02
import PyresampleModel.Model.C19

/-
  C03 — how the kd-tree work is organised: row segments of the target appended through
  `RowAppendableArray`, data reduction as an extra validity mask on the sources, the empty-result
  shortcuts.
-/
namespace PyresampleModel.C03

open PyresampleModel.C19

/-- `get_neighbour_info` with `segments > 1`: the per-target query `q` is evaluated segment by
segment (`geometry._get_slice`) and the results are appended to a `RowAppendableArray` reserved
for `size` rows -/
def segmentedQuery {β} (q : Nat → β) (size segments : Nat) : Option (List (Option β)) :=
  let rows := (getSlice segments size).map (fun s => (List.range' s.1 (s.2 - s.1)).map q)
  (rows.foldl RowApp.appendRow (RowApp.new size)).toArray

/-- the single-segment query -/
def plainQuery {β} (q : Nat → β) (size : Nat) : List β := (List.range size).map q

/-- data reduction: the boundary window is one more mask and-ed into `valid_input_index` -/
def reduceValid (srcValid keep : List Bool) : List Bool := List.zipWith (· && ·) srcValid keep

/-- `_create_empty_info`: every target valid, every index the sentinel `source.size`;
`_get_empty_sample`: all fill -/
def emptyInfo (nTarget nSource : Nat) : List Bool × List Nat :=
  (List.replicate nTarget true, List.replicate nTarget nSource)

def emptySample {α} (nTarget : Nat) (fill : α) : List α := List.replicate nTarget fill

/-! ### driver -/
open Wire

def handle : List String → Option String
  | ["segq", size, segments] => do
    -- which target index ends up in which row after segmented querying (q = identity)
    let size ← nat? size; let seg ← nat? segments
    if seg = 0 then some "err:value" else
    match segmentedQuery (fun i => i) size seg with
    | none => some "err:none"
    | some xs => some (showList (fun | none => "garbage" | some v => toString v) xs)
  | "reduce" :: rest => do
    let (sv, tl) ← takeList bool? rest
    let (keep, tl) ← takeList bool? tl
    if tl ≠ [] ∨ sv.length ≠ keep.length then none else
    some (showList showBool (reduceValid sv keep))
  | _ => none

end PyresampleModel.C03
