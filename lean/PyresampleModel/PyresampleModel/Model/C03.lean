import PyresampleModel.Model.Core

/-
  C03 — model (stub: not built yet).
-/
namespace PyresampleModel.C03

def handle : List String → Option String
  | _ => none

end PyresampleModel.C03
