import PyresampleModel.Model.Core

/-
  C01 — model (stub: not built yet).
-/
namespace PyresampleModel.C01

def handle : List String → Option String
  | _ => none

end PyresampleModel.C01
