import PyresampleModel.Model.Grid

/-
  C01 — every coordinate accessor of an `AreaDefinition`, as the code computes it.
  The geodetic inverse projection is a parameter `inv : Rat × Rat → β`.
-/
namespace PyresampleModel.C01

open Grid

/-- `get_proj_vectors()[0]` = `arange(0, width) * pixel_size_x + pixel_upper_left[0]` -/
def xvec (g : Grid) : List Rat := (List.range g.w).map (fun (c : Nat) => g.projX (c : Rat))
/-- `get_proj_vectors()[1]` = `arange(0, height) * -pixel_size_y + pixel_upper_left[1]` -/
def yvec (g : Grid) : List Rat := (List.range g.h).map (fun (r : Nat) => g.projY (r : Rat))

/-- `get_proj_coords()` (numpy path): `meshgrid(x, y)`; element (r, c) = (x_c, y_r) -/
def coords2d (g : Grid) : List (List (Rat × Rat)) :=
  (yvec g).map (fun y => (xvec g).map (fun x => (x, y)))

/-- `get_proj_coords(data_slice=(ys, xs))` (numpy path): vectors sliced first, then meshgrid -/
def coordsSliced (g : Grid) (ys xs : PySlice) : List (List (Rat × Rat)) :=
  (ys.apply (yvec g)).map (fun y => (xs.apply (xvec g)).map (fun x => (x, y)))

/-- `_generate_2d_coords` for the block whose array-location is rows `[r0, r1)`, columns `[c0, c1)` -/
def genBlock (g : Grid) (r0 r1 c0 c1 : Nat) : List (List (Rat × Rat)) :=
  (List.range' r0 (r1 - r0)).map (fun (r : Nat) =>
    (List.range' c0 (c1 - c0)).map (fun (c : Nat) => (g.projX (c : Rat), g.projY (r : Rat))))

/-- chunk tuple → (start, stop) per chunk -/
def axisSlices : List Nat → Nat → List (Nat × Nat)
  | [], _ => []
  | c :: cs, off => (off, off + c) :: axisSlices cs (off + c)

/-- horizontal concatenation of blocks that all have `n` rows -/
def hstack {α} (n : Nat) (blocks : List (List (List α))) : List (List α) :=
  (List.range n).map (fun i => blocks.flatMap (fun b => b.getD i []))

/-- the dask array of `_proj_coords_dask`: one generated block per (row chunk, column chunk) -/
def assembleBlocks (g : Grid) (rowChunks colChunks : List Nat) : List (List (Rat × Rat)) :=
  (axisSlices rowChunks 0).flatMap (fun rs =>
    hstack (rs.2 - rs.1) ((axisSlices colChunks 0).map (fun cs => genBlock g rs.1 rs.2 cs.1 cs.2)))

/-- the four ways to ask for the lon/lat of pixel (r, c) -/
def getLonlat {β} (inv : Rat × Rat → β) (g : Grid) (r c : Nat) : β := inv (g.projX (c : Rat), g.projY (r : Rat))
def colrow2lonlat {β} (inv : Rat × Rat → β) (g : Grid) (c r : Nat) : Option β :=
  match (xvec g)[c]?, (yvec g)[r]? with
  | some x, some y => some (inv (x, y))
  | _, _ => none
def lonlatFromArrayCoords {β} (inv : Rat × Rat → β) (g : Grid) (c r : Rat) : β := inv (g.projX c, g.projY r)

/-- scalar index lookup: `ValueError` (none) iff either axis is masked -/
def scalarLookup (g : Grid) (x y : Rat) : Option (Int × Int) :=
  let mx := maskedInt (g.arrX x) g.w
  let my := maskedInt (g.arrY y) g.h
  if mx.1 || my.1 then none else some (mx.2, my.2)

/-! ### driver -/
open Wire

def showPair (p : Rat × Rat) : String := showRat p.1 ++ "," ++ showRat p.2

def handle : List String → Option String
  | "vectors" :: rest => do
    let (g, tl) ← grid? rest
    if tl ≠ [] then none else
    some (showList showRat (xvec g) ++ " " ++ showList showRat (yvec g))
  | "blocks" :: rest => do
    -- blocks <grid> <k> rowchunks… <k> colchunks…  → rows of the assembled array
    let (g, tl) ← grid? rest
    let (rc, tl) ← takeList nat? tl
    let (cc, tl) ← takeList nat? tl
    if tl ≠ [] then none else
    let a := assembleBlocks g rc cc
    some (" | ".intercalate (a.map (fun row => " ".intercalate (row.map showPair))))
  | "sliced" :: rest => do
    -- sliced <grid> ys.start ys.stop xs.start xs.stop
    let (g, tl) ← grid? rest
    match tl with
    | [a, b, c, d] =>
      let a ← optInt? a; let b ← optInt? b; let c ← optInt? c; let d ← optInt? d
      let res := coordsSliced g ⟨a, b⟩ ⟨c, d⟩
      some (" | ".intercalate (res.map (fun row => " ".intercalate (row.map showPair))))
    | _ => none
  | "conv" :: rest => do
    -- conv <grid> <x> <y> → arrX arrY | mask,idx per axis | scalar lookup
    let (g, tl) ← grid? rest
    match tl with
    | [x, y] =>
      let x ← rat? x; let y ← rat? y
      if g.w = 0 ∨ g.h = 0 ∨ g.dx = 0 ∨ g.dy = 0 then some "err:degenerate" else
      let mx := maskedInt (g.arrX x) g.w
      let my := maskedInt (g.arrY y) g.h
      some (s!"{showRat (g.arrX x)} {showRat (g.arrY y)} {showBool mx.1} {mx.2} {showBool my.1} {my.2} " ++
        (match scalarLookup g x y with | none => "raise" | some (c, r) => s!"{c},{r}"))
    | _ => none
  | "proj" :: rest => do
    -- proj <grid> <col> <row> → projX projY (fractional array coordinates allowed)
    let (g, tl) ← grid? rest
    match tl with
    | [c, r] =>
      let c ← rat? c; let r ← rat? r
      some (showRat (g.projX c) ++ " " ++ showRat (g.projY r))
    | _ => none
  | _ => none

end PyresampleModel.C01
