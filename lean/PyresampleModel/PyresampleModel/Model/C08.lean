import PyresampleModel.Model.Core

/-
  C08 — model (stub: not built yet).
-/
namespace PyresampleModel.C08

def handle : List String → Option String
  | _ => none

end PyresampleModel.C08
