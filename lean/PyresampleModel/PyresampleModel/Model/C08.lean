import PyresampleModel.Model.Core

/-
  C08 — model of the EWA resampler's logic (`pyresample/ewa`), over exact rationals.

  * `ewa.ll2cr` + `_ll2cr.ll2cr_static`: grid parameters from the area, column/row of a projected point, the
    "within one cell of the grid" count                        → `ll2crParams`, `ll2crPoint`, `inGrid`, `countIn`
  * `compute_ewa`: the clipped index interval a swath pixel touches on one axis            → `axisCells`
  * `compute_ewa(_single)` accumulation per grid cell (average and maximum-weight mode)     → `accAvg`, `accMax`
  * `write_grid_image`: threshold, division, fill (float and int8 outputs)                  → `writeCell`, `writeCellI8`
  * `dask_ewa._combine_fornav`: reduction of per-input-chunk (weights, accums)               → `combineAvg`, `combineMax`

  The Gaussian weight of a swath pixel on a grid cell (ellipse parameters, `exp` table, float32) is a
  PARAMETER: a cell is described by the list of its contributions `(weight, value or invalid)` in scan order.
-/
namespace PyresampleModel.C08

/-! ### ll2cr -/

/-- an area: extent (x_ll, y_ll, x_ur, y_ur) and shape -/
structure AreaQ where
  x0 : Rat
  y0 : Rat
  x1 : Rat
  y1 : Rat
  w : Nat
  h : Nat
deriving Repr

def AreaQ.psx (a : AreaQ) : Rat := (a.x1 - a.x0) / a.w
def AreaQ.psy (a : AreaQ) : Rat := (a.y1 - a.y0) / a.h

/-- the area's own fractional column / row of a projection coordinate
(`AreaDefinition.get_array_coordinates_from_projection_coordinates`) -/
def areaCol (a : AreaQ) (x : Rat) : Rat := (x - (a.x0 + a.psx / 2)) / a.psx
def areaRow (a : AreaQ) (y : Rat) : Rat := (y - (a.y1 - a.psy / 2)) / (-a.psy)

/-- `ewa.ll2cr`: (cell_width, cell_height, origin_x, origin_y) handed to `ll2cr_static` -/
def ll2crParams (a : AreaQ) : Rat × Rat × Rat × Rat :=
  let cw := a.psx
  let ch := -a.psy
  (cw, ch, a.x0 + cw / 2, a.y1 + ch / 2)

/-- `ll2cr_static` on one point; `none` = the projection failed (x ≥ 1e30) → fill -/
def ll2crPoint (p : Rat × Rat × Rat × Rat) (pt : Option (Rat × Rat)) : Option (Rat × Rat) :=
  pt.map (fun xy => ((xy.1 - p.2.2.1) / p.1, (xy.2 - p.2.2.2) / p.2.1))

def inGrid (w h : Nat) (cr : Rat × Rat) : Bool :=
  decide (-1 ≤ cr.1) && decide (cr.1 ≤ (w : Rat) + 1) && decide (-1 ≤ cr.2) && decide (cr.2 ≤ (h : Rat) + 1)

def countIn (w h : Nat) (pts : List (Option (Rat × Rat))) : Nat :=
  (pts.filter (fun o => match o with | some cr => inGrid w h cr | none => false)).length

/-! ### footprint on one axis -/

/-- `compute_ewa`: the grid indices `iu1 .. iu2` a pixel at fractional position `u0` with half-width `del` touches on an axis
of `n` cells: skipped when `u0 < -del`, `(int)` truncation toward zero, clipping to the grid; `none` = touches nothing -/
def axisCells (u0 del : Rat) (n : Nat) : Option (Int × Int) :=
  if u0 < -del then none else
  let i1 := pyTrunc (u0 - del)
  let i2 := pyTrunc (u0 + del)
  let i1 := if i1 < 0 then 0 else i1
  let i2 := if i2 ≥ (n : Int) then (n : Int) - 1 else i2
  if i1 < (n : Int) ∧ i2 ≥ 0 ∧ i1 ≤ i2 then some (i1, i2) else none

def touches (u0 del : Rat) (n : Nat) (c : Int) : Bool :=
  match axisCells u0 del n with
  | some (i1, i2) => decide (i1 ≤ c) && decide (c ≤ i2)
  | none => false

/-! ### accumulation per grid cell -/

/-- one contribution to a grid cell: the weight and the swath value (`none` = fill value or NaN: skipped) -/
abbrev Contrib := Rat × Option Rat

def stepAvg (s : Rat × Rat) (c : Contrib) : Rat × Rat :=
  match c.2 with
  | some v => (s.1 + c.1, s.2 + v * c.1)
  | none => s

def stepMax (s : Rat × Rat) (c : Contrib) : Rat × Rat :=
  match c.2 with
  | some v => if c.1 > s.1 then (c.1, v) else s
  | none => s

/-- (weight sum, accumulated value·weight) -/
def accAvg (cs : List Contrib) : Rat × Rat := cs.foldl stepAvg (0, 0)
/-- (largest weight so far, value of the first contribution that reached it) -/
def accMax (cs : List Contrib) : Rat × Rat := cs.foldl stepMax (0, 0)

def EPS : Rat := 1 / 100000000

/-- `write_grid_image` for float outputs: `none` = fill -/
def writeCell (mwm : Bool) (sumMin : Rat) (s : Rat × Rat) : Option Rat :=
  let sm := if sumMin ≤ 0 then EPS else sumMin
  if s.1 < sm then none
  else if mwm then some s.2
  else some (s.2 / s.1)

/-- `write_grid_image` + `write_grid_pixel` for int8 outputs: round half away from zero, saturate -/
def writeCellI8 (mwm : Bool) (sumMin : Rat) (s : Rat × Rat) : Option Int :=
  let sm := if sumMin ≤ 0 then EPS else sumMin
  if s.1 < sm then none
  else
    let chanf : Rat := if mwm then s.2 else if s.2 ≥ 0 then s.2 / s.1 + 1/2 else s.2 / s.1 - 1/2
    if chanf < -128 then some (-128) else if chanf > 127 then some 127 else some (pyTrunc chanf)

/-! ### dask reduction -/

/-- `_combine_fornav`, average mode: element-wise sums of the per-chunk (weights, accums) -/
def combineAvg (parts : List (Rat × Rat)) : Rat × Rat :=
  parts.foldl (fun s p => (s.1 + p.1, s.2 + p.2)) (0, 0)

/-- `_combine_fornav`, maximum-weight mode: `np.argmax` over the chunk axis = the FIRST chunk holding the largest weight -/
def combineMax (parts : List (Rat × Rat)) : Rat × Rat :=
  parts.foldl (fun s p => if p.1 > s.1 then p else s) (0, 0)

/-! ### driver -/
open Wire

def contribs? : Nat → List String → Option (List Contrib)
  | 0, [] => some []
  | n + 1, w :: v :: t => do
    let w ← rat? w
    let tl ← contribs? n t
    if v = "nan" then some ((w, none) :: tl) else
    let v ← rat? v
    some ((w, some v) :: tl)
  | _, _ => none

def pairs? : Nat → List String → Option (List (Rat × Rat))
  | 0, [] => some []
  | n + 1, a :: b :: t => do
    let a ← rat? a; let b ← rat? b
    let tl ← pairs? n t
    some ((a, b) :: tl)
  | _, _ => none

def optPts? : Nat → List String → Option (List (Option (Rat × Rat)))
  | 0, [] => some []
  | n + 1, a :: b :: t => do
    let tl ← optPts? n t
    if a = "inf" || b = "inf" then some (none :: tl) else
    let a ← rat? a; let b ← rat? b
    some (some (a, b) :: tl)
  | _, _ => none

def showOptRat : Option Rat → String
  | some q => showRat q
  | none => "fill"

def handle : List String → Option String
  | "ll2cr" :: x0 :: y0 :: x1 :: y1 :: w :: h :: n :: rest => do
    -- ll2cr x0 y0 x1 y1 w h n (x y | inf inf)*n -> cw ch ox oy count (col,row | fill)*
    let x0 ← rat? x0; let y0 ← rat? y0; let x1 ← rat? x1; let y1 ← rat? y1
    let w ← nat? w; let h ← nat? h; let n ← nat? n
    let pts ← optPts? n rest
    let a : AreaQ := ⟨x0, y0, x1, y1, w, h⟩
    let p := ll2crParams a
    let crs := pts.map (ll2crPoint p)
    let shown := crs.map (fun o => match o with | some cr => showRat cr.1 ++ "," ++ showRat cr.2 | none => "fill")
    some (" ".intercalate ([showRat p.1, showRat p.2.1, showRat p.2.2.1, showRat p.2.2.2, toString (countIn w h crs)] ++ shown))
  | "cell" :: mwm :: sumMin :: k :: rest => do
    -- cell mwm sumMin k (w v|nan)*k -> W A out
    let mwm ← bool? mwm; let sumMin ← rat? sumMin; let k ← nat? k
    let cs ← contribs? k rest
    let s := if mwm then accMax cs else accAvg cs
    some s!"{showRat s.1} {showRat s.2} {showOptRat (writeCell mwm sumMin s)}"
  | ["write", mwm, sumMin, w, a] => do
    let mwm ← bool? mwm; let sumMin ← rat? sumMin; let w ← rat? w; let a ← rat? a
    some (showOptRat (writeCell mwm sumMin (w, a)))
  | ["writei8", mwm, sumMin, w, a] => do
    let mwm ← bool? mwm; let sumMin ← rat? sumMin; let w ← rat? w; let a ← rat? a
    some (match writeCellI8 mwm sumMin (w, a) with | some i => toString i | none => "fill")
  | "combine" :: mwm :: k :: rest => do
    let mwm ← bool? mwm; let k ← nat? k
    let ps ← pairs? k rest
    let s := if mwm then combineMax ps else combineAvg ps
    some s!"{showRat s.1} {showRat s.2}"
  | ["axis", u0, del, n] => do
    let u0 ← rat? u0; let del ← rat? del; let n ← nat? n
    some (match axisCells u0 del n with | some (a, b) => s!"{a} {b}" | none => "none")
  | _ => none

end PyresampleModel.C08
