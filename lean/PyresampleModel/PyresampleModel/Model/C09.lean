import PyresampleModel.Model.Core

/-
  C09 — model (stub: not built yet).
-/
namespace PyresampleModel.C09

def handle : List String → Option String
  | _ => none

end PyresampleModel.C09
