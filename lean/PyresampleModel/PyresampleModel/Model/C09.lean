import PyresampleModel.Model.Grid

/-
  C09 — gradient search (`_gradient_search.pyx: one_step_gradient_search_no_gil`, `indices_xy`, `nn`, `bil`)
  and the block interpolators of `gradient/__init__.py`.
-/
namespace PyresampleModel.C09

/-- source coordinates and their gradients as functions of (line, pixel) -/
structure Fields where
  sx : Int → Int → Rat
  sy : Int → Int → Rat
  xl : Int → Int → Rat
  xp : Int → Int → Rat
  yl : Int → Int → Rat
  yp : Int → Int → Rat

def absQ (q : Rat) : Rat := if 0 ≤ q then q else -q
def clampI (v lo hi : Int) : Int := if v < lo then lo else if hi < v then hi else v

/-- result of the search for one target pixel -/
structure Found where
  l0 : Int
  p0 : Int
  dl : Rat
  dp : Rat
deriving Repr, DecidableEq

/-- the `while True` loop; `fuel` = remaining iterations (`cnt` runs 1..5). Returns what `fun` is called
with (if it is called) and the (l0, p0) carried over to the next target pixel. `last` = (last_l0, last_p0). -/
def searchLoop (f : Fields) (lmax pmax : Int) (X Y : Rat) :
    Nat → (Int × Int) → (Int × Int) → Option Found × (Int × Int) × (Int × Int)
  | 0, _, last => (none, last, last)                  -- cnt > 5: p0 = last_p0, l0 = last_l0, break
  | fuel + 1, (l0, p0), last =>
    if 0 ≤ l0 ∧ l0 ≤ lmax ∧ 0 ≤ p0 ∧ p0 ≤ pmax then
      let dx := X - f.sx l0 p0
      let dy := Y - f.sy l0 p0
      let d := f.yl l0 p0 * f.xp l0 p0 - f.yp l0 p0 * f.xl l0 p0
      if d = 0 then searchLoop f lmax pmax X Y fuel (l0, p0) last
      else
        let dl := (f.xp l0 p0 * dy - f.yp l0 p0 * dx) / d
        let dp := (f.yl l0 p0 * dx - f.xl l0 p0 * dy) / d
        if absQ dp < 1 ∧ absQ dl < 1 then
          let emit := 0 ≤ dl + l0 ∧ dl + l0 ≤ lmax ∧ 0 ≤ dp + p0 ∧ dp + p0 ≤ pmax
          (if emit then some ⟨l0, p0, dl, dp⟩ else none, (l0, p0), (l0, p0))
        else
          searchLoop f lmax pmax X Y fuel (pyTrunc ((l0 : Rat) + dl), pyTrunc ((p0 : Rat) + dp)) last
    else
      searchLoop f lmax pmax X Y fuel (clampI l0 0 lmax, clampI p0 0 pmax) last

/-- `indices_xy`: (x index, y index) = (dp + p0, dl + l0) -/
def indicesXY (r : Found) : Rat × Rat := (r.dp + r.p0, r.dl + r.l0)

/-- `nn`: the pixel whose value is taken -/
def nnPixel (r : Found) (lmax pmax : Int) : Int × Int :=
  let l := if r.dl < -(1/2) ∧ r.l0 > 0 then r.l0 - 1 else if r.dl > 1/2 ∧ r.l0 < lmax then r.l0 + 1 else r.l0
  let p := if r.dp < -(1/2) ∧ r.p0 > 0 then r.p0 - 1 else if r.dp > 1/2 ∧ r.p0 < pmax then r.p0 + 1 else r.p0
  (l, p)

/-- `bil`: the four corner pixels and the two weights (l_a, l_b, w_l, p_a, p_b, w_p) -/
def bilParams (r : Found) (lmax pmax : Int) : Int × Int × Rat × Int × Int × Rat :=
  let (la, lb, wl) := if r.dl < 0 then ((if 0 ≤ r.l0 - 1 then r.l0 - 1 else 0), r.l0, 1 + r.dl)
                      else (r.l0, (if r.l0 + 1 ≤ lmax then r.l0 + 1 else lmax), r.dl)
  let (pa, pb, wp) := if r.dp < 0 then ((if 0 ≤ r.p0 - 1 then r.p0 - 1 else 0), r.p0, 1 + r.dp)
                      else (r.p0, (if r.p0 + 1 ≤ pmax then r.p0 + 1 else pmax), r.dp)
  (la, lb, wl, pa, pb, wp)

def bilValue (data : Int → Int → Rat) (b : Int × Int × Rat × Int × Int × Rat) : Rat :=
  let (la, lb, wl, pa, pb, wp) := b
  (1 - wl) * (1 - wp) * data la pa + (1 - wl) * wp * data la pb + wl * (1 - wp) * data lb pa + wl * wp * data lb pb

/-- an area source in its own CRS: `src_x[l, p] = x0 + p·dx`, `src_y[l, p] = y0 - l·dy`; `np.gradient` of an
affine field is exact: xp = dx, xl = 0, yl = -dy, yp = 0 -/
def affine (x0 y0 dx dy : Rat) : Fields :=
  { sx := fun _ p => x0 + p * dx, sy := fun l _ => y0 - l * dy,
    xl := fun _ _ => 0, xp := fun _ _ => dx, yl := fun _ _ => -dy, yp := fun _ _ => 0 }

/-- `block_nn_interpolator` on one (block-local) index: `clip(rint(i), 0, n - 1)` -/
def blockNN (i : Rat) (n : Nat) : Int := clampI (roundHalfEven i) 0 ((n : Int) - 1)

/-- `block_bilinear_interpolator` on one axis: clip, `modf`, end index: (start, end, weight) -/
def blockBil (i : Rat) (n : Nat) : Int × Int × Rat :=
  let c : Rat := if i < 0 then 0 else if i > (n : Rat) - 1 then (n : Rat) - 1 else i
  let st := pyTrunc c
  (st, clampI (st + 1) 1 ((n : Int) - 1), c - st)

/-! ### driver -/
open Wire

def grid2? (rows cols : Nat) (toks : List String) : Option (List (List Rat) × List String) := do
  if toks.length < rows * cols then none else
  let vals ← (toks.take (rows * cols)).mapM rat?
  let rec chunk : Nat → List Rat → List (List Rat)
    | 0, _ => []
    | r + 1, vs => vs.take cols :: chunk r (vs.drop cols)
  some (chunk rows vals, toks.drop (rows * cols))

def at2 (a : List (List Rat)) (l p : Int) : Rat := ((a.getD l.toNat []).getD p.toNat 0)

def handle : List String → Option String
  | "search" :: rows :: cols :: rest => do
    -- reply per target pixel: nan | P,L,nn_l,nn_p,l_a,l_b,w_l,p_a,p_b,w_p
    -- search <rows> <cols> sx sy xl xp yl yp (each rows*cols) <trows> <tcols> dstx dsty (each trows*tcols; "inf" allowed)
    let rows ← nat? rows; let cols ← nat? cols
    let (sx, t) ← grid2? rows cols rest
    let (sy, t) ← grid2? rows cols t
    let (xl, t) ← grid2? rows cols t
    let (xp, t) ← grid2? rows cols t
    let (yl, t) ← grid2? rows cols t
    let (yp, t) ← grid2? rows cols t
    match t with
    | tr :: tc :: t2 =>
      let tr ← nat? tr; let tc ← nat? tc
      if t2.length ≠ 2 * tr * tc then none else
      let optR := fun (s : String) => if s = "inf" then some none else (rat? s).map some
      let dx ← (t2.take (tr * tc)).mapM optR
      let dy ← (t2.drop (tr * tc)).mapM optR
      let f : Fields := { sx := at2 sx, sy := at2 sy, xl := at2 xl, xp := at2 xp, yl := at2 yl, yp := at2 yp }
      let lmax : Int := (rows : Int) - 1
      let pmax : Int := (cols : Int) - 1
      -- zig-zag scan
      let init : (Int × Int) × (Int × Int) × List (Nat × String) := ((lmax / 2, pmax / 2), (lmax / 2, pmax / 2), [])
      let res := (List.range tr).foldl (fun acc i =>
        let js := if i % 2 = 0 then List.range tc else (List.range tc).reverse
        js.foldl (fun (acc : (Int × Int) × (Int × Int) × List (Nat × String)) j =>
          let (cur, last, out) := acc
          match dx.getD (i * tc + j) none, dy.getD (i * tc + j) none with
          | some X, some Y =>
            let (r, cur', last') := searchLoop f lmax pmax X Y 5 cur last
            let s := match r with
              | none => "nan"
              | some v =>
                let n := nnPixel v lmax pmax
                let b := bilParams v lmax pmax
                ",".intercalate [showRat (indicesXY v).1, showRat (indicesXY v).2, toString n.1, toString n.2,
                  toString b.1, toString b.2.1, showRat b.2.2.1, toString b.2.2.2.1, toString b.2.2.2.2.1, showRat b.2.2.2.2.2]
            (cur', last', (i * tc + j, s) :: out)
          | _, _ => (cur, last, (i * tc + j, "nan") :: out)) acc) init
      let sorted := (List.range (tr * tc)).map (fun k => ((res.2.2.find? (fun p => p.1 == k)).map (·.2)).getD "nan")
      some (" ".intercalate sorted)
    | _ => none
  | ["blocknn", i, n] => do
    let i ← rat? i; let n ← nat? n
    some (toString (blockNN i n))
  | ["blockbil", i, n] => do
    let i ← rat? i; let n ← nat? n
    let r := blockBil i n
    some s!"{r.1} {r.2.1} {showRat r.2.2}"
  | _ => none

end PyresampleModel.C09
