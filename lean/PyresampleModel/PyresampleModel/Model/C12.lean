import PyresampleModel.Model.Core

/-
  C12 — model (stub: not built yet).
-/
namespace PyresampleModel.C12

def handle : List String → Option String
  | _ => none

end PyresampleModel.C12
