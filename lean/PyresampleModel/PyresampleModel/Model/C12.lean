import PyresampleModel.Model.Core

/-
  C12 — equality, hashing, cache keys.

  * how `AreaDefinition.update_hash` serialises (CRS WKT bytes ++ shape as int64 ++ extent as float64)
  * numpy's dtype inference for the pre-fix code (`np.array(extent)` without a dtype)
  * the memoised `hash()` state machine of coordinate definitions under `append` / slicing / copy
  * `np.allclose` as used by `__eq__`

  The digest (SHA-1) is an uninterpreted injective function: digests are compared through their inputs.
-/

namespace PyresampleModel.C12

/-- a number together with the way it was spelled -/
inductive Num where
  | int (i : Int)          -- Python int / numpy integer
  | f64 (q : Rat)          -- Python float / np.float64
  | f32 (q : Rat)          -- np.float32 scalar or element of a float32 array
deriving Repr, DecidableEq

def Num.val : Num → Rat
  | .int i => (i : Rat)
  | .f64 q => q
  | .f32 q => q

/-- one serialised array element: dtype tag + value (8- or 4-byte item, injective in the value) -/
inductive Item where
  | i64 (i : Int)
  | f64 (q : Rat)
  | f32 (q : Rat)
deriving Repr, DecidableEq

/-- numpy's result dtype for `np.array(list_of_scalars)`: all ints → int64; any Python float / float64 →
float64; only float32 (and ints, for a float32 *array* input) → float32 -/
def inferItems (xs : List Num) : List Item :=
  if xs.all (fun x => match x with | .int _ => true | _ => false) then
    xs.map (fun x => match x with | .int i => Item.i64 i | _ => Item.i64 0)
  else if xs.any (fun x => match x with | .f64 _ => true | _ => false) then
    xs.map (fun x => Item.f64 x.val)
  else xs.map (fun x => Item.f32 x.val)

/-- `np.array(extent, dtype=np.float64)` -/
def f64Items (xs : List Num) : List Item := xs.map (fun x => Item.f64 x.val)

structure AreaSpec where
  wkt    : List Nat          -- bytes of `crs_wkt`
  height : Nat
  width  : Nat
  extent : List Num
deriving Repr, DecidableEq

/-- bytes fed to the digest, as a list of chunks: WKT bytes, then the fixed-size suffix -/
structure Ser where
  wkt   : List Nat
  items : List Item
deriving Repr, DecidableEq

/-- `AreaDefinition.update_hash` (after the `fix:` commit) -/
def serializeArea (a : AreaSpec) : Ser :=
  { wkt := a.wkt, items := [Item.i64 a.height, Item.i64 a.width] ++ f64Items a.extent }

/-- the same before the fix -/
def serializeAreaOld (a : AreaSpec) : Ser :=
  { wkt := a.wkt, items := [Item.i64 a.height, Item.i64 a.width] ++ inferItems a.extent }

def absQ (q : Rat) : Rat := if 0 ≤ q then q else -q

/-- `np.allclose(a, b, rtol, atol)` on equal-length lists: all `|a - b| ≤ atol + rtol * |b|` -/
def allclose (rtol atol : Rat) (a b : List Rat) : Bool :=
  a.length == b.length && (a.zip b).all (fun p => decide (absQ (p.1 - p.2) ≤ atol + rtol * absQ p.2))

/-- `AreaDefinition.__eq__` (CRS equality supplied as a Boolean): closeness is tested both ways -/
def areaEq (crsEq : Bool) (a b : AreaSpec) : Bool :=
  allclose (1 / 100000) (1 / 100000000) (a.extent.map Num.val) (b.extent.map Num.val) &&
  allclose (1 / 100000) (1 / 100000000) (b.extent.map Num.val) (a.extent.map Num.val) && crsEq &&
    (a.height == b.height && a.width == b.width)

/-- the same before the `fix:` commit (one direction only) -/
def areaEqOld (crsEq : Bool) (a b : AreaSpec) : Bool :=
  allclose (1 / 100000) (1 / 100000000) (a.extent.map Num.val) (b.extent.map Num.val) && crsEq &&
    (a.height == b.height && a.width == b.width)

/-! ### memoised hash of a coordinate definition -/

/-- coordinates are a list of rows; the digest input is the row list itself -/
structure Geo where
  rows : List (List Rat)
  memo : Option (List (List Rat))      -- memoised digest input, `self.hash`
deriving Repr, DecidableEq

inductive Op where
  | hash                           -- `hash(obj)`
  | append (other : List (List Rat))   -- `obj.append(other)` (in place)
  | slice (s : PySlice)            -- `obj = obj[s, :]` (a new object)
  | copy                           -- `obj = obj.copy()`
deriving Repr

def Geo.hashVal (g : Geo) : List (List Rat) := g.memo.getD g.rows

/-- one step; the second component is what `hash` returned (if the op was `hash`) -/
def step (g : Geo) : Op → Geo × Option (List (List Rat))
  | .hash => ({ g with memo := some g.hashVal }, some g.hashVal)
  | .append o => ({ rows := g.rows ++ o, memo := none }, none)
  | .slice s => ({ rows := s.apply g.rows, memo := none }, none)
  | .copy => ({ rows := g.rows, memo := none }, none)

/-- the pre-fix `append`, which kept the memo -/
def stepOld (g : Geo) : Op → Geo × Option (List (List Rat))
  | .append o => ({ rows := g.rows ++ o, memo := g.memo }, none)
  | op => step g op

def run (g : Geo) (ops : List Op) : Geo := ops.foldl (fun s op => (step s op).1) g
def runOld (g : Geo) (ops : List Op) : Geo := ops.foldl (fun s op => (stepOld s op).1) g

/-! ### the byte stream a coordinate definition feeds to the digest -/

/-- `BaseDefinition.update_hash` for numpy coordinates: the bytes of `lons`, then the bytes of `lats`, then (for masked
arrays) the bytes of the mask, in this order, to one streaming hash (`sha1.update` is concatenation: trusted) -/
def swathFeed (lons lats : List Nat) (mask : Option (List Nat)) : List Nat := lons ++ (lats ++ mask.getD [])

/-! ### driver -/
open Wire

def num? (s : String) : Option Num :=
  match s.splitOn ":" with
  | ["i", v] => (int? v).map Num.int
  | ["d", v] => (rat? v).map Num.f64
  | ["s", v] => (rat? v).map Num.f32
  | _ => none

def showItem : Item → String
  | .i64 i => s!"i{i}"
  | .f64 q => "d" ++ showRat q
  | .f32 q => "s" ++ showRat q

def handle : List String → Option String
  | "ser" :: h :: w :: rest => do
    -- ser <h> <w> <n> num…   → the fixed-size suffix that is hashed after the WKT
    let h ← nat? h; let w ← nat? w
    let (ext, tl) ← takeList num? rest
    if tl ≠ [] then none else
    some (" ".intercalate ((serializeArea ⟨[], h, w, ext⟩).items.map showItem))
  | "feed" :: rest => do
    -- feed <n> lon bytes… <n> lat bytes… <n> mask bytes…(n = 0: no mask)  → the byte stream that is hashed
    let (lo, tl) ← takeList nat? rest
    let (la, tl) ← takeList nat? tl
    let (mk, tl) ← takeList nat? tl
    if tl ≠ [] then none else
    some (" ".intercalate ((swathFeed lo la (if mk.isEmpty then none else some mk)).map toString))
  | "areaeq" :: crs :: rest => do
    -- areaeq <crsEq> <h1> <w1> <n> num… <h2> <w2> <n> num…
    let crs ← bool? crs
    match rest with
    | h1 :: w1 :: r1 =>
      let h1 ← nat? h1; let w1 ← nat? w1
      let (e1, r2) ← takeList num? r1
      match r2 with
      | h2 :: w2 :: r3 =>
        let h2 ← nat? h2; let w2 ← nat? w2
        let (e2, r4) ← takeList num? r3
        if r4 ≠ [] then none else
        some (showBool (areaEq crs ⟨[], h1, w1, e1⟩ ⟨[], h2, w2, e2⟩))
      | _ => none
    | _ => none
  | _ => none

end PyresampleModel.C12
