import PyresampleModel.Model.Grid

/-
  C14 — `DynamicAreaDefinition.compute_domain` (resolution branch and shape branch),
  `_update_corners_for_full_extent`, and the antimeridian corner rewrite.
  Corners are centres of the outermost data points in projection coordinates.
-/
namespace PyresampleModel.C14

structure Corners where
  xmin : Rat
  ymin : Rat
  xmax : Rat
  ymax : Rat
deriving Repr, DecidableEq

structure Domain where
  x0 : Rat
  y0 : Rat
  x1 : Rat
  y1 : Rat
  w  : Int
  h  : Int
deriving Repr, DecidableEq

/-- `compute_domain(..., resolution=(rx, ry))` -/
def domainRes (c : Corners) (rx ry : Rat) : Domain :=
  let x0 := (pyFloor ((c.xmin - rx / 2) / rx) : Rat) * rx
  let y0 := (pyFloor ((c.ymin - ry / 2) / ry) : Rat) * ry
  let x1 := (pyCeil ((c.xmax + rx / 2) / rx) : Rat) * rx
  let y1 := (pyCeil ((c.ymax + ry / 2) / ry) : Rat) * ry
  { x0 := x0, y0 := y0, x1 := x1, y1 := y1,
    w := roundHalfEven ((x1 - x0) / rx), h := roundHalfEven ((y1 - y0) / ry) }

/-- `compute_domain(..., shape=(height, width))` -/
def domainShape (c : Corners) (height width : Nat) : Domain :=
  let rx := (c.xmax - c.xmin) / ((width : Rat) - 1)
  let ry := (c.ymax - c.ymin) / ((height : Rat) - 1)
  { x0 := c.xmin - rx / 2, y0 := c.ymin - ry / 2, x1 := c.xmax + rx / 2, y1 := c.ymax + ry / 2,
    w := width, h := height }

/-- `_update_corners_for_full_extent` when the x corners are `None` (global extents): shape given -/
def fullExtentShape (west east : Rat) (c : Corners) (width : Nat) : Corners :=
  let xr := (east - west) / width
  { c with xmin := west + xr / 2, xmax := east - xr / 2 }

/-- … resolution given -/
def fullExtentRes (west east : Rat) (c : Corners) (rx : Rat) : Corners :=
  { c with xmin := west + rx / 2, xmax := east - rx / 2 }

/-- `x % 360` -/
def wrap360 (x : Rat) : Rat := x - 360 * (pyFloor (x / 360) : Rat)

def minL : List Rat → Rat
  | [] => 0
  | x :: xs => xs.foldl (fun a b => if b < a then b else a) x
def maxL : List Rat → Rat
  | [] => 0
  | x :: xs => xs.foldl (fun a b => if a < b then b else a) x

/-- `_compute_new_x_corners_for_antimeridian` for the modes that keep the data bounds:
`modify_extents` (shift = 0) and `modify_crs` (shift = 180) -/
def antimeridianX (xs : List Rat) (shift : Rat) : Rat × Rat :=
  let ws := xs.map wrap360
  (minL ws - shift, maxL ws - shift)

/-- longitudes with missing navigation (NaN = `none`): `np.nanmin / np.nanmax` of `lons % 360` -/
def antimeridianXN (xs : List (Option Rat)) (shift : Rat) : Rat × Rat := antimeridianX (xs.filterMap id) shift

/-! ### what `freeze` keeps of what it was given -/

/-- the plan `DynamicAreaDefinition.freeze` makes before any geometry is computed: an explicit argument wins over the instance's
value; `compute_domain` is asked only when the extent or a dimension is missing (`None` or 0), and it then gets the resolution
and — only if both dimensions are known — the shape -/
structure FreezePlan where
  res    : Option Rat                         -- resolution handed to `compute_domain`
  shape  : Option (Option Int × Option Int)   -- shape handed to `compute_domain` (`None` unless both dimensions are given)
  height : Option Int
  width  : Option Int
  extent : Option (Rat × Rat × Rat × Rat)
  need   : Bool                               -- is the domain computed from the data at all?
deriving Repr, DecidableEq

def dimGiven : Option Int → Bool
  | some v => v ≠ 0
  | none => false

def freezePlan (argRes selfRes : Option Rat) (argShape : Option (Option Int × Option Int)) (selfShape : Option Int × Option Int)
    (selfExtent : Option (Rat × Rat × Rat × Rat)) : FreezePlan :=
  let shp := argShape.getD selfShape
  { res := argRes.orElse (fun _ => selfRes),
    shape := if shp.1.isNone || shp.2.isNone then none else some shp,
    height := shp.1, width := shp.2, extent := selfExtent,
    need := selfExtent.isNone || !dimGiven shp.2 || !dimGiven shp.1 }

/-! ### driver -/
open Wire

def showDom (d : Domain) : String :=
  s!"{showRat d.x0} {showRat d.y0} {showRat d.x1} {showRat d.y1} {d.w} {d.h}"

def corners? : List String → Option (Corners × List String)
  | a :: b :: c :: d :: rest => do
    let a ← rat? a; let b ← rat? b; let c ← rat? c; let d ← rat? d
    some (⟨a, b, c, d⟩, rest)
  | _ => none

def handle : List String → Option String
  | "res" :: rest => do
    let (c, tl) ← corners? rest
    match tl with
    | [rx, ry] =>
      let rx ← rat? rx; let ry ← rat? ry
      if rx = 0 ∨ ry = 0 then some "err:zerodiv" else some (showDom (domainRes c rx ry))
    | _ => none
  | "shape" :: rest => do
    let (c, tl) ← corners? rest
    match tl with
    | [h, w] =>
      let h ← nat? h; let w ← nat? w
      if h = 1 ∨ w = 1 then some "err:zerodiv" else some (showDom (domainShape c h w))
    | _ => none
  | "fullshape" :: west :: east :: rest => do
    let west ← rat? west; let east ← rat? east
    let (c, tl) ← corners? rest
    match tl with
    | [h, w] =>
      let h ← nat? h; let w ← nat? w
      if h ≤ 1 ∨ w ≤ 1 then some "err:zerodiv" else some (showDom (domainShape (fullExtentShape west east c w) h w))
    | _ => none
  | "fullres" :: west :: east :: rest => do
    let west ← rat? west; let east ← rat? east
    let (c, tl) ← corners? rest
    match tl with
    | [rx, ry] =>
      let rx ← rat? rx; let ry ← rat? ry
      if rx = 0 ∨ ry = 0 then some "err:zerodiv" else some (showDom (domainRes (fullExtentRes west east c rx) rx ry))
    | _ => none
  | ["plan", argRes, selfRes, argShape, ah, aw, sh, sw, ext] => do
    -- plan <argRes|none> <selfRes|none> <some|none> <ah|none> <aw|none> <sh|none> <sw|none> <ext: 1|0>
    let optRat := fun (t : String) => if t = "none" then some (none : Option Rat) else (rat? t).map some
    let optInt := fun (t : String) => if t = "none" then some (none : Option Int) else (int? t).map some
    let ar ← optRat argRes; let sr ← optRat selfRes
    let ah ← optInt ah; let aw ← optInt aw; let sh ← optInt sh; let sw ← optInt sw
    let ash := if argShape = "some" then some (ah, aw) else none
    let e := if ext = "1" then some ((0 : Rat), (0 : Rat), (1 : Rat), (1 : Rat)) else none
    let p := freezePlan ar sr ash (sh, sw) e
    let so := fun (o : Option Int) => match o with | some v => toString v | none => "none"
    some ((match p.res with | some q => showRat q | none => "none") ++ " " ++ (if p.shape.isSome then "shape" else "noshape") ++ " " ++
          so p.height ++ " " ++ so p.width ++ " " ++ (if p.need then "compute" else "keep"))
  | "anti" :: shift :: rest => do
    let shift ← rat? shift
    -- anti <shift> <n> lon…   (a longitude is a rational or `nan`)
    let (xs, tl) ← takeList (fun t => if t = "nan" then some (none : Option Rat) else (rat? t).map some) rest
    if tl ≠ [] ∨ xs.filterMap id = [] then none else
    let r := antimeridianXN xs shift
    some (showRat r.1 ++ " " ++ showRat r.2)
  | _ => none

end PyresampleModel.C14
