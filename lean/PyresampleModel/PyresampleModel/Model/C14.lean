import PyresampleModel.Model.Core

/-
  C14 — model (stub: not built yet).
-/
namespace PyresampleModel.C14

def handle : List String → Option String
  | _ => none

end PyresampleModel.C14
