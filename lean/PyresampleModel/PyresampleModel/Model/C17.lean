import PyresampleModel.Model.Core

/-
  C17 — model of the combinatorial skeleton of `pyresample/spherical.py` (trigonometry is NOT modelled).

  * `SphPolygon.area`: `(sum of the interior angles - (n - 2)·pi)·radius²`, the interior angle at vertex `i+1` being a function of
    the cyclic triple `(v_i, v_{i+1}, v_{i+2})`                                         → `angleSumFn`, `areaFn`, `areaFromAngles`
  * `SphPolygon._bool_oper`, branch "no edge crossing found": the decision table          → `dispatch`

  The angle function `ang` and `pi` are parameters; the laws that need geometry appear as hypotheses of the theorems.
-/
namespace PyresampleModel.C17

/-- sum over the cyclic triples of `n` vertices `v 0 … v (n-1)` -/
def angleSumFn {α : Type} (ang : α → α → α → Rat) (n : Nat) (v : Nat → α) : Rat :=
  ((List.range n).map (fun i => ang (v i) (v ((i + 1) % n)) (v ((i + 2) % n)))).sum

/-- `SphPolygon.area` -/
def areaFn {α : Type} (ang : α → α → α → Rat) (pi r : Rat) (n : Nat) (v : Nat → α) : Rat :=
  (angleSumFn ang n v - ((n : Rat) - 2) * pi) * (r * r)

/-- the same from the list of interior angles -/
def areaFromAngles (pi r : Rat) (angles : List Rat) : Rat :=
  (angles.sum - ((angles.length : Rat) - 2) * pi) * (r * r)

inductive Pick | self | other | none
deriving Repr, DecidableEq

/-- `_bool_oper` when no crossing is found: `polys = [0, self, other]`; `sign = 1` union, `-1` intersection -/
def dispatch (union : Bool) (selfInOther otherInSelf : Bool) : Pick :=
  if selfInOther then (if union then .other else .self)        -- polys[-sign]
  else if otherInSelf then (if union then .self else .other)   -- polys[sign]
  else .none

/-! ### driver -/
open Wire

def handle : List String → Option String
  | "area" :: r :: pi :: n :: rest => do
    let r ← rat? r; let pi ← rat? pi; let n ← nat? n
    if rest.length ≠ n then none else
    let a ← rest.mapM rat?
    some (showRat (areaFromAngles pi r a))
  | ["dispatch", sign, a, b] => do
    let sign ← int? sign; let a ← bool? a; let b ← bool? b
    some (match dispatch (sign == 1) a b with | .self => "self" | .other => "other" | .none => "none")
  | _ => none

end PyresampleModel.C17
