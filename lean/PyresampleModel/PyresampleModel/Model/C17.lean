import PyresampleModel.Model.Core

/-
  C17 — model (stub: not built yet).
-/
namespace PyresampleModel.C17

def handle : List String → Option String
  | _ => none

end PyresampleModel.C17
