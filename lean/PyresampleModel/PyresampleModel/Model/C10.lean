import PyresampleModel.Model.Core

/-
  C10 — model (stub: not built yet).
-/
namespace PyresampleModel.C10

def handle : List String → Option String
  | _ => none

end PyresampleModel.C10
