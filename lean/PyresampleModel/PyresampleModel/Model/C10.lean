import PyresampleModel.Model.Grid

/-
  C10 — `AreaDefinition.__getitem__`, `combine_area_extents_vertical` / `concatenate_area_defs`,
  `StackedAreaDefinition.append / squeeze / get_lonlats` (row bookkeeping), swath slicing.
-/

namespace PyresampleModel.C10

open Grid

/-- an area together with its `crop_offset` (row offset, column offset) -/
structure Area where
  g   : Grid
  off : Nat × Nat
deriving Repr, DecidableEq

/-- `AreaDefinition.__getitem__` for unit-step slices.  `none` when the selection is empty on an
axis (the code then builds an area of non-positive size; outside the property). -/
def sliceArea (a : Area) (ys xs : PySlice) : Option Area :=
  let g := a.g
  let (ylo, yhi) := ys.indices g.h
  let (xlo, xhi) := xs.indices g.w
  if ylo < yhi ∧ xlo < xhi then
    some {
      g := { x0 := g.uplx + ((xlo : Rat) - 1/2) * g.dx,
             y0 := g.uply - ((yhi : Rat) - 1/2) * g.dy,
             x1 := g.uplx + ((xhi : Rat) - 1/2) * g.dx,
             y1 := g.uply - ((ylo : Rat) - 1/2) * g.dy,
             w := xhi - xlo, h := yhi - ylo },
      off := (a.off.1 + ylo, a.off.2 + xlo) }
  else none

/-- `get_proj_vectors()[0]`: x coordinate of every column -/
def xvec (g : Grid) : List Rat := (List.range g.w).map (fun (c : Nat) => g.projX (c : Rat))
/-- `get_proj_vectors()[1]`: y coordinate of every row -/
def yvec (g : Grid) : List Rat := (List.range g.h).map (fun (r : Nat) => g.projY (r : Rat))

def absQ (q : Rat) : Rat := if 0 ≤ q then q else -q

/-- `np.isclose(a, b)` with the default `rtol = 1e-5`, `atol = 1e-8` (the code before the `fix:` commit) -/
def iscloseDefault (a b : Rat) : Bool := decide (absQ (a - b) ≤ 1 / 100000000 + 1 / 100000 * absQ b)

/-- `np.isclose(a, b, rtol=0, atol=atol)` -/
def isclose (a b atol : Rat) : Bool := decide (absQ (a - b) ≤ atol)

def minQ (a b : Rat) : Rat := if a ≤ b then a else b

/-- the double nearest to `1e-6`, exactly (fixed by the tie theorem against the translated source) -/
def dbl1em6 : Rat := mkRat 4722366482869645 4722366482869645213696

/-- seam tolerance: a millionth of the smaller of the two heights -/
def seamTol (a b : Grid) : Rat := dbl1em6 * minQ (absQ (a.y1 - a.y0)) (absQ (b.y1 - b.y0))

/-- `combine_area_extents_vertical` + `concatenate_area_defs` (same CRS assumed); `none` = IncompatibleAreas -/
def concatAreas (a b : Grid) : Option Grid :=
  if a.w ≠ b.w then none else
  if a.x0 = b.x0 ∧ a.x1 = b.x1 then
    if isclose a.y0 b.y1 (seamTol a b) then some { a with y0 := b.y0, h := a.h + b.h }
    else if isclose a.y1 b.y0 (seamTol a b) then some { a with y1 := b.y1, h := a.h + b.h }
    else none
  else none

/-- the code before the `fix:` commit -/
def concatAreasOld (a b : Grid) : Option Grid :=
  if a.w ≠ b.w then none else
  if a.x0 = b.x0 ∧ a.x1 = b.x1 then
    if iscloseDefault a.y0 b.y1 then some { a with y0 := b.y0, h := a.h + b.h }
    else if iscloseDefault a.y1 b.y0 then some { a with y1 := b.y1, h := a.h + b.h }
    else none
  else none

/-- `StackedAreaDefinition.append` of a plain area -/
def stackAppend (defs : List Grid) (d : Grid) : List Grid :=
  if d.h = 0 then defs else
  match defs.reverse with
  | [] => [d]
  | last :: revInit =>
    match concatAreas last d with
    | some m => revInit.reverse ++ [m]
    | none => defs ++ [d]

def stackAll (ds : List Grid) : List Grid := ds.foldl stackAppend []

/-- `StackedAreaDefinition.get_lonlats(data_slice=None)` at the level of rows: (member index, local row) -/
def stackedRows (defs : List Grid) : List (Nat × Nat) :=
  (defs.zipIdx).flatMap (fun (d, k) => (List.range d.h).map (fun r => (k, r)))

/-! ### driver -/
open Wire

def showGrid (g : Grid) : String :=
  s!"{showRat g.x0} {showRat g.y0} {showRat g.x1} {showRat g.y1} {g.w} {g.h}"

def slice? : List String → Option (PySlice × List String)
  | a :: b :: rest => do
    let a ← optInt? a; let b ← optInt? b
    some ({ start := a, stop := b }, rest)
  | _ => none

/-- parse `k` (yslice, xslice) pairs -/
def slicePairs? : Nat → List String → Option (List (PySlice × PySlice))
  | 0, [] => some []
  | 0, _ => none
  | k + 1, toks => do
    let (ys, t1) ← slice? toks
    let (xs, t2) ← slice? t1
    let rest ← slicePairs? k t2
    some ((ys, xs) :: rest)

def grids? : Nat → List String → Option (List Grid)
  | 0, [] => some []
  | 0, _ => none
  | k + 1, toks => do
    let (g, tl) ← grid? toks
    let rest ← grids? k tl
    some (g :: rest)

def handle : List String → Option String
  | "slice" :: rest => do
    -- slice <grid> <k> (ystart ystop xstart xstop)*  → final area + crop_offset, or err:empty
    let (g, tl) ← grid? rest
    let k ← nat? (← tl.head?)
    let chain ← slicePairs? k tl.tail
    if g.w = 0 ∨ g.h = 0 then some "err:degenerate" else
    let res := chain.foldl (fun (acc : Option Area) p => acc.bind (fun a => sliceArea a p.1 p.2)) (some ⟨g, (0, 0)⟩)
    match res with
    | none => some "err:empty"
    | some a => some (showGrid a.g ++ s!" off {a.off.1} {a.off.2}")
  | "concat" :: rest => do
    let gs ← grids? 2 rest
    match gs with
    | [a, b] => match concatAreas a b with
      | none => some "err:incompatible"
      | some m => some (showGrid m)
    | _ => none
  | "stack" :: k :: rest => do
    let k ← nat? k
    let gs ← grids? k rest
    let out := stackAll gs
    some (" | ".intercalate (toString out.length :: out.map showGrid))
  | _ => none

end PyresampleModel.C10
