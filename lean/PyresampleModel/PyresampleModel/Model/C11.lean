import PyresampleModel.Model.Grid

/-
  C11 — cropping one area around another.
  * same CRS: `_subset._get_slice_starts_stops` (Python `round`, orientation xor, clamps),
    `check_slice_orientation`, `_ensure_integer_slice`
  * different CRS: `AreaSlicer._create_slices_from_bounds` + `expand_slice` on the array-coordinate
    bounds of the (buffered) polygon — the polygon itself (shapely, reprojection) is data
  * swaths: `SwathSlicer._assemble_slices`
-/
namespace PyresampleModel.C11

open Grid

def maxI (a b : Int) : Int := if a ≤ b then b else a
def minI (a b : Int) : Int := if a ≤ b then a else b

/-- one axis of `_get_slice_starts_stops`, x flavour: `u0 = array coordinate of the target's lower-left x`,
`u1 = of its upper-right x`, `flip = (src.x0 > src.x1) xor (llx > urx)` -/
def startStopX (n : Nat) (u0 u1 : Rat) (flip : Bool) : Int × Int :=
  if flip then (maxI 0 (roundHalfEven u1), minI n (roundHalfEven u0 + 1))
  else (maxI 0 (roundHalfEven u0), minI n (roundHalfEven u1 + 1))

/-- y flavour (array rows grow downwards): `v0 = array coordinate of lly`, `v1 = of ury`,
`flip = (src.y0 > src.y1) xor (lly > ury)` -/
def startStopY (n : Nat) (v0 v1 : Rat) (flip : Bool) : Int × Int :=
  if flip then (maxI 0 (roundHalfEven v0), minI n (roundHalfEven v1 + 1))
  else (maxI 0 (roundHalfEven v1), minI n (roundHalfEven v0 + 1))

/-- `get_area_slices` for two areas on the same CRS: (x_start, x_stop, y_start, y_stop) -/
def sameCrsSlices (src : Grid) (llx lly urx ury : Rat) : Int × Int × Int × Int :=
  let fx := (decide (src.x0 > src.x1)) != (decide (llx > urx))
  let fy := (decide (src.y0 > src.y1)) != (decide (lly > ury))
  let sx := startStopX src.w (src.arrX llx) (src.arrX urx) fx
  let sy := startStopY src.h (src.arrY lly) (src.arrY ury) fy
  (sx.1, sx.2, sy.1, sy.2)

/-- `_create_slices_from_bounds` + `expand_slice` on one axis: bounds `lo ≤ hi` in array coordinates -/
def boundsSlice (lo hi : Rat) : Int × Int :=
  let start := pyFloor (if lo < 0 then 0 else lo)
  let stop := pyCeil hi
  (maxI (start - 1) 0, stop + 1)

/-- `_sanitize_polygon_bounds` on one axis of `n` pixels: the bounds `[lo, hi]` (array coordinates, pixel `i` covers
`[i - 1/2, i + 1/2]`) are reported as "no slice on area" -/
def rejectAxis (n : Nat) (lo hi : Rat) : Bool := decide (hi < -(1/2)) || decide (lo > (n : Rat) - 1/2)

/-- the test as it stood before finding F25 was repaired (pixel centres instead of footprints) -/
def rejectAxisOld (n : Nat) (lo hi : Rat) : Bool := decide (hi < 0) || decide (lo ≥ (n : Rat))

/-- `SwathSlicer._assemble_slices` on one axis -/
def assemble (slices : List (Int × Int)) : Option (Int × Int) :=
  match slices with
  | [] => none
  | s :: rest => some (rest.foldl (fun acc t => (minI acc.1 t.1, maxI acc.2 t.2)) s)

/-! ### driver -/
open Wire

def handleReject : List String → Option String
  | ["reject", n, lo, hi] => do
    let n ← nat? n; let lo ← rat? lo; let hi ← rat? hi
    some (showBool (rejectAxis n lo hi))
  | _ => none

def handle0 : List String → Option String
  | "samecrs" :: rest => do
    let (g, tl) ← grid? rest
    match tl with
    | [a, b, c, d] =>
      let a ← rat? a; let b ← rat? b; let c ← rat? c; let d ← rat? d
      if g.w = 0 ∨ g.h = 0 ∨ g.dx = 0 ∨ g.dy = 0 then some "err:degenerate" else
      let r := sameCrsSlices g a b c d
      some s!"{r.1} {r.2.1} {r.2.2.1} {r.2.2.2}"
    | _ => none
  | ["bounds", lo, hi] => do
    let lo ← rat? lo; let hi ← rat? hi
    let r := boundsSlice lo hi
    some s!"{r.1} {r.2}"
  | _ => none

def handle (toks : List String) : Option String :=
  match handleReject toks with
  | some r => some r
  | none => handle0 toks

end PyresampleModel.C11
