import PyresampleModel.Model.Core

/-
  C11 — model (stub: not built yet).
-/
namespace PyresampleModel.C11

def handle : List String → Option String
  | _ => none

end PyresampleModel.C11
