import PyresampleModel.Model.Compact

/-
  C04 — `_resample_with_weights` / `_calculate_uncertainty` for one target location and one
  channel.  A neighbour slot is (contributes?, weight w(d), value); the weights are produced by the
  caller's weight function and enter the model as data.
-/
namespace PyresampleModel.C04

structure Slot where
  live : Bool      -- `index != n_valid` (a real neighbour within the radius)
  w    : Rat       -- `weight_func(distance)`; for dead slots the code evaluates it at distance 1
  x    : Rat       -- `new_data[index]` (for dead slots: `new_data[0]`)
deriving Repr, DecidableEq

/-- the accumulation loop: `weights_tmp = inv_index_mask * weight`, `result += weights_tmp * x`, `norm += weights_tmp` -/
def accum (slots : List Slot) : Rat × Rat :=
  slots.foldl (fun (acc : Rat × Rat) s =>
    let wt := if s.live then s.w else 0
    (acc.1 + wt * s.x, acc.2 + wt)) (0, 0)

/-- `result[norm > 0] /= norm`, else fill (`none`) -/
def weighted (slots : List Slot) : Option Rat :=
  let (res, norm) := accum slots
  if norm > 0 then some (res / norm) else none

/-- `count += inv_index_mask` -/
def count (slots : List Slot) : Nat := (slots.filter (·.live)).length

/-- `_calculate_uncertainty` before the square root: `(v1 / (v1**2 - v2)) * Σ w (x - μ)²`, NaN (`none`) unless count > 1.
The division is not totalised: where `v1**2 - v2 = 0` (at most one contributing neighbour has a non-zero weight) the code divides
by zero and delivers inf or NaN; the model says `none` (undefined) there as well -/
def variance (slots : List Slot) : Option Rat :=
  match weighted slots with
  | none => none
  | some mu =>
    let v1 := (accum slots).2
    let v2 := slots.foldl (fun acc s => acc + (if s.live then s.w else 0) ^ 2) 0
    let ss := slots.foldl (fun acc s =>
      let wt := if s.live then s.w else 0
      let v := if s.live then s.x else 0
      acc + wt * (v - mu) ^ 2) 0
    if count slots > 1 ∧ v1 ^ 2 - v2 ≠ 0 then some (v1 / (v1 ^ 2 - v2) * ss) else none

/-! ### driver -/
open Wire

def showOpt : Option Rat → String
  | none => "nan"
  | some q => showRat q

def handle : List String → Option String
  | "wmean" :: rest => do
    -- wmean <k> live… <k> weight… <k> value…  → result count variance
    let (ls, tl) ← takeList bool? rest
    let (ws, tl) ← takeList rat? tl
    let (xs, tl) ← takeList rat? tl
    if tl ≠ [] ∨ ls.length ≠ ws.length ∨ ws.length ≠ xs.length then none else
    let slots := (ls.zip (ws.zip xs)).map (fun p => Slot.mk p.1 p.2.1 p.2.2)
    some (showOpt (weighted slots) ++ " " ++ toString (count slots) ++ " " ++ showOpt (variance slots))
  | _ => none

end PyresampleModel.C04
