import PyresampleModel.Model.Core

/-
  C04 — model (stub: not built yet).
-/
namespace PyresampleModel.C04

def handle : List String → Option String
  | _ => none

end PyresampleModel.C04
