import PyresampleModel.Model.Core

/-
  Boolean-mask compaction and scatter, as numpy does them:
  `xs[flags]` (compact) and `full[flags] = vals` (scatter).  Shared by C02, C03, C04, C05.
-/
namespace PyresampleModel

/-- `xs[flags]` -/
def compact {α} : List α → List Bool → List α
  | x :: xs, true :: fs => x :: compact xs fs
  | _ :: xs, false :: fs => compact xs fs
  | _, _ => []

/-- `full = np.full(n, fill); full[flags] = vals` -/
def scatter {α} (fill : α) : List Bool → List α → List α
  | [], _ => []
  | true :: fs, v :: vs => v :: scatter fill fs vs
  | true :: fs, [] => fill :: scatter fill fs []
  | false :: fs, vs => fill :: scatter fill fs vs

/-- number of `true` flags strictly before position `j` = position of element `j` in the compacted array -/
def rank (flags : List Bool) (j : Nat) : Nat := (flags.take j).count true

end PyresampleModel
