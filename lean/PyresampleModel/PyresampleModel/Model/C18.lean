import PyresampleModel.Model.Core

/-
  C18 — model (stub: not built yet).
-/
namespace PyresampleModel.C18

def handle : List String → Option String
  | _ => none

end PyresampleModel.C18
