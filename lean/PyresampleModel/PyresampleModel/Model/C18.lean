import PyresampleModel.Model.Grid

/-
  C18 — the five places that assign a projected point to a grid cell, as the code computes them.
  Cells are (row, col).
-/

namespace PyresampleModel.C18

open Grid

def validCell (g : Grid) (r c : Int) : Option (Nat × Nat) :=
  if 0 ≤ c ∧ c < g.w ∧ 0 ≤ r ∧ r < g.h then some (r.toNat, c.toNat) else none

/-- `grid.get_linesample`: `floor(pixel_offset_x + x / pixel_size_x)`, `floor(pixel_offset_y - y / pixel_size_y)` -/
def linesample (g : Grid) (x y : Rat) : Int × Int :=
  (pyFloor (g.offy - y / g.dy), pyFloor (g.offx + x / g.dx))

/-- the same before the `fix:` commit: `.astype(np.int32)` truncates toward zero -/
def linesampleOld (g : Grid) (x y : Rat) : Int × Int :=
  (pyTrunc (g.offy - y / g.dy), pyTrunc (g.offx + x / g.dx))

/-- `get_linesample` + the validity masks of `get_image_from_linesample` -/
def linesampleCell (g : Grid) (x y : Rat) : Option (Nat × Nat) :=
  let p := linesample g x y
  validCell g p.1 p.2

def linesampleOldCell (g : Grid) (x y : Rat) : Option (Nat × Nat) :=
  let p := linesampleOld g x y
  validCell g p.1 p.2

/-- `GridFilter.get_valid_index`: `floor(x / pixel_size_x + pixel_offset_x)`, `floor(pixel_offset_y - y / pixel_size_y)` -/
def gridFilterCell (g : Grid) (x y : Rat) : Option (Nat × Nat) :=
  validCell g (pyFloor (g.offy - y / g.dy)) (pyFloor (x / g.dx + g.offx))

/-- `BucketResampler._get_indices`: `floor((x - extent[0]) / x_res)`, `floor((extent[3] - y) / y_res)`, mask → -1 -/
def bucketIdx (g : Grid) (x y : Rat) : Int × Int :=
  let c := pyFloor ((x - g.x0) / g.dx)
  let r := pyFloor ((g.y1 - y) / g.dy)
  if 0 ≤ c ∧ c < g.w ∧ 0 ≤ r ∧ r < g.h then (r, c) else (-1, -1)

def bucketCell (g : Grid) (x y : Rat) : Option (Nat × Nat) :=
  let p := bucketIdx g x y
  if p.1 < 0 then none else some (p.1.toNat, p.2.toNat)

/-- `AreaDefinition.get_array_indices_from_projection_coordinates` (array form): per-axis (mask, index) -/
def areaIdx (g : Grid) (x y : Rat) : (Bool × Int) × (Bool × Int) :=
  (maskedInt (g.arrY y) g.h, maskedInt (g.arrX x) g.w)

def areaCell (g : Grid) (x y : Rat) : Option (Nat × Nat) :=
  let p := areaIdx g x y
  if p.1.1 || p.2.1 then none else some (p.1.2.toNat, p.2.2.toNat)

/-- `ewa.ll2cr`: `cw = pixel_size_x`, `ch = -pixel_size_y` (signed, since the repair of finding F8), origin at the upper-left pixel centre -/
def ll2crCol (g : Grid) (x : Rat) : Rat := (x - (g.x0 + g.dx / 2)) / g.dx
def ll2crRow (g : Grid) (y : Rat) : Rat :=
  let ch : Rat := -g.dy
  (y - (g.y1 + ch / 2)) / ch

/-- the count predicate of `ll2cr_static` -/
def ll2crInGrid (g : Grid) (x y : Rat) : Bool :=
  let c := ll2crCol g x
  let r := ll2crRow g y
  decide (-1 ≤ c) && decide (c ≤ (g.w : Rat) + 1) && decide (-1 ≤ r) && decide (r ≤ (g.h : Rat) + 1)

/-- `utils._downcast_index_array` on one index: when the axis length fits a uint16, out-of-range
indices are replaced by the marker `size` and the array is cast to uint16 (wrap-around mod 2^16) -/
def downcast (idx : Int) (size : Nat) : Int :=
  if size ≤ 65535 then
    (if idx < 0 ∨ idx ≥ size then (size : Int) else idx) % 65536
  else idx

/-- `generate_quick_linesample_arrays` + `get_image_from_linesample` -/
def quickLinesampleCell (g : Grid) (x y : Rat) : Option (Nat × Nat) :=
  let p := linesample g x y
  validCell g (downcast p.1 g.h) (downcast p.2 g.w)

/-! ### driver -/
open Wire

def showCell : Option (Nat × Nat) → String
  | none => "none"
  | some (r, c) => s!"{r},{c}"

def handle : List String → Option String
  | "cells" :: rest => do
    -- cells <grid: x0 y0 x1 y1 w h> <x> <y>
    let (g, tl) ← grid? rest
    match tl with
    | [x, y] =>
      let x ← rat? x; let y ← rat? y
      if g.w = 0 ∨ g.h = 0 ∨ g.dx = 0 ∨ g.dy = 0 then some "err:degenerate" else
      let ls := linesample g x y
      let a := areaIdx g x y
      let b := bucketIdx g x y
      some (" ".intercalate [
        "ref=" ++ showCell (cellOf g x y),
        s!"ls={ls.1},{ls.2}",
        "lsc=" ++ showCell (linesampleCell g x y),
        s!"qls={downcast ls.1 g.h},{downcast ls.2 g.w}",
        "qlsc=" ++ showCell (quickLinesampleCell g x y),
        "gf=" ++ showCell (gridFilterCell g x y),
        s!"bk={b.1},{b.2}",
        s!"ar={showBool a.1.1},{a.1.2},{showBool a.2.1},{a.2.2}",
        "ll=" ++ showRat (ll2crCol g x) ++ "," ++ showRat (ll2crRow g y),
        "ing=" ++ showBool (ll2crInGrid g x y),
        "fx=" ++ showRat ((x - g.x0) / g.dx) ++ "," ++ showRat ((g.y1 - y) / g.dy)])
    | _ => none
  | _ => none

end PyresampleModel.C18
