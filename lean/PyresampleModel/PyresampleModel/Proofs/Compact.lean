import PyresampleModel.Model.Compact

/- lemmas about `compact`, `scatter`, `rank` (core Lean only) -/
namespace PyresampleModel

theorem compact_length {α} : ∀ (xs : List α) (fs : List Bool), xs.length = fs.length →
    (compact xs fs).length = fs.count true := by
  intro xs
  induction xs with
  | nil => intro fs h; cases fs <;> simp_all [compact]
  | cons x xs ih =>
    intro fs h
    cases fs with
    | nil => simp at h
    | cons f fs =>
      cases f
      · simp [compact, ih fs (by simpa using h)]
      · simp [compact, ih fs (by simpa using h)]

theorem rank_zero (fs : List Bool) : rank fs 0 = 0 := by simp [rank]

theorem rank_succ_cons (f : Bool) (fs : List Bool) (j : Nat) :
    rank (f :: fs) (j + 1) = (if f then 1 else 0) + rank fs j := by
  cases f <;> simp [rank, List.take_succ_cons, List.count_cons] <;> omega

/-- element `j` of the original array sits at position `rank flags j` of the compacted array -/
theorem compact_get_rank {α} : ∀ (xs : List α) (fs : List Bool) (j : Nat), xs.length = fs.length →
    fs[j]? = some true → (compact xs fs)[rank fs j]? = xs[j]? := by
  intro xs
  induction xs with
  | nil => intro fs j h hf; cases fs <;> simp_all
  | cons x xs ih =>
    intro fs j h hf
    cases fs with
    | nil => simp at h
    | cons f fs =>
      cases j with
      | zero =>
        simp at hf; subst hf
        simp [compact, rank_zero]
      | succ k =>
        simp at hf
        rw [rank_succ_cons]
        cases f
        · simp [compact]; exact ih fs k (by simpa using h) hf
        · simp [compact, Nat.add_comm 1]; exact ih fs k (by simpa using h) hf

theorem rank_lt_count : ∀ (fs : List Bool) (j : Nat), fs[j]? = some true → rank fs j < fs.count true := by
  intro fs
  induction fs with
  | nil => intro j h; simp at h
  | cons f fs ih =>
    intro j h
    cases j with
    | zero => simp at h; subst h; simp [rank_zero]
    | succ k =>
      simp at h
      have := ih k h
      rw [rank_succ_cons]
      cases f <;> simp [List.count_cons] <;> omega

theorem scatter_length {α} (fill : α) : ∀ (fs : List Bool) (vs : List α), (scatter fill fs vs).length = fs.length := by
  intro fs
  induction fs with
  | nil => intro vs; simp [scatter]
  | cons f fs ih =>
    intro vs
    cases f
    · simp [scatter, ih]
    · cases vs <;> simp [scatter, ih]

/-- `full[flags] = vals`: unflagged positions hold the fill value, flagged position `j` holds `vals[rank j]` -/
theorem scatter_get {α} (fill : α) : ∀ (fs : List Bool) (vs : List α) (j : Nat), vs.length = fs.count true →
    (fs[j]? = some false → (scatter fill fs vs)[j]? = some fill) ∧
    (fs[j]? = some true → (scatter fill fs vs)[j]? = vs[rank fs j]?) := by
  intro fs
  induction fs with
  | nil => intro vs j _; simp
  | cons f fs ih =>
    intro vs j h
    cases f with
    | false =>
      simp only [List.count_cons] at h
      cases j with
      | zero => simp [scatter]
      | succ k =>
        have := ih vs k (by simpa using h)
        simp only [scatter, List.getElem?_cons_succ, rank_succ_cons]
        simpa using this
    | true =>
      cases vs with
      | nil => simp [List.count_cons] at h
      | cons v vs =>
        cases j with
        | zero => simp [scatter, rank_zero]
        | succ k =>
          have := ih vs k (by simp [List.count_cons] at h; omega)
          simp only [scatter, List.getElem?_cons_succ, rank_succ_cons]
          simpa [Nat.add_comm 1] using this

end PyresampleModel
