import PyresampleModel.Model.Core
import Mathlib.Data.Rat.Floor
import Mathlib.Tactic.Linarith
import Mathlib.Tactic.FieldSimp
import Mathlib.Tactic.Ring
import Mathlib.Tactic.Positivity

/-
  Helper lemmas about the numeric conversions of `Model/Core.lean` (floor / ceil / trunc /
  round-half-even over ℚ).  Imports single Mathlib modules; never imported by `Model/*`.
-/
namespace PyresampleModel

theorem pyFloor_eq (x : Rat) : pyFloor x = ⌊x⌋ := rfl

theorem pyFloor_le (x : Rat) : (pyFloor x : Rat) ≤ x := Int.floor_le x

theorem lt_pyFloor_add_one (x : Rat) : x < (pyFloor x : Rat) + 1 := Int.lt_floor_add_one x

theorem pyFloor_eq_iff (x : Rat) (c : Int) : pyFloor x = c ↔ (c : Rat) ≤ x ∧ x < c + 1 := by
  rw [pyFloor_eq]; exact Int.floor_eq_iff

theorem pyFloor_intCast (c : Int) : pyFloor (c : Rat) = c := by rw [pyFloor_eq]; exact Int.floor_intCast c

theorem pyFloor_nonneg {x : Rat} : 0 ≤ pyFloor x ↔ 0 ≤ x := by rw [pyFloor_eq]; exact Int.floor_nonneg

theorem pyFloor_mono {x y : Rat} (h : x ≤ y) : pyFloor x ≤ pyFloor y := Int.floor_le_floor h

theorem pyCeil_eq (x : Rat) : pyCeil x = ⌈x⌉ := by
  show -⌊-x⌋ = ⌈x⌉
  rw [Int.floor_neg, neg_neg]

theorem le_pyCeil (x : Rat) : x ≤ (pyCeil x : Rat) := by rw [pyCeil_eq]; exact Int.le_ceil x

theorem pyCeil_lt_add_one (x : Rat) : (pyCeil x : Rat) < x + 1 := by rw [pyCeil_eq]; exact Int.ceil_lt_add_one x

theorem pyTrunc_of_nonneg {x : Rat} (h : 0 ≤ x) : pyTrunc x = pyFloor x := by
  simp [pyTrunc, h, pyFloor]

theorem pyTrunc_of_neg {x : Rat} (h : x < 0) : pyTrunc x = pyCeil x := by
  simp [pyTrunc, not_le.mpr h, pyCeil]

/-- truncation sends every value in (-1, 0) to 0 — the root of the first-row / first-column defect -/
theorem pyTrunc_neg_frac {x : Rat} (h1 : -1 < x) (h2 : x < 0) : pyTrunc x = 0 := by
  rw [pyTrunc_of_neg h2, pyCeil_eq, Int.ceil_eq_iff]
  constructor <;> push_cast <;> linarith

theorem roundHalfEven_spec (x : Rat) :
    (roundHalfEven x : Rat) - 1/2 ≤ x ∧ x ≤ (roundHalfEven x : Rat) + 1/2 := by
  have h1 := pyFloor_le x
  have h2 := lt_pyFloor_add_one x
  simp only [pyFloor] at h1 h2
  simp only [roundHalfEven]
  split
  · rename_i h; constructor <;> linarith
  · split
    · rename_i h; push_cast; constructor <;> linarith
    · rename_i ha hb
      have : x - (x.floor : Rat) = 1/2 := le_antisymm (not_lt.mp hb) (not_lt.mp ha)
      split
      · constructor <;> linarith
      · push_cast; constructor <;> linarith

/-- away from the half-way points rounding is "nearest integer" -/
theorem roundHalfEven_eq {x : Rat} {c : Int} (h1 : (c : Rat) - 1/2 < x) (h2 : x < (c : Rat) + 1/2) :
    roundHalfEven x = c := by
  have hs := roundHalfEven_spec x
  have : ((roundHalfEven x : Int) : Rat) < (c : Rat) + 1 := by linarith [hs.1]
  have h3 : roundHalfEven x < c + 1 := by exact_mod_cast this
  have : (c : Rat) - 1 < ((roundHalfEven x : Int) : Rat) := by linarith [hs.2]
  have h4 : c - 1 < roundHalfEven x := by exact_mod_cast this
  omega

end PyresampleModel
