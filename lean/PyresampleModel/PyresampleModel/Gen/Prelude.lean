import PyresampleModel.Model.Core

/-
  Python-semantics helpers used by the GENERATED definitions in `Gen/Src.lean` (see harness/py2lean.py).
  Import-free like the models.
-/
namespace PyresampleModel.Gen

/-- a Python `slice` whose start and stop have type `α`; `step` is `None` or an int -/
structure PySl (α : Type) where
  start : α
  stop  : α
  step  : Option Int
deriving Repr, DecidableEq

/-- a Python `slice` whose three fields have one type (each may be `None`) -/
structure PySl3 (α : Type) where
  start : α
  stop  : α
  step  : α
deriving Repr, DecidableEq

/-- `max(a, b)` / `min(a, b)` of Python numbers -/
def pyMaxI (a b : Int) : Int := if a ≥ b then a else b
def pyMinI (a b : Int) : Int := if a ≤ b then a else b
def pyMaxQ (a b : Rat) : Rat := if a ≥ b then a else b
def pyMinQ (a b : Rat) : Rat := if a ≤ b then a else b
def pyAbsI (a : Int) : Int := if a < 0 then -a else a
def pyAbsQ (a : Rat) : Rat := if a < 0 then -a else a

/-- `l[i]` and `l[:i]` of a Python list, with Python's negative indices; an index out of range (IndexError in Python) reads 0 -/
def pyListGet (l : List Int) (i : Int) : Int :=
  if i < 0 then l.getD (l.length - i.natAbs) 0 else l.getD i.toNat 0
def pyListTake (l : List Int) (i : Int) : List Int :=
  if i < 0 then l.take (l.length - i.natAbs) else l.take i.toNat
def pyListDrop (l : List Int) (i : Int) : List Int :=
  if i < 0 then l.drop (l.length - i.natAbs) else l.drop i.toNat
/-- a slice bound on an axis of length `n`: negative counts from the end, everything clamped into `[0, n]` -/
def pyClampIdx (n : Nat) (i : Int) : Nat := if i < 0 then n - i.natAbs else min i.toNat n
/-- numpy `x[lo:hi] = e` on a 1-D array (`hi = none`: to the end). `none` = ValueError: the shapes differ and `e` is not a
single element (which numpy would broadcast over the slice) -/
def pySliceStore (x : List Int) (lo : Int) (hi : Option Int) (e : List Int) : Option (List Int) :=
  let n := x.length
  let a := pyClampIdx n lo
  let b := match hi with
    | none => n
    | some h => pyClampIdx n h
  let len := b - a
  if e.length = len then some (x.take a ++ e ++ x.drop (a + len))
  else if e.length = 1 then some (x.take a ++ List.replicate len (e.headD 0) ++ x.drop (a + len))
  else none
/-- the same for lists of booleans / floats (per-neighbour masks, weights and values; an index out of range reads False / 0) -/
def pyListGetB (l : List Bool) (i : Int) : Bool :=
  if i < 0 then l.getD (l.length - i.natAbs) false else l.getD i.toNat false
def pyListGetQ (l : List Rat) (i : Int) : Rat :=
  if i < 0 then l.getD (l.length - i.natAbs) 0 else l.getD i.toNat 0
/-- a boolean used as a number (`mask * w`, `count += mask`) -/
def pyB2I (b : Bool) : Int := if b then 1 else 0
def pyB2Q (b : Bool) : Rat := if b then 1 else 0

/-! ### floats that may be NaN (`none`); ±inf is folded into NaN, as in `Model/C06.lean` (every use feeds an
"outside [0, 1]" or `isnan` test that treats both alike) -/
def nLift2 (f : Rat → Rat → Rat) : Option Rat → Option Rat → Option Rat
  | some a, some b => some (f a b)
  | _, _ => none
def nAdd := nLift2 (· + ·)
def nSub := nLift2 (· - ·)
def nMul := nLift2 (· * ·)
def nMax := nLift2 pyMaxQ
/-- division: x / 0 is inf or NaN in numpy -/
def nDiv : Option Rat → Option Rat → Option Rat
  | some a, some b => if b = 0 then none else some (a / b)
  | _, _ => none
def nNeg : Option Rat → Option Rat := Option.map (fun x => -x)
def nAbs : Option Rat → Option Rat := Option.map pyAbsQ
def nBind (x : Option Rat) (f : Rat → Option Rat) : Option Rat := x.bind f
/-- comparisons with NaN are False -/
def nLt : Option Rat → Option Rat → Bool | some a, some b => decide (a < b) | _, _ => false
def nLe : Option Rat → Option Rat → Bool | some a, some b => decide (a ≤ b) | _, _ => false
def nGt : Option Rat → Option Rat → Bool | some a, some b => decide (a > b) | _, _ => false
def nGe : Option Rat → Option Rat → Bool | some a, some b => decide (a ≥ b) | _, _ => false
def nEq : Option Rat → Option Rat → Bool | some a, some b => decide (a = b) | _, _ => false

/-- one element of `np.allclose(a, b)` with numpy's default tolerances: `|a - b| <= atol + rtol * |b|`, `atol = 1e-8`,
`rtol = 1e-5` (as decimals; numpy evaluates the right-hand side in floating point, which is not modelled) -/
def npClose (a b : Rat) : Bool := decide (pyAbsQ (a - b) ≤ 1 / 100000000 + 1 / 100000 * pyAbsQ b)
def npAllclose2 (a b : Rat × Rat) : Bool := npClose a.1 b.1 && npClose a.2 b.2
def npAllclose4 (a b : Rat × Rat × Rat × Rat) : Bool :=
  npClose a.1 b.1 && npClose a.2.1 b.2.1 && npClose a.2.2.1 b.2.2.1 && npClose a.2.2.2 b.2.2.2

end PyresampleModel.Gen
