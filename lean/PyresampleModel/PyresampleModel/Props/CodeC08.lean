import PyresampleModel.Props.C08
import PyresampleModel.Props.TieC08

/-
  C08 — "ll2cr returns the fractional column/row that the target area itself assigns", TRANSFERRED TO THE TRANSLATED
  CODE: with the grid parameters that `ewa.ll2cr` (regenerated from /repo's current source) hands to the compiled kernel,
  the kernel's per-point formula (`ll2crPoint`, checked against the compiled code bit-exactly by the C08 harness) gives
  the area's own array coordinates, in every orientation; pixel centres map to their integer indices.
-/
namespace PyresampleModel.Tie
open PyresampleModel

theorem code_ll2cr_eq_area (a : C08.AreaQ) (x y : Rat) :
    let p := Gen.ewa_ll2cr_params a.psx a.psy a.w a.h (a.x0, a.y0, a.x1, a.y1)
    C08.ll2crPoint (p.1, p.2.1, p.2.2.2.2.1, p.2.2.2.2.2) (some (x, y)) = some (C08.areaCol a x, C08.areaRow a y) ∧
      p.2.2.1 = (a.w : Int) ∧ p.2.2.2.1 = (a.h : Int) := by
  simp only [tie_ewa_ll2cr_params]
  exact ⟨C08.ll2cr_eq_area a x y, trivial, trivial⟩

theorem code_ll2cr_centres (a : C08.AreaQ) (hw : a.psx ≠ 0) (hh : a.psy ≠ 0) (i j : Int) :
    let p := Gen.ewa_ll2cr_params a.psx a.psy a.w a.h (a.x0, a.y0, a.x1, a.y1)
    C08.ll2crPoint (p.1, p.2.1, p.2.2.2.2.1, p.2.2.2.2.2)
      (some (a.x0 + a.psx / 2 + j * a.psx, a.y1 - a.psy / 2 - i * a.psy)) = some ((j : Rat), (i : Rat)) := by
  simp only [tie_ewa_ll2cr_params]
  exact C08.ll2cr_centres a hw hh i j

end PyresampleModel.Tie
