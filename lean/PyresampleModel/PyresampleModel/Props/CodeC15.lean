import PyresampleModel.Props.C15
import PyresampleModel.Props.TieC15

/-
  C15 — statements about the definitions regenerated from /repo's current `Scheduler.__init__` / `Scheduler.__iter__`:
  the stored chunk is ≥ 1 (the hypothesis of every safety theorem of `Props/C15.lean`), and one pass through the
  critical section hands out a non-empty slice that starts at `_start`, fits in what is left, and updates the two
  counters consistently — the single-pass facts from which `Props/C15.lean` derives "disjoint, in range, exact cover"
  for every interleaving of the model's small steps (`critical_steps` links the two).
-/
namespace PyresampleModel.Tie
open PyresampleModel

/-- `self._chunk` as computed by the current `__init__` is at least 1, for every schedule kind, size, worker count and
`chunk` argument (None, 0, negative included) -/
theorem code_scheduler_chunk_pos (k : C15.Kind) (ndata nprocs : Nat) (chunk : Option Int) :
    ∃ c : Nat, Gen.scheduler_init ndata nprocs chunk (kindStr k) = some (c : Int) ∧ 1 ≤ c :=
  ⟨_, tie_scheduler_init k ndata nprocs chunk, C15.initChunk_pos k ndata nprocs (chunk.getD 0)⟩

/-- one pass of the `while True` body of the current `__iter__` (stored chunk ≥ 1): nothing left ⇒ no slice, counters
untouched; otherwise a slice `[start, start + k)` with `1 ≤ k ≤ ndata`, `_ndata` decreases by exactly `k`, and unless this
was the last slice `_start` advances by `k` -/
theorem code_iter_body_spec (c : C15.Cfg) (nd st : Nat) (hc : 1 ≤ c.chunk) :
    let r := Gen.scheduler_iter_body nd st c.nprocs c.chunk (kindStr c.kind)
    (nd = 0 → r = (none, (nd : Int), (st : Int))) ∧
    (nd ≠ 0 → ∃ k : Nat, 1 ≤ k ∧ k ≤ nd ∧ r.1 = some ⟨(st : Int), ((st + k : Nat) : Int), none⟩ ∧
      r.2.1 = ((nd - k : Nat) : Int) ∧ (nd - k ≠ 0 → r.2.2 = ((st + k : Nat) : Int))) := by
  have hpos := C15.aux_chunk_pos c nd hc
  simp only [tie_scheduler_iter_body, critical]
  constructor
  · intro h0; simp [h0]
  · intro h0
    by_cases hgt : C15.chunkOf c nd > nd
    · refine ⟨nd, by omega, le_refl _, ?_⟩
      simp [h0, hgt]
    · refine ⟨C15.chunkOf c nd, hpos, by omega, ?_⟩
      simp [h0, hgt]

end PyresampleModel.Tie
