import PyresampleModel.Props.C15
import PyresampleModel.Props.TieC15
import PyresampleModel.Props.C19

/-
  C15 — statements about the definitions regenerated from /repo's current `Scheduler.__init__` / `Scheduler.__iter__`:
  the stored chunk is ≥ 1 (the hypothesis of every safety theorem of `Props/C15.lean`), and one pass through the
  critical section hands out a non-empty slice that starts at `_start`, fits in what is left, and updates the two
  counters consistently — the single-pass facts from which `Props/C15.lean` derives "disjoint, in range, exact cover"
  for every interleaving of the model's small steps (`critical_steps` links the two).
-/
namespace PyresampleModel.Tie
open PyresampleModel

/-- `self._chunk` as computed by the current `__init__` is at least 1, for every schedule kind, size, worker count and
`chunk` argument (None, 0, negative included) -/
theorem code_scheduler_chunk_pos (k : C15.Kind) (ndata nprocs : Nat) (chunk : Option Int) :
    ∃ c : Nat, Gen.scheduler_init ndata nprocs chunk (kindStr k) = some (c : Int) ∧ 1 ≤ c :=
  ⟨_, tie_scheduler_init k ndata nprocs chunk, C15.initChunk_pos k ndata nprocs (chunk.getD 0)⟩

/-- one pass of the `while True` body of the current `__iter__` (stored chunk ≥ 1): nothing left ⇒ no slice, counters
untouched; otherwise a slice `[start, start + k)` with `1 ≤ k ≤ ndata`, `_ndata` decreases by exactly `k`, and unless this
was the last slice `_start` advances by `k` -/
theorem code_iter_body_spec (c : C15.Cfg) (nd st : Nat) (hc : 1 ≤ c.chunk) :
    let r := Gen.scheduler_iter_body nd st c.nprocs c.chunk (kindStr c.kind)
    (nd = 0 → r = (none, (nd : Int), (st : Int))) ∧
    (nd ≠ 0 → ∃ k : Nat, 1 ≤ k ∧ k ≤ nd ∧ r.1 = some ⟨(st : Int), ((st + k : Nat) : Int), none⟩ ∧
      r.2.1 = ((nd - k : Nat) : Int) ∧ (nd - k ≠ 0 → r.2.2 = ((st + k : Nat) : Int))) := by
  have hpos := C15.aux_chunk_pos c nd hc
  simp only [tie_scheduler_iter_body, critical]
  constructor
  · intro h0; simp [h0]
  · intro h0
    by_cases hgt : C15.chunkOf c nd > nd
    · refine ⟨nd, by omega, le_refl _, ?_⟩
      simp [h0, hgt]
    · refine ⟨C15.chunkOf c nd, hpos, by omega, ?_⟩
      simp [h0, hgt]

/-! ### the loop run to exhaustion by one worker, on the translated code itself -/

/-- the slices one worker gets when it runs the (translated) loop body of `Scheduler.__iter__` to exhaustion, alone:
`fuel` passes at most; state = (`_ndata`, `_start`) -/
def iterGen (c : C15.Cfg) : Nat → Int → Int → List (Int × Int)
  | 0, _, _ => []
  | fuel + 1, nd, st =>
    match Gen.scheduler_iter_body nd st c.nprocs c.chunk (kindStr c.kind) with
    | (some s, nd', st') => (s.start, s.stop) :: iterGen c fuel nd' st'
    | (none, _, _) => []

theorem iterGen_chain (c : C15.Cfg) (hc : 1 ≤ c.chunk) :
    ∀ (fuel nd st : Nat), nd ≤ fuel →
      ∃ l : List (Nat × Nat), iterGen c (fuel + 1) nd st = l.map (fun p => ((p.1 : Int), (p.2 : Int))) ∧
        C19.Chain st (st + nd) l := by
  intro fuel
  induction fuel with
  | zero =>
    intro nd st h
    have : nd = 0 := by omega
    subst this
    have s : Gen.scheduler_iter_body ((0 : Nat) : Int) (st : Int) c.nprocs c.chunk (kindStr c.kind) =
        (none, ((0 : Nat) : Int), (st : Int)) := (code_iter_body_spec c 0 st hc).1 rfl
    refine ⟨[], ?_, by simp [C19.Chain]⟩
    simp only [iterGen]
    rw [s]; rfl
  | succ f ih =>
    intro nd st h
    by_cases h0 : nd = 0
    · subst h0
      have s : Gen.scheduler_iter_body ((0 : Nat) : Int) (st : Int) c.nprocs c.chunk (kindStr c.kind) =
          (none, ((0 : Nat) : Int), (st : Int)) := (code_iter_body_spec c 0 st hc).1 rfl
      refine ⟨[], ?_, by simp [C19.Chain]⟩
      simp only [iterGen]
      rw [s]; rfl
    · obtain ⟨k, hk1, hk2, e1, e2, e3⟩ := (code_iter_body_spec c nd st hc).2 h0
      by_cases hlast : nd - k = 0
      · -- last slice: the next pass finds nothing left
        refine ⟨[(st, st + k)], ?_, ?_⟩
        · rw [iterGen]
          generalize hr : Gen.scheduler_iter_body nd st c.nprocs c.chunk (kindStr c.kind) = r at e1 e2 e3
          obtain ⟨r1, r2, r3⟩ := r
          simp only at e1 e2 e3
          subst e1
          simp only [List.map_cons, List.map_nil]
          rw [e2, hlast]
          -- whatever `_start` is now, nothing is left
          have s0 : Gen.scheduler_iter_body 0 r3 c.nprocs c.chunk (kindStr c.kind) = (none, 0, r3) := by
            simp [Gen.scheduler_iter_body]
          simp only [Nat.cast_zero]
          rw [iterGen, s0]
        · have : st + nd = st + k := by omega
          simp [C19.Chain, this]; omega
      · have e3' := e3 hlast
        obtain ⟨l, hl1, hl2⟩ := ih (nd - k) (st + k) (by omega)
        refine ⟨(st, st + k) :: l, ?_, ?_⟩
        · rw [iterGen]
          generalize hr : Gen.scheduler_iter_body nd st c.nprocs c.chunk (kindStr c.kind) = r at e1 e2 e3'
          obtain ⟨r1, r2, r3⟩ := r
          simp only at e1 e2 e3'
          subst e1
          simp only [List.map_cons]
          rw [e2, e3', hl1]
        · have : st + k + (nd - k) = st + nd := by omega
          rw [this] at hl2
          exact ⟨rfl, by omega, hl2⟩


/-- **a single worker running the translated `__iter__` body until nothing is left receives consecutive, non-empty slices that
cover `[0, n)` exactly** — for every n, worker count, schedule kind and stored chunk ≥ 1; `n + 1` passes always suffice.
(The same statement for arbitrary interleavings of several workers is `scheduler_exact_cover` of `Props/C15.lean`, about the
small-step model that `critical_steps` connects to this loop body.) -/
theorem code_iter_sequential_partition (c : C15.Cfg) (hc : 1 ≤ c.chunk) (n : Nat) :
    ∃ l : List (Nat × Nat), iterGen c (n + 1) n 0 = l.map (fun p => ((p.1 : Int), (p.2 : Int))) ∧ C19.Chain 0 n l := by
  obtain ⟨l, h1, h2⟩ := iterGen_chain c hc n n 0 (Nat.le_refl _)
  exact ⟨l, by simpa using h1, by simpa using h2⟩

end PyresampleModel.Tie
