import PyresampleModel.Model.C19

/-
  C19 — property theorems (all quantifiers unbounded).  Helper lemmas are `private`/prefixed `aux_`.
-/
namespace PyresampleModel.C19

/-- consecutive non-empty half-open intervals from `a` to `b` -/
def Chain : Nat → Nat → List (Nat × Nat) → Prop
  | a, b, [] => a = b
  | a, b, (s, e) :: rest => s = a ∧ a < e ∧ Chain e b rest

/-- consecutive, possibly empty, half-open intervals from `a` to `b` -/
def ChainLe : Nat → Nat → List (Nat × Nat) → Prop
  | a, b, [] => a = b
  | a, b, (s, e) :: rest => s = a ∧ a ≤ e ∧ ChainLe e b rest

/-! ### `_get_slice` -/

theorem aux_loop_chain (size len : Nat) (hl : 0 < len) :
    ∀ fuel start stop, start ≤ size → stop = min (start + len) size → size - start < fuel →
      Chain start size (getSliceLoop size len fuel start stop) := by
  intro fuel
  induction fuel with
  | zero => intro _ _ _ _ h; omega
  | succ n ih =>
    intro start stop hs hst hf
    unfold getSliceLoop
    by_cases h : start < size
    · simp only [h, if_true]
      refine ⟨rfl, by omega, ?_⟩
      apply ih <;> omega
    · simp only [h, if_false]
      show start = size
      omega

theorem aux_ceilDiv_le (size seg : Nat) (hseg : 1 ≤ seg) : ceilDiv size seg ≤ size := by
  unfold ceilDiv
  rcases Nat.eq_zero_or_pos size with h | h
  · subst h
    have : (0 + seg - 1) / seg = 0 := Nat.div_eq_of_lt (by omega)
    omega
  · calc (size + seg - 1) / seg ≤ (size * seg) / seg := by
          apply Nat.div_le_div_right
          have : size * seg ≥ size + seg - 1 := by
            have h1 : size * seg = (size - 1) * seg + seg := by
              have : size = (size - 1) + 1 := by omega
              conv => lhs; rw [this, Nat.add_mul, Nat.one_mul]
            have h2 : (size - 1) * seg ≥ (size - 1) * 1 := Nat.mul_le_mul_left _ hseg
            omega
          omega
      _ = size := Nat.mul_div_cancel _ (by omega)

theorem aux_ceilDiv_pos (size seg : Nat) (hsize : 0 < size) (hseg : 1 ≤ seg) : 0 < ceilDiv size seg := by
  unfold ceilDiv
  apply Nat.div_pos <;> omega

/-- **row segments**: for every size and every segment count ≥ 1 the slices are consecutive,
non-empty and cover `[0, size)` exactly. -/
theorem getSlice_partition (segments size : Nat) (hseg : 1 ≤ segments) :
    Chain 0 size (getSlice segments size) := by
  unfold getSlice
  rcases Nat.eq_zero_or_pos size with h | h
  · subst h
    simp [getSliceLoop, Chain]
  · have hl := aux_ceilDiv_pos size segments h hseg
    have hle := aux_ceilDiv_le size segments hseg
    apply aux_loop_chain size _ hl <;> omega

theorem aux_loop_length (size len : Nat) (hl : 0 < len) :
    ∀ fuel start stop, start ≤ size → stop = min (start + len) size →
      (getSliceLoop size len fuel start stop).length * len ≤ (size - start) + len - 1 := by
  intro fuel
  induction fuel with
  | zero => intro _ _ _ _; simp [getSliceLoop]
  | succ n ih =>
    intro start stop hs hst
    unfold getSliceLoop
    by_cases h : start < size
    · simp only [h, if_true, List.length_cons, Nat.succ_mul]
      have := ih stop (min (stop + len) size) (by omega) rfl
      by_cases h2 : start + len ≤ size
      · have : stop = start + len := by omega
        omega
      · have hstop : stop = size := by omega
        have hlt : (getSliceLoop size len n stop (min (stop + len) size)).length * len < len := by omega
        have hz : (getSliceLoop size len n stop (min (stop + len) size)).length = 0 := by
          rcases Nat.eq_zero_or_pos (getSliceLoop size len n stop (min (stop + len) size)).length with h0 | h0
          · exact h0
          · have := Nat.mul_le_mul_right len h0
            omega
        rw [hz]; omega
    · simp [h]

theorem aux_le_mul_ceilDiv (a b : Nat) (hb : 0 < b) : a ≤ b * ceilDiv a b := by
  unfold ceilDiv
  have h1 := Nat.div_add_mod (a + b - 1) b
  have h2 := Nat.mod_lt (a + b - 1) hb
  omega

/-- no more slices than requested segments -/
theorem getSlice_length_le (segments size : Nat) (hseg : 1 ≤ segments) :
    (getSlice segments size).length ≤ segments := by
  unfold getSlice
  rcases Nat.eq_zero_or_pos size with h | h
  · subst h; simp [getSliceLoop]
  · have hl := aux_ceilDiv_pos size segments h hseg
    have hb := aux_loop_length size (ceilDiv size segments) hl (size + 1) 0 (ceilDiv size segments)
      (by omega) (by have := aux_ceilDiv_le size segments hseg; omega)
    have hm := aux_le_mul_ceilDiv size segments (by omega)
    -- length * L ≤ size + L - 1 ≤ segments * L + L - 1  ⇒ length ≤ segments
    apply Nat.le_of_not_lt
    intro hgt
    have : (segments + 1) * ceilDiv size segments ≤
        (getSliceLoop size (ceilDiv size segments) (size + 1) 0 (ceilDiv size segments)).length * ceilDiv size segments :=
      Nat.mul_le_mul_right _ hgt
    rw [Nat.succ_mul] at this
    omega

/-! ### `RowAppendableArray` -/

/-- representation invariant: the first `cursor` cells of the (possibly not yet allocated)
buffer hold exactly what was appended so far. -/
def RowApp.Inv {α} (s : RowApp α) (sofar : List α) : Prop :=
  s.cursor = sofar.length ∧ s.cursor ≤ s.buf.length ∧ s.buf.take s.cursor = sofar.map some

theorem aux_buf_mk {α} (c : Nat) (d : List (Option α)) (k : Nat) :
    (RowApp.mk c (some d) k : RowApp α).buf = d := rfl

theorem aux_append_overflow {α} (s : RowApp α) (next : List α)
    (h : s.cursor + next.length > s.buf.length) :
    s.appendRow next = { s with
      data := some (s.buf.take s.cursor ++ (next.take (s.buf.length - s.cursor)).map some ++
        (next.drop (s.buf.length - s.cursor)).map some),
      cursor := s.cursor + next.length } := by
  simp [RowApp.appendRow, h]

theorem aux_append_fit {α} (s : RowApp α) (next : List α)
    (h : ¬ s.cursor + next.length > s.buf.length) :
    s.appendRow next = { s with
      data := some (s.buf.take s.cursor ++ next.map some ++ s.buf.drop (s.cursor + next.length)),
      cursor := s.cursor + next.length } := by
  simp [RowApp.appendRow, h]

theorem aux_append_data {α} (s : RowApp α) (next : List α) :
    ∃ d, (s.appendRow next).data = some d := by
  by_cases hov : s.cursor + next.length > s.buf.length
  · rw [aux_append_overflow s next hov]; exact ⟨_, rfl⟩
  · rw [aux_append_fit s next hov]; exact ⟨_, rfl⟩

theorem aux_append_inv {α} (s : RowApp α) (sofar next : List α) (h : s.Inv sofar) :
    (s.appendRow next).Inv (sofar ++ next) := by
  obtain ⟨hc, hle, htake⟩ := h
  unfold RowApp.Inv
  by_cases hov : s.cursor + next.length > s.buf.length
  · rw [aux_append_overflow s next hov]
    simp only [aux_buf_mk]
    refine ⟨by simp [hc], ?_, ?_⟩
    · simp [List.length_take]; omega
    · simp only [htake]
      have hlen : (List.map some sofar ++ List.map some (List.take (s.buf.length - s.cursor) next) ++
          List.map some (List.drop (s.buf.length - s.cursor) next)).length = s.cursor + next.length := by
        simp [hc]
      rw [List.take_of_length_le (by omega)]
      rw [List.append_assoc, ← List.map_append, List.take_append_drop, List.map_append]
  · rw [aux_append_fit s next hov]
    simp only [aux_buf_mk]
    refine ⟨by simp [hc], ?_, ?_⟩
    · simp [List.length_take]; omega
    · simp only [htake]
      rw [List.take_append_of_le_length (by simp [hc])]
      rw [List.take_of_length_le (by simp [hc])]
      simp

theorem aux_foldl_inv {α} (rows : List (List α)) :
    ∀ (s : RowApp α) (sofar : List α), s.Inv sofar →
      (rows.foldl RowApp.appendRow s).Inv (sofar ++ rows.flatten) := by
  induction rows with
  | nil => intro s sofar h; simpa using h
  | cons r rs ih =>
    intro s sofar h
    simp only [List.foldl_cons, List.flatten_cons, ← List.append_assoc]
    exact ih _ _ (aux_append_inv s sofar r h)

theorem aux_foldl_data {α} (rows : List (List α)) :
    ∀ (s : RowApp α), (∃ d, s.data = some d) → ∃ d, (rows.foldl RowApp.appendRow s).data = some d := by
  induction rows with
  | nil => intro s h; simpa using h
  | cons r rs ih => intro s _; exact ih _ (aux_append_data s r)

/-- **RowAppendableArray**: for every reserved capacity and every non-empty sequence of appended
rows (within or beyond the capacity), `to_array()` is the concatenation of the rows, and no
uninitialised buffer cell is exposed. -/
theorem append_eq_concat {α} (cap : Nat) (rows : List (List α)) (hne : rows ≠ []) :
    (rows.foldl RowApp.appendRow (RowApp.new cap)).toArray = some (rows.flatten.map some) := by
  have hinit : (RowApp.new cap : RowApp α).Inv [] := by
    simp [RowApp.Inv, RowApp.new]
  have h := aux_foldl_inv rows (RowApp.new cap) [] hinit
  simp only [List.nil_append] at h
  obtain ⟨hc, hle, ht⟩ := h
  cases rows with
  | nil => exact absurd rfl hne
  | cons r rs =>
    obtain ⟨d, hd⟩ := aux_foldl_data rs ((RowApp.new cap : RowApp α).appendRow r) (aux_append_data _ r)
    simp only [List.foldl_cons] at hc hle ht ⊢
    simp only [RowApp.buf, hd] at ht
    simp [RowApp.toArray, hd, ht]

/-- the cursor never passes the end of the buffer (so `remaining` in the code is never negative) -/
theorem cursor_le_buffer {α} (cap : Nat) (rows : List (List α)) :
    (rows.foldl RowApp.appendRow (RowApp.new cap : RowApp α)).cursor ≤
      (rows.foldl RowApp.appendRow (RowApp.new cap : RowApp α)).buf.length := by
  have hinit : (RowApp.new cap : RowApp α).Inv [] := by
    simp [RowApp.Inv, RowApp.new]
  exact (aux_foldl_inv rows (RowApp.new cap) [] hinit).2.1

example : ([[1, 2], [3, 4, 5]].foldl RowApp.appendRow (RowApp.new 3)).toArray
    = some [some 1, some 2, some 3, some 4, some 5] := by decide

/-! ### `_make_slice_divisible` -/

/-- smallest multiple of `factor` that is ≥ the slice length -/
def nextMultiple (len factor : Int) : Int :=
  if len % factor = 0 then len else len + (factor - len % factor)

/-- **divisibility contract** (for the code after the `fix:` commit): for every non-empty in-bounds
slice and every factor ≥ 1 the result is in bounds; it is non-empty with a length divisible by
the factor whenever the axis is at least one factor long; and it still covers the original slice
whenever the axis has room for the next multiple of the length. -/
theorem divisible_contract (start stop maxSize factor : Int)
    (h0 : 0 ≤ start) (h1 : start < stop) (h2 : stop ≤ maxSize) (hf : 1 ≤ factor) :
    let r := makeSliceDivisible start stop maxSize factor
    (0 ≤ r.1 ∧ r.1 ≤ r.2 ∧ r.2 ≤ maxSize) ∧
    (factor ≤ maxSize → r.1 < r.2 ∧ (r.2 - r.1) % factor = 0) ∧
    (nextMultiple (stop - start) factor ≤ maxSize → r.1 ≤ start ∧ stop ≤ r.2) := by
  have hfpos : 0 < factor := by omega
  have hdm := Int.mul_ediv_add_emod (stop - start) factor   -- f * q + rem = len
  have hr0 := Int.emod_nonneg (stop - start) (by omega : factor ≠ 0)
  have hr1 := Int.emod_lt_of_pos (stop - start) hfpos
  generalize hq : (stop - start) / factor = q at hdm
  generalize hrem : (stop - start) % factor = rem at hdm hr0 hr1
  have hq0 : 0 ≤ q := by
    rw [← hq]; exact Int.ediv_nonneg (by omega) (by omega)
  have hmulq : 0 ≤ factor * q := Int.mul_nonneg (by omega) hq0
  simp only [makeSliceDivisible, nextMultiple, hrem]
  by_cases hz : rem = 0
  · -- already divisible
    simp only [hz, ne_eq, not_true_eq_false, if_false, if_true]
    refine ⟨by (refine ⟨?_, ?_, ?_⟩ <;> first | trivial | omega), fun _ => ⟨by omega, ?_⟩, fun _ => by omega⟩
    rw [hrem, hz]
  · simp only [hz, ne_eq, not_false_eq_true, if_true, if_false]
    by_cases c1 : stop + (factor - rem) ≤ maxSize
    · simp only [c1, if_true]
      refine ⟨by (refine ⟨?_, ?_, ?_⟩ <;> first | trivial | omega), fun _ => ⟨by omega, ?_⟩, fun _ => by omega⟩
      have : stop + (factor - rem) - start = factor * (q + 1) := by rw [Int.mul_add]; omega
      rw [this]; exact Int.mul_emod_right _ _
    · simp only [c1, if_false]
      by_cases c2 : start - (factor - rem) ≥ 0
      · simp only [c2, if_true]
        refine ⟨by (refine ⟨?_, ?_, ?_⟩ <;> first | trivial | omega), fun _ => ⟨by omega, ?_⟩, fun _ => by omega⟩
        have : stop - (start - (factor - rem)) = factor * (q + 1) := by rw [Int.mul_add]; omega
        rw [this]; exact Int.mul_emod_right _ _
      · simp only [c2, if_false]
        by_cases c3 : maxSize - (stop - start) ≥ factor - rem
        · simp only [c3, if_true]
          refine ⟨by (refine ⟨?_, ?_, ?_⟩ <;> first | trivial | omega), fun _ => ⟨by omega, ?_⟩, fun _ => by omega⟩
          have : stop + (factor - rem - start) - 0 = factor * (q + 1) := by rw [Int.mul_add]; omega
          rw [this]; exact Int.mul_emod_right _ _
        · simp only [c3, if_false]
          refine ⟨by (refine ⟨?_, ?_, ?_⟩ <;> first | trivial | omega), fun hmax => ⟨?_, ?_⟩, fun _ => by omega⟩
          · -- factor ≤ maxSize < factor*(q+1) ⇒ q ≥ 1 ⇒ factor*q ≥ factor > 0
            have hq1 : 1 ≤ q := by
              rcases Int.lt_or_le q 1 with hlt | hge
              · exfalso
                have : q = 0 := by omega
                subst this; simp at hdm; omega
              · exact hge
            have : factor * 1 ≤ factor * q := Int.mul_le_mul_of_nonneg_left hq1 (by omega)
            omega
          · have : stop - rem - start = factor * q := by omega
            rw [this]; exact Int.mul_emod_right _ _

/-- the code before the fix violates the contract (kept as a checked counter-witness):
`_make_slice_divisible(slice(2, 13), 15, 10)` was `slice(-7, 13)`. -/
example : makeSliceDivisibleOld 2 13 15 10 = (-7, 13) := by decide
example : makeSliceDivisibleOld 0 3 5 2 = (0, 2) := by decide
example : makeSliceDivisible 2 13 15 10 = (2, 12) := by decide
example : makeSliceDivisible 0 3 5 2 = (0, 4) := by decide

/-! ### `_enumerate_chunk_slices` -/

/-- per axis the slices are consecutive from the offset and end at offset + Σ chunks -/
theorem axisSlices_chain (cs : List Nat) : ∀ off, ChainLe off (off + cs.sum) (axisSlices cs off) := by
  induction cs with
  | nil => intro off; simp [axisSlices, ChainLe]
  | cons c cs ih =>
    intro off
    simp only [axisSlices, ChainLe, List.sum_cons]
    refine ⟨trivial, by omega, ?_⟩
    have := ih (off + c)
    rwa [Nat.add_assoc] at this

theorem aux_axisSlices_length (cs : List Nat) : ∀ off, (axisSlices cs off).length = cs.length := by
  induction cs with
  | nil => intro; rfl
  | cons c cs ih => intro off; simp [axisSlices, ih]

/-- the slice of chunk `p` on an axis: offset = sum of the preceding chunks, length = the chunk -/
theorem axisSlices_get (cs : List Nat) : ∀ off p, p < cs.length →
    (axisSlices cs off)[p]? = some (off + (cs.take p).sum, off + (cs.take p).sum + cs[p]!) := by
  induction cs with
  | nil => intro off p h; simp at h
  | cons c cs ih =>
    intro off p h
    cases p with
    | zero => simp [axisSlices]
    | succ p =>
      simp only [axisSlices, List.getElem?_cons_succ, List.take_succ_cons, List.sum_cons]
      rw [ih (off + c) p (by simpa using h)]
      simp [Nat.add_assoc]

/-- which (position, slices) pairs are produced: one position index per axis, each paired with
that axis' slice at that index -/
def Sel : List (List Nat) → List Nat → List (Nat × Nat) → Prop
  | [], [], [] => True
  | ax :: rest, p :: ps, s :: ss => (axisSlices ax 0)[p]? = some s ∧ Sel rest ps ss
  | _, _, _ => False

theorem aux_axisEnum_mem (ax : List Nat) (p : Nat) (s : Nat × Nat) :
    (p, s) ∈ axisEnum ax ↔ (axisSlices ax 0)[p]? = some s := by
  unfold axisEnum
  rw [List.mem_iff_getElem?]
  constructor
  · rintro ⟨i, hi⟩
    rw [List.getElem?_zip_eq_some] at hi
    obtain ⟨h1, h2⟩ := hi
    rw [List.getElem?_range] at h1
    · simp at h1; subst h1; exact h2
    · have := (List.getElem?_eq_some_iff.mp h2).1
      rwa [aux_axisSlices_length] at this
  · intro h
    refine ⟨p, ?_⟩
    rw [List.getElem?_zip_eq_some]
    have hp : p < ax.length := by
      have := (List.getElem?_eq_some_iff.mp h).1
      rwa [aux_axisSlices_length] at this
    exact ⟨by rw [List.getElem?_range hp], h⟩

/-- **chunk-slice enumeration**: exactly the position/slice pairs selected axis by axis -/
theorem enumerate_mem_iff (chunks : List (List Nat)) : ∀ ps ss,
    (ps, ss) ∈ enumerateChunkSlices chunks ↔ Sel chunks ps ss := by
  induction chunks with
  | nil =>
    intro ps ss
    cases ps <;> cases ss <;> simp [enumerateChunkSlices, Sel]
  | cons ax rest ih =>
    intro ps ss
    simp only [enumerateChunkSlices, List.mem_flatMap, List.mem_map, Prod.exists, Prod.mk.injEq]
    constructor
    · rintro ⟨p, s1, s2, hmem, ps', ss', hrest, hps, hss⟩
      subst hps hss
      exact ⟨(aux_axisEnum_mem ax p (s1, s2)).mp hmem, (ih ps' ss').mp hrest⟩
    · intro h
      cases ps with
      | nil => cases ss <;> simp [Sel] at h
      | cons p ps' =>
        cases ss with
        | nil => simp [Sel] at h
        | cons s ss' =>
          obtain ⟨h1, h2⟩ := h
          exact ⟨p, s.1, s.2, (aux_axisEnum_mem ax p s).mpr h1, ps', ss', (ih ps' ss').mpr h2, rfl, rfl⟩

/-- as many entries as there are chunk positions (product of the per-axis chunk counts) -/
theorem enumerate_length (chunks : List (List Nat)) :
    (enumerateChunkSlices chunks).length = (chunks.map List.length).foldr (· * ·) 1 := by
  induction chunks with
  | nil => rfl
  | cons ax rest ih =>
    simp only [enumerateChunkSlices, List.map_cons, List.foldr_cons]
    rw [List.length_flatMap]
    simp only [List.length_map, ih]
    have : (axisEnum ax).length = ax.length := by simp [axisEnum, aux_axisSlices_length]
    rw [← this]
    generalize (axisEnum ax) = l
    induction l with
    | nil => simp
    | cons x xs ihx => simp [List.sum_cons, ihx, Nat.succ_mul, Nat.add_comm]

example : enumerateChunkSlices [[3, 4], [1, 2]] =
    [([0, 0], [(0, 3), (0, 1)]), ([0, 1], [(0, 3), (1, 3)]),
     ([1, 0], [(3, 7), (0, 1)]), ([1, 1], [(3, 7), (1, 3)])] := by decide

/-! ### `_merge_unions` -/

theorem aux_extractFirst_some {β} (p : β → Bool) : ∀ (l : List β) (y : β) (r : List β),
    extractFirst p l = some (y, r) → l.Perm (y :: r) ∧ p y = true := by
  intro l
  induction l with
  | nil => intro y r h; simp [extractFirst] at h
  | cons x xs ih =>
    intro y r h
    unfold extractFirst at h
    by_cases hp : p x = true
    · simp only [hp, if_true, Option.some.injEq, Prod.mk.injEq] at h
      obtain ⟨rfl, rfl⟩ := h
      exact ⟨List.Perm.refl _, hp⟩
    · simp only [hp, Bool.false_eq_true, if_false] at h
      split at h
      · simp at h
      · rename_i z zs hx
        simp only [Option.some.injEq, Prod.mk.injEq] at h
        obtain ⟨h1, h2⟩ := h
        subst h1 h2
        obtain ⟨hperm, hpz⟩ := ih z zs hx
        exact ⟨(List.Perm.cons x hperm).trans (List.Perm.swap z x zs), hpz⟩

theorem aux_extractFirst_none {β} (p : β → Bool) : ∀ (l : List β),
    extractFirst p l = none → ∀ y ∈ l, p y = false := by
  intro l
  induction l with
  | nil => intro _ y hy; simp at hy
  | cons x xs ih =>
    intro h y hy
    unfold extractFirst at h
    by_cases hp : p x = true
    · simp [hp] at h
    · simp only [hp] at h
      cases hx : extractFirst p xs with
      | none =>
        rcases List.mem_cons.mp hy with rfl | hmem
        · simpa using hp
        · exact ih hx y hmem
      | some zr => obtain ⟨z, zs⟩ := zr; simp [hx] at h

theorem aux_extractPair_some {α} (ov : α → α → Bool) : ∀ (g : List (Key × α)) a b r,
    extractPair ov g = some (a, b, r) → g.Perm (a :: b :: r) ∧ ov a.2 b.2 = true := by
  intro g
  induction g with
  | nil => intro a b r h; simp [extractPair] at h
  | cons x rest ih =>
    intro a b r h
    unfold extractPair at h
    cases hf : extractFirst (fun y => ov x.2 y.2) rest with
    | some yr =>
      obtain ⟨y, rest'⟩ := yr
      simp only [hf, Option.some.injEq, Prod.mk.injEq] at h
      obtain ⟨rfl, rfl, rfl⟩ := h
      obtain ⟨hperm, hov⟩ := aux_extractFirst_some _ rest _ _ hf
      exact ⟨List.Perm.cons _ hperm, hov⟩
    | none =>
      simp only [hf] at h
      cases hp : extractPair ov rest with
      | none => simp [hp] at h
      | some abr =>
        obtain ⟨a', b', r'⟩ := abr
        simp only [hp, Option.some.injEq, Prod.mk.injEq] at h
        obtain ⟨rfl, rfl, rfl⟩ := h
        obtain ⟨hperm, hov⟩ := ih _ _ _ hp
        refine ⟨?_, hov⟩
        -- x :: rest ~ x :: a :: b :: r ~ a :: b :: x :: r
        refine (List.Perm.cons x hperm).trans ?_
        exact (List.Perm.swap a' x _).trans (List.Perm.cons a' (List.Perm.swap b' x _))

theorem aux_extractPair_none {α} (ov : α → α → Bool) : ∀ (g : List (Key × α)),
    extractPair ov g = none → g.Pairwise (fun x y => ov x.2 y.2 = false) := by
  intro g
  induction g with
  | nil => intro _; exact List.Pairwise.nil
  | cons x rest ih =>
    intro h
    unfold extractPair at h
    cases hf : extractFirst (fun y => ov x.2 y.2) rest with
    | some yr => obtain ⟨y, rest'⟩ := yr; simp [hf] at h
    | none =>
      simp only [hf] at h
      cases hp : extractPair ov rest with
      | some abr => obtain ⟨a', b', r'⟩ := abr; simp [hp] at h
      | none =>
        exact List.Pairwise.cons (fun y hy => aux_extractFirst_none _ rest hf y hy) (ih hp)

/-- value denoted by a key: the union, in tree order, of the inputs it names -/
def evalKey {α} (inputs : List α) (un : α → α → α) : Key → Option α
  | .leaf i => inputs[i]?
  | .node a b =>
    match evalKey inputs un a, evalKey inputs un b with
    | some x, some y => some (un x y)
    | _, _ => none

/-- all input ids named by the entries, in dict order -/
def allIds {α} (g : List (Key × α)) : List Nat := g.flatMap (fun e => e.1.flatten)

theorem aux_allIds_perm {α} {g g' : List (Key × α)} (h : g.Perm g') : (allIds g).Perm (allIds g') :=
  List.Perm.flatMap_right _ h

/-- the loop invariant: ids are conserved, every value is the union of the inputs its key names -/
def MergeInv {α} (inputs : List α) (un : α → α → α) (g : List (Key × α)) : Prop :=
  (allIds g).Perm (List.range inputs.length) ∧ ∀ e ∈ g, evalKey inputs un e.1 = some e.2

theorem aux_step_inv {α} (inputs : List α) (ov : α → α → Bool) (un : α → α → α)
    (g : List (Key × α)) (a b : Key × α) (r : List (Key × α))
    (hinv : MergeInv inputs un g) (h : extractPair ov g = some (a, b, r)) :
    MergeInv inputs un (r ++ [(.node a.1 b.1, un a.2 b.2)]) := by
  obtain ⟨hperm, _⟩ := aux_extractPair_some ov g a b r h
  obtain ⟨hids, hval⟩ := hinv
  constructor
  · refine List.Perm.trans ?_ ((aux_allIds_perm hperm).symm.trans hids)
    simp only [allIds, List.flatMap_append, List.flatMap_cons, List.flatMap_nil, Key.flatten,
      List.append_nil]
    -- r' ++ (fa ++ fb) ~ fa ++ (fb ++ r')
    have := (List.perm_append_comm :
      (List.flatMap (fun e => e.fst.flatten) r ++ (a.fst.flatten ++ b.fst.flatten)).Perm
        ((a.fst.flatten ++ b.fst.flatten) ++ List.flatMap (fun e => e.fst.flatten) r))
    simpa [List.append_assoc] using this
  · intro e he
    rcases List.mem_append.mp he with hr | hl
    · exact hval e (hperm.mem_iff.mpr (List.mem_cons_of_mem _ (List.mem_cons_of_mem _ hr)))
    · simp only [List.mem_singleton] at hl
      subst hl
      have ha := hval a (hperm.mem_iff.mpr (List.mem_cons_self))
      have hb := hval b (hperm.mem_iff.mpr (List.mem_cons_of_mem _ List.mem_cons_self))
      simp [evalKey, ha, hb]

theorem aux_loop_inv {α} (inputs : List α) (ov : α → α → Bool) (un : α → α → α) :
    ∀ fuel g, MergeInv inputs un g → MergeInv inputs un (mergeLoop ov un fuel g) := by
  intro fuel
  induction fuel with
  | zero => intro g h; exact h
  | succ n ih =>
    intro g h
    unfold mergeLoop
    cases hp : extractPair ov g with
    | none => exact h
    | some abr =>
      obtain ⟨a, b, r⟩ := abr
      exact ih _ (aux_step_inv inputs ov un g a b r h hp)

theorem aux_loop_fix {α} (ov : α → α → Bool) (un : α → α → α) :
    ∀ fuel g, g.length ≤ fuel + 1 →
      (mergeLoop ov un fuel g).Pairwise (fun x y => ov x.2 y.2 = false) := by
  intro fuel
  induction fuel with
  | zero =>
    intro g hlen
    unfold mergeLoop
    match g, hlen with
    | [], _ => exact List.Pairwise.nil
    | [x], _ => exact List.pairwise_singleton _ _
  | succ n ih =>
    intro g hlen
    unfold mergeLoop
    cases hp : extractPair ov g with
    | none => exact aux_extractPair_none ov g hp
    | some abr =>
      obtain ⟨a, b, r⟩ := abr
      apply ih
      have := (aux_extractPair_some ov g a b r hp).1.length_eq
      simp at this ⊢
      omega

theorem aux_init_inv {α} (inputs : List α) (un : α → α → α) :
    MergeInv inputs un ((List.range inputs.length).zip inputs |>.map (fun (i, x) => (Key.leaf i, x))) := by
  constructor
  · have : allIds ((List.range inputs.length).zip inputs |>.map (fun (i, x) => (Key.leaf i, x)))
        = List.range inputs.length := by
      simp only [allIds, List.flatMap_map, Key.flatten]
      have h2 : ∀ (l : List (Nat × α)), l.flatMap (fun e => [e.1]) = l.map Prod.fst := by
        intro l; induction l with
        | nil => rfl
        | cons x xs ih => simp [List.flatMap_cons, ih]
      rw [h2, List.map_fst_zip]
      simp
    rw [this]
  · intro e he
    simp only [List.mem_map, Prod.exists] at he
    obtain ⟨i, x, hmem, rfl⟩ := he
    have := List.mem_iff_getElem?.mp hmem
    obtain ⟨k, hk⟩ := this
    rw [List.getElem?_zip_eq_some] at hk
    obtain ⟨h1, h2⟩ := hk
    have hk' : k < inputs.length := (List.getElem?_eq_some_iff.mp h2).1
    rw [List.getElem?_range hk'] at h1
    simp at h1; subst h1
    simpa [evalKey] using h2

/-- **each input ends in exactly one union**: the ids named by the result are a permutation of
`0 … m-1`, for every family of inputs and every overlap predicate / union operation. -/
theorem merge_ids_perm {α} (ov : α → α → Bool) (un : α → α → α) (geoms : List α) :
    (allIds (mergeUnions ov un geoms)).Perm (List.range geoms.length) :=
  (aux_loop_inv geoms ov un _ _ (aux_init_inv geoms un)).1

/-- **each returned value is the union of the inputs its id names** -/
theorem merge_values {α} (ov : α → α → Bool) (un : α → α → α) (geoms : List α) :
    ∀ e ∈ mergeUnions ov un geoms, evalKey geoms un e.1 = some e.2 :=
  (aux_loop_inv geoms ov un _ _ (aux_init_inv geoms un)).2

/-- **the result is a fixpoint**: no two returned unions overlap (the recursion always reaches
it: one merge per input suffices). -/
theorem merge_nonoverlapping {α} (ov : α → α → Bool) (un : α → α → α) (geoms : List α) :
    (mergeUnions ov un geoms).Pairwise (fun x y => ov x.2 y.2 = false) := by
  unfold mergeUnions
  apply aux_loop_fix
  simp

example : (mergeUnions setOverlaps setUnion [[1, 2], [3], [2, 3], [9]]).map (fun e => (e.1.flatten, e.2))
    = [([3], [9]), ([1, 0, 2], [1, 2, 3])] := by decide

end PyresampleModel.C19
