import PyresampleModel.Gen.Src
import PyresampleModel.Model.C07
import PyresampleModel.Props.CodeC18

/-
  Tie theorems, C07: which data values the bucket sums leave out.  `_get_invalid_mask` and the weights that
  `BucketResampler.get_sum` hands to the histogram, as translated from /repo's current source (elementwise, NaN = `none`;
  the widening of narrow integer dtypes — repair of finding F35 — and the histogram call are required verbatim), equal the
  model's `invalid` and its weight rule: a value that is the fill value (NaN fill: any NaN) contributes 0, every other
  value contributes itself — for every dtype alike.  (The cell assignment is tied in `TieC18` / `CodeC18`.)
-/
namespace PyresampleModel.Tie
open PyresampleModel

theorem tie_bucket_invalid_mask (v fill : Option Rat) : Gen.bucket_invalid_mask v fill = C07.invalid fill v := by
  cases fill <;> cases v <;> simp [Gen.bucket_invalid_mask, C07.invalid, Gen.nEq]
  rename_i f x
  by_cases h : x = f
  · simp [h]
  · simp [h]

theorem tie_bucket_sum_weight (v fill : Option Rat) :
    Gen.bucket_sum_weight v fill = (if C07.invalid fill v then some 0 else v) := by
  simp only [Gen.bucket_sum_weight, tie_bucket_invalid_mask]
  cases C07.invalid fill v <;> simp

/-- a valid (non-fill, non-NaN) value always enters the sum with its own value; a fill value with 0 -/
theorem code_bucket_weight_valid (x f : Rat) (h : x ≠ f) :
    Gen.bucket_sum_weight (some x) (some f) = some x ∧ Gen.bucket_sum_weight (some f) (some f) = some 0 ∧
    Gen.bucket_sum_weight (some x) none = some x ∧ Gen.bucket_sum_weight none none = some 0 := by
  simp [tie_bucket_sum_weight, C07.invalid, h]

end PyresampleModel.Tie
