import PyresampleModel.Model.C20
import PyresampleModel.Proofs.Num

/-
  C20 — property theorems: CF, rasterio, odc-geo and cartopy conversions preserve the grid.
-/
namespace PyresampleModel.C20
open PyresampleModel.Grid

theorem aux_sign_spacing (d : Rat) (hd : d ≠ 0) : d / absQ d * (1/2) * absQ d = d / 2 := by
  have : absQ d ≠ 0 := by
    unfold absQ; split
    · exact hd
    · exact neg_ne_zero.mpr hd
  field_simp

theorem aux_axis_x (g : Grid) (hw : 2 ≤ g.w) (hdx : g.dx ≠ 0) :
    axisInfo (xvec g) = some { first := g.projX 0, last := g.projX ((g.w : Rat) - 1), nb := g.w,
                               spacing := absQ g.dx, sign := g.dx / absQ g.dx } := by
  have hlen : (xvec g).length = g.w := by simp [xvec]
  have hhead : (xvec g).head? = some (g.projX 0) := by
    simp only [xvec, List.head?_map]
    have : (List.range g.w).head? = some 0 := by
      cases hg : g.w with
      | zero => omega
      | succ n => simp [List.range_succ_eq_map]
    rw [this]; simp
  have hlast : (xvec g).getLast? = some (g.projX ((g.w : Rat) - 1)) := by
    simp only [xvec, List.getLast?_map]
    have : (List.range g.w).getLast? = some (g.w - 1) := by
      cases hg : g.w with
      | zero => omega
      | succ n => simp [List.range_succ]
    rw [this]
    simp only [Option.map_some, Option.some.injEq]
    congr 1
    rw [Nat.cast_sub (by omega)]; simp
  have w1 : (g.w : Rat) - 1 ≠ 0 := by
    have : (2 : Rat) ≤ g.w := by exact_mod_cast hw
    linarith
  have hdelta : (g.projX ((g.w : Rat) - 1) - g.projX 0) / ((g.w : Rat) - 1) = g.dx := by
    simp only [Grid.projX]; field_simp; ring
  simp only [axisInfo, hhead, hlast, hlen]
  rw [if_neg (by omega), hdelta, if_neg hdx]

theorem aux_axis_y (g : Grid) (hh : 2 ≤ g.h) (hdy : g.dy ≠ 0) :
    axisInfo (yvec g) = some { first := g.projY 0, last := g.projY ((g.h : Rat) - 1), nb := g.h,
                               spacing := absQ (-g.dy), sign := (-g.dy) / absQ (-g.dy) } := by
  have hlen : (yvec g).length = g.h := by simp [yvec]
  have hhead : (yvec g).head? = some (g.projY 0) := by
    simp only [yvec, List.head?_map]
    have : (List.range g.h).head? = some 0 := by
      cases hg : g.h with
      | zero => omega
      | succ n => simp [List.range_succ_eq_map]
    rw [this]; simp
  have hlast : (yvec g).getLast? = some (g.projY ((g.h : Rat) - 1)) := by
    simp only [yvec, List.getLast?_map]
    have : (List.range g.h).getLast? = some (g.h - 1) := by
      cases hg : g.h with
      | zero => omega
      | succ n => simp [List.range_succ]
    rw [this]
    simp only [Option.map_some, Option.some.injEq]
    congr 1
    rw [Nat.cast_sub (by omega)]; simp
  have h1 : (g.h : Rat) - 1 ≠ 0 := by
    have : (2 : Rat) ≤ g.h := by exact_mod_cast hh
    linarith
  have hdelta : (g.projY ((g.h : Rat) - 1) - g.projY 0) / ((g.h : Rat) - 1) = -g.dy := by
    simp only [Grid.projY]; field_simp; ring
  simp only [axisInfo, hhead, hlast, hlen]
  rw [if_neg (by omega), hdelta, if_neg (neg_ne_zero.mpr hdy)]

/-- **CF round trip**: for every grid with at least 2 columns and rows and non-zero pixel sizes of
either sign (north-to-south or south-to-north rows, ascending or descending x), loading the CF
export (the pixel-centre coordinate vectors as stored) gives back exactly the same extent and
shape — pixel (r, c) of the loaded area is located where element (r, c) of the stored array is -/
theorem cf_roundtrip (g : Grid) (hw : 2 ≤ g.w) (hh : 2 ≤ g.h) (hdx : g.dx ≠ 0) (hdy : g.dy ≠ 0) :
    cfRoundTrip (xvec g) (yvec g) = some g := by
  have w2 : (2 : Rat) ≤ g.w := by exact_mod_cast hw
  have h2 : (2 : Rat) ≤ g.h := by exact_mod_cast hh
  have wq : (g.w : Rat) ≠ 0 := by linarith
  have hq : (g.h : Rat) ≠ 0 := by linarith
  have ewx : (g.w : Rat) * g.dx = g.x1 - g.x0 := by unfold Grid.dx; field_simp
  have ehy : (g.h : Rat) * g.dy = g.y1 - g.y0 := by unfold Grid.dy; field_simp
  simp only [cfRoundTrip, aux_axis_x g hw hdx, aux_axis_y g hh hdy, cfExtent, Option.some.injEq]
  rw [aux_sign_spacing g.dx hdx, aux_sign_spacing (-g.dy) (neg_ne_zero.mpr hdy)]
  cases hg : g
  simp only [hg] at ewx ehy
  simp only [Grid.projX, Grid.projY, Grid.uplx, Grid.uply, Grid.mk.injEq, and_true]
  refine ⟨by ring, by linarith, by linarith, by ring⟩

/-- storing the rows south-to-north is storing the grid with its y extent swapped: the stored y
vector is the reverse — so by `cf_roundtrip` the loaded area is the original with its rows reversed -/
theorem cf_rows_reversed (g : Grid) (hh : g.h ≠ 0) :
    yvec { g with y0 := g.y1, y1 := g.y0 } = (yvec g).reverse := by
  have hq : (g.h : Rat) ≠ 0 := by exact_mod_cast hh
  apply List.ext_getElem?
  intro k
  have hlen : (yvec g).length = g.h := by simp [yvec]
  by_cases hk : k < g.h
  · have h2 : g.h - 1 - k < g.h := by omega
    rw [List.getElem?_reverse (by rw [hlen]; exact hk), hlen]
    simp only [yvec, List.getElem?_map, List.getElem?_range hk, List.getElem?_range h2, Option.map_some, Option.some.injEq]
    have e : ((g.h - 1 - k : Nat) : Rat) = (g.h : Rat) - 1 - k := by
      rw [Nat.cast_sub (by omega), Nat.cast_sub (by omega)]; simp
    rw [e]
    simp only [Grid.projY, Grid.uply, Grid.dy]
    field_simp; ring
  · rw [List.getElem?_eq_none (by simp [yvec]; omega), List.getElem?_eq_none (by simp [yvec]; omega)]

/-- **unit scale**: scaling both axes (km → m, or radians → metres for geostationary) scales the extent -/
theorem cf_unit_scale (k : Rat) (x y : Axis) :
    cfExtent (scaleAxis k x) (scaleAxis k y) =
      (k * (cfExtent x y).1, k * (cfExtent x y).2.1, k * (cfExtent x y).2.2.1, k * (cfExtent x y).2.2.2) := by
  simp only [cfExtent, scaleAxis, Prod.mk.injEq]
  refine ⟨by ring, by ring, by ring, by ring⟩

/-- **rasterio round trip**: bounds computed from the area's own affine transform are its extent -/
theorem raster_roundtrip (g : Grid) (hw : g.w ≠ 0) (hh : g.h ≠ 0) : rasterRoundTrip g = g := by
  obtain ⟨x0, y0, x1, y1, w, h⟩ := g
  simp only at hw hh
  have wq : (w : Rat) ≠ 0 := by exact_mod_cast hw
  have hq : (h : Rat) ≠ 0 := by exact_mod_cast hh
  simp only [rasterRoundTrip, rasterBounds, affineOf, Grid.dx, Grid.dy, Grid.mk.injEq, and_true, true_and]
  constructor
  · field_simp; ring
  · field_simp; ring

/-- **odc-geo**: the GeoBox affine maps array corner (0, 0) to (xmin, ymax) and (w, h) to (xmax, ymin) -/
theorem odc_corners (g : Grid) (hw : g.w ≠ 0) (hh : g.h ≠ 0) :
    let (a, _, c, _, e, f) := odcAffine g
    (a * 0 + c = g.x0 ∧ e * 0 + f = g.y1) ∧ (a * g.w + c = g.x1 ∧ e * g.h + f = g.y0) := by
  have wq : (g.w : Rat) ≠ 0 := by exact_mod_cast hw
  have hq : (g.h : Rat) ≠ 0 := by exact_mod_cast hh
  simp only [odcAffine, Grid.dx, Grid.dy]
  refine ⟨⟨by ring, by ring⟩, ⟨by field_simp; ring, by field_simp; ring⟩⟩

/-- **cartopy**: bounds are (xmin, xmax, ymin, ymax) of the extent -/
theorem cartopy_bounds_order (g : Grid) : cartopyBounds g = (g.x0, g.x1, g.y0, g.y1) := rfl

example : cfRoundTrip (xvec ⟨0, 0, 4, 3, 4, 3⟩) (yvec ⟨0, 0, 4, 3, 4, 3⟩) = some ⟨0, 0, 4, 3, 4, 3⟩ := by decide +kernel

end PyresampleModel.C20
