import PyresampleModel.Model.C20

/-
  C20 — property theorems (stub: none yet).
-/
namespace PyresampleModel.C20

end PyresampleModel.C20
