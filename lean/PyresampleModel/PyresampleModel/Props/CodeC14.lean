import PyresampleModel.Props.C14
import PyresampleModel.Props.TieC14

/-
  C14 — "freezing a dynamic area yields a grid containing all the data", TRANSFERRED TO THE TRANSLATED CODE: statements
  about the Lean definitions regenerated from /repo's current `DynamicAreaDefinition.compute_domain`.
-/
namespace PyresampleModel.Tie
open PyresampleModel

/-- **resolution branch of `compute_domain` as it stands in /repo**: extents aligned to multiples of the resolution and
containing the data corners padded by half a pixel, positive integer size, width·rx exactly the extent span; and every
point between the corner centres maps to a valid pixel -/
theorem code_compute_domain_res (c : C14.Corners) (rx ry : Rat) (hx : 0 < rx) (hy : 0 < ry)
    (hcx : c.xmin ≤ c.xmax) (hcy : c.ymin ≤ c.ymax) :
    ∃ x0 y0 x1 y1 : Rat, ∃ w h : Int,
      Gen.compute_domain_res (c.xmin, c.ymin, c.xmax, c.ymax) (rx, ry) = ((x0, y0, x1, y1), w, h) ∧
      (∃ k : Int, x0 = k * rx) ∧ (∃ k : Int, x1 = k * rx) ∧ (∃ k : Int, y0 = k * ry) ∧ (∃ k : Int, y1 = k * ry) ∧
      x0 ≤ c.xmin - rx / 2 ∧ c.xmax + rx / 2 ≤ x1 ∧ y0 ≤ c.ymin - ry / 2 ∧ c.ymax + ry / 2 ≤ y1 ∧
      1 ≤ w ∧ 1 ≤ h ∧ (w : Rat) * rx = x1 - x0 ∧ (h : Rat) * ry = y1 - y0 ∧
      (∀ x y : Rat, c.xmin ≤ x → x ≤ c.xmax → c.ymin ≤ y → y ≤ c.ymax →
        0 ≤ pyFloor ((x - x0) / rx) ∧ pyFloor ((x - x0) / rx) < w ∧
        0 ≤ pyFloor ((y1 - y) / ry) ∧ pyFloor ((y1 - y) / ry) < h) := by
  have t := tie_compute_domain_res c rx ry
  have b := C14.res_branch c rx ry hx hy hcx hcy
  simp only at t b
  obtain ⟨b1, b2, b3, b4, b5, b6, b7, b8, b9, b10, b11, b12⟩ := b
  refine ⟨_, _, _, _, _, _, t, b1, b2, b3, b4, b5, b6, b7, b8, b9, b10, b11, b12, ?_⟩
  intro x y h1 h2 h3 h4
  exact C14.res_point_valid c rx ry hx hy hcx hcy x y h1 h2 h3 h4

/-- **shape branch as it stands in /repo** (both sizes ≥ 2, non-degenerate box): the requested shape exactly, the
outermost points on the outermost pixel centres, the box inside the extent -/
theorem code_compute_domain_shape (c : C14.Corners) (height width : Nat) (hw : 2 ≤ width) (hh : 2 ≤ height)
    (hcx : c.xmin < c.xmax) (hcy : c.ymin < c.ymax) :
    ∃ x0 y0 x1 y1 : Rat,
      Gen.compute_domain_shape (c.xmin, c.ymin, c.xmax, c.ymax) ((height : Int), (width : Int)) =
        ((x0, y0, x1, y1), (width : Int), (height : Int)) ∧
      0 < (x1 - x0) / width ∧ 0 < (y1 - y0) / height ∧
      x0 + (x1 - x0) / width / 2 = c.xmin ∧ x0 + ((width : Rat) - 1 / 2) * ((x1 - x0) / width) = c.xmax ∧
      y1 - (y1 - y0) / height / 2 = c.ymax ∧ y1 - ((height : Rat) - 1 / 2) * ((y1 - y0) / height) = c.ymin ∧
      x0 < c.xmin ∧ c.xmax < x1 ∧ y0 < c.ymin ∧ c.ymax < y1 := by
  have t := tie_compute_domain_shape c height width
  have b := C14.shape_branch c height width hw hh hcx hcy
  simp only at t b
  obtain ⟨b1, b2, b3, b4, b5, b6, b7, b8, b9, b10, b11, b12⟩ := b
  rw [b1, b2] at t
  exact ⟨_, _, _, _, t, b3, b4, b5, b6, b7, b8, b9, b10, b11, b12⟩

end PyresampleModel.Tie
