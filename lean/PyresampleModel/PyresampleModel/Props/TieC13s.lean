import PyresampleModel.Props.TieC13

/-
  Tie theorem, C13: `_extrapolate_information` as translated from /repo's current source (all quantities in the CRS's own
  units, i.e. `_convert_units` is the identity; `_validate_variable` and `_round_shape` are the translated helpers) equals
  the model's `extrapolate` — half of the case analysis: area_extent given.  (Split over two files so that they build in parallel.)
-/
namespace PyresampleModel.Tie
open PyresampleModel

set_option maxHeartbeats 1000000 in
theorem tie_extrapolate_some (s c r res u : Option C13.P2) (e : C13.P4) :
    (Gen.extrapolate_information (some e) s c r res u)=
      (C13.extrapolate { extent := some e, shape := s, center := c, radius := r, resolution := res, ule := u }).map
        (fun f => (f.extent, f.shape, res)) := by
  cases s <;> cases c <;> cases r <;> cases res <;> cases u <;>
    simp only [Gen.extrapolate_information, C13.extrapolate, tie_validate_variable2, tie_validate_variable4, tie_round_shape] <;>
    (try simp) <;> (repeat' split) <;> (try simp_all)

end PyresampleModel.Tie
