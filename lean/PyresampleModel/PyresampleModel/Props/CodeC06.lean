import PyresampleModel.Props.C06
import PyresampleModel.Props.TieC06

/-
  C06 — "convex weights, exact on affine fields", TRANSFERRED TO THE TRANSLATED CODE: statements about the definitions
  regenerated from /repo's current `_resample`, `_solve_quadratic`, `_solve_another_fractional_distance`.
-/
namespace PyresampleModel.Tie
open PyresampleModel

/-- **`_resample` as it stands in /repo is a convex combination**: for fractional distances in [0, 1] the value lies in
the range of the four corner values; in particular a constant field is reproduced -/
theorem code_bil_resample_convex (v1 v2 v3 v4 s t lo hi : Rat) (hs : 0 ≤ s ∧ s ≤ 1) (ht : 0 ≤ t ∧ t ≤ 1)
    (h1 : lo ≤ v1 ∧ v1 ≤ hi) (h2 : lo ≤ v2 ∧ v2 ≤ hi) (h3 : lo ≤ v3 ∧ v3 ≤ hi) (h4 : lo ≤ v4 ∧ v4 ≤ hi) :
    lo ≤ Gen.bil_resample (v1, v2, v3, v4) (s, t) ∧ Gen.bil_resample (v1, v2, v3, v4) (s, t) ≤ hi := by
  rw [tie_bil_resample]; exact C06.resample_convex v1 v2 v3 v4 s t lo hi hs ht h1 h2 h3 h4

theorem code_bil_resample_const (v s t : Rat) : Gen.bil_resample (v, v, v, v) (s, t) = v := by
  rw [tie_bil_resample]; exact C06.resample_const v s t

/-- **exact on affine fields**: sampled at the four corners, an affine function of the projection coordinates is
reproduced at the image of (s, t) under the bilinear map of the quadrilateral -/
theorem code_bil_resample_affine (α β γ : Rat) (p1 p2 p3 p4 : C06.Pt) (s t : Rat) :
    Gen.bil_resample (α + β * p1.x + γ * p1.y, α + β * p2.x + γ * p2.y, α + β * p3.x + γ * p3.y, α + β * p4.x + γ * p4.y) (s, t) =
      α + β * (C06.bilinMap p1 p2 p3 p4 s t).x + γ * (C06.bilinMap p1 p2 p3 p4 s t).y := by
  rw [tie_bil_resample]; exact C06.resample_affine α β γ p1 p2 p3 p4 s t

/-- **`_solve_quadratic` as it stands in /repo** (with `np.sqrt` returning a square root of the discriminant or NaN): a
returned value lies in [0, 1], and it is a root of `a v² + b v + c` whenever `a = 0` or it came from one of the two
quadratic candidates (the exception is the linear fall-back `-c/b` used with `a ≠ 0`, which the model marks `.lin`) -/
theorem code_solve_quadratic (sq : Rat → Option Rat) (a b c v : Rat)
    (hsq : ∀ r, sq (b * b - 4 * a * c) = some r → r * r = b * b - 4 * a * c)
    (h : Gen.solve_quadratic sq a b c 0 1 = some v) :
    0 ≤ v ∧ v ≤ 1 ∧ ∃ rt : C06.Root, C06.solveQuadratic (a, b, c) (sq (b * b - 4 * a * c)) = some (v, rt) ∧
      ((rt ≠ .lin ∨ a = 0) → a * v * v + b * v + c = 0) := by
  rw [tie_solve_quadratic] at h
  cases hm : C06.solveQuadratic (a, b, c) (sq (b * b - 4 * a * c)) with
  | none => rw [hm] at h; cases h
  | some p =>
    obtain ⟨v', rt⟩ := p
    rw [hm] at h
    simp only [Option.map_some, Option.some.injEq] at h
    subst h
    obtain ⟨h0, h1, hroot⟩ := C06.solveQuadratic_spec a b c _ hsq v' rt hm
    exact ⟨h0, h1, rt, rfl, hroot⟩

/-- **`_solve_another_fractional_distance` as it stands in /repo**: a returned value g lies in [0, 1] and solves the
linear equation `g · den = out_y − y₁ − (y₂ − y₁) f` with a non-zero denominator; NaN in gives NaN out -/
theorem code_solve_another (f : Option Rat) (y1 y2 y3 y4 oy g : Rat)
    (h : Gen.solve_another f (y1, y2, y3, y4) oy = some g) :
    ∃ f', f = some f' ∧ (y3 + (y4 - y3) * f' - y1 - (y2 - y1) * f') ≠ 0 ∧
      g * (y3 + (y4 - y3) * f' - y1 - (y2 - y1) * f') = oy - y1 - (y2 - y1) * f' ∧ 0 ≤ g ∧ g ≤ 1 := by
  rw [tie_solve_another] at h; exact C06.solveAnother_some h

end PyresampleModel.Tie
