import PyresampleModel.Gen.Src
import PyresampleModel.Model.C10
import PyresampleModel.Proofs.Num
import PyresampleModel.Props.TieGrid

/-
  Tie theorem, C10: the arithmetic of `AreaDefinition.__getitem__` (everything but the two calls of the CPython
  builtin `slice.indices`, which `Model/Core.lean` models, and the constructor call, whose argument list is checked
  verbatim by the translator) as translated from /repo's current source, for unit-step slices that select at least
  one row and one column, produces exactly the model's `sliceArea`: size, extent and crop offset.
-/
namespace PyresampleModel.Tie
open PyresampleModel

theorem pyAbsQ_eq10 (q : Rat) : Gen.pyAbsQ q = C10.absQ q := by
  simp only [Gen.pyAbsQ, C10.absQ]
  by_cases h : q < 0
  · simp [h, not_le.mpr h]
  · simp [h, not_lt.mp h]

/-- `combine_area_extents_vertical` as translated = the extent part of the model's `concatAreas` (equal widths): the two
x edges must be equal, the seam is tested with `np.isclose(…, rtol=0, atol=1e-6·min(height₁, height₂))` in both member
orders, anything else raises -/
theorem tie_combine_area_extents_vertical (a b : Grid) (hw : a.w = b.w) :
    Gen.combine_area_extents_vertical (a.x0, a.y0, a.x1, a.y1) (b.x0, b.y0, b.x1, b.y1) =
      (C10.concatAreas a b).map (fun g => (g.x0, g.y0, g.x1, g.y1)) := by
  have hm : ∀ p q : Rat, Gen.pyMinQ p q = C10.minQ p q := by intro p q; rfl
  have htol : mkRat 4722366482869645 4722366482869645213696 *
      C10.minQ (C10.absQ (a.y1 - a.y0)) (C10.absQ (b.y1 - b.y0)) = C10.seamTol a b := rfl
  simp only [Gen.combine_area_extents_vertical, pyAbsQ_eq10, hm]
  rw [htol]
  simp only [C10.concatAreas, hw, ne_eq, not_true_eq_false, if_false, C10.isclose, Int.cast_zero, zero_mul, add_zero]
  by_cases h0 : a.x0 = b.x0 <;> by_cases h1 : a.x1 = b.x1 <;>
    by_cases c1 : C10.absQ (a.y0 - b.y1) ≤ C10.seamTol a b <;>
    by_cases c2 : C10.absQ (a.y1 - b.y0) ≤ C10.seamTol a b <;> simp [h0, h1, c1, c2]

theorem aux_indices_le' (s : PySlice) (n : Nat) : (s.indices n).1 ≤ n ∧ (s.indices n).2 ≤ n := by
  have key : ∀ i : Int, adjustIndex i n ≤ n := by
    intro i; unfold adjustIndex; split <;> split <;> omega
  unfold PySlice.indices
  constructor
  · cases s.start <;> simp [key]
  · cases s.stop <;> simp [key]

theorem tie_area_getitem (a b : C10.Area) (ys xs : PySlice) (h : C10.sliceArea a ys xs = some b) :
    Gen.area_getitem (((ys.indices a.g.h).1 : Int), ((ys.indices a.g.h).2 : Int), 1)
        (((xs.indices a.g.w).1 : Int), ((xs.indices a.g.w).2 : Int), 1)
        a.g.h a.g.w (a.g.uplx, a.g.uply) a.g.dx a.g.dy (a.g.x0, a.g.y0, a.g.x1, a.g.y1)
        ((a.off.1 : Int), (a.off.2 : Int)) =
      ((b.g.w : Int), (b.g.h : Int), (b.g.x0, b.g.y0, b.g.x1, b.g.y1), ((b.off.1 : Int), (b.off.2 : Int))) := by
  rcases hy : ys.indices a.g.h with ⟨ylo, yhi⟩
  rcases hx : xs.indices a.g.w with ⟨xlo, xhi⟩
  simp only [C10.sliceArea, hy, hx] at h
  split at h
  · rename_i hne
    obtain ⟨hyl, hxl⟩ := hne
    cases h
    have e1 : Int.fmod ((yhi : Int) - 1) 1 = 0 := by simp [Int.fmod_one]
    have e2 : Int.fmod ((xhi : Int) - 1) 1 = 0 := by simp [Int.fmod_one]
    have t1 : pyTrunc ((((yhi : Int) - (ylo : Int) : Int) : Rat) / ((1 : Int) : Rat)) = ((yhi - ylo : Nat) : Int) := by
      have : (((yhi : Int) - (ylo : Int) : Int) : Rat) / ((1 : Int) : Rat) = (((yhi - ylo : Nat) : Int) : Rat) := by
        push_cast [Nat.cast_sub (Nat.le_of_lt hyl)]; simp
      rw [this, pyTrunc_of_nonneg (by exact_mod_cast Int.natCast_nonneg _), pyFloor_intCast]
    have t2 : pyTrunc ((((xhi : Int) - (xlo : Int) : Int) : Rat) / ((1 : Int) : Rat)) = ((xhi - xlo : Nat) : Int) := by
      have : (((xhi : Int) - (xlo : Int) : Int) : Rat) / ((1 : Int) : Rat) = (((xhi - xlo : Nat) : Int) : Rat) := by
        push_cast [Nat.cast_sub (Nat.le_of_lt hxl)]; simp
      rw [this, pyTrunc_of_nonneg (by exact_mod_cast Int.natCast_nonneg _), pyFloor_intCast]
    simp only [Gen.area_getitem, e1, e2, t1, t2, sub_zero]
    have half : mkRat 1 2 = (1 / 2 : Rat) := by decide +kernel
    have hh : (a.g.h : Rat) ≠ 0 := by
      have : 0 < a.g.h := by have := (aux_indices_le' ys a.g.h); rw [hy] at this; simp at this; omega
      exact_mod_cast (Nat.pos_iff_ne_zero.mp this)
    have hw : (a.g.w : Rat) ≠ 0 := by
      have : 0 < a.g.w := by have := (aux_indices_le' xs a.g.w); rw [hx] at this; simp at this; omega
      exact_mod_cast (Nat.pos_iff_ne_zero.mp this)
    have c1 : (if decide ((xlo : Int) = 0) = true then a.g.x0 else a.g.uplx + (((xlo : Int) : Rat) - mkRat 1 2) * a.g.dx) =
        a.g.uplx + ((xlo : Rat) - 1 / 2) * a.g.dx := by
      by_cases h0 : (xlo : Int) = 0
      · have : xlo = 0 := by exact_mod_cast h0
        subst this; simp [Grid.uplx]; ring
      · have h0' := h0
        norm_cast at h0'
        simp [h0', half]
    have c4 : (if decide ((ylo : Int) = 0) = true then a.g.y1 else a.g.uply - (((ylo : Int) : Rat) - mkRat 1 2) * a.g.dy) =
        a.g.uply - ((ylo : Rat) - 1 / 2) * a.g.dy := by
      by_cases h0 : (ylo : Int) = 0
      · have : ylo = 0 := by exact_mod_cast h0
        subst this; simp [Grid.uply]; ring
      · have h0' := h0
        norm_cast at h0'
        simp [h0', half]
    have c3 : (if decide ((xhi : Int) = (a.g.w : Int)) = true then a.g.x1 else a.g.uplx + (((xhi : Int) : Rat) - mkRat 1 2) * a.g.dx) =
        a.g.uplx + ((xhi : Rat) - 1 / 2) * a.g.dx := by
      by_cases h0 : (xhi : Int) = (a.g.w : Int)
      · have : xhi = a.g.w := by exact_mod_cast h0
        subst this; simp [Grid.uplx, Grid.dx]; field_simp; ring
      · have h0' := h0
        norm_cast at h0'
        simp [h0', half]
    have c2 : (if decide ((yhi : Int) = (a.g.h : Int)) = true then a.g.y0 else a.g.uply - (((yhi : Int) : Rat) - mkRat 1 2) * a.g.dy) =
        a.g.uply - ((yhi : Rat) - 1 / 2) * a.g.dy := by
      by_cases h0 : (yhi : Int) = (a.g.h : Int)
      · have : yhi = a.g.h := by exact_mod_cast h0
        subst this; simp [Grid.uply, Grid.dy]; field_simp; ring
      · have h0' := h0
        norm_cast at h0'
        simp [h0', half]
    rw [c1, c2, c3, c4]
    simp
  · cases h

/-- A full slice (`area[:, :]`, `area[0:h, 0:w]`) returns the stored extent itself, whatever the pixel size and the
upper-left pixel are: no arithmetic is involved, so the statement also holds for the float computation — this is what
makes `area[:, :]` hash like `area` (C12).  `h`, `w` ≥ 1. -/
theorem tie_area_getitem_full (h w : Nat) (hh : 0 < h) (hw : 0 < w) (upl : Rat × Rat) (dx dy : Rat)
    (ext : Rat × Rat × Rat × Rat) (off : Int × Int) :
    Gen.area_getitem (0, (h : Int), 1) (0, (w : Int), 1) h w upl dx dy ext off =
      ((w : Int), (h : Int), ext, off) := by
  have e1 : Int.fmod ((h : Int) - 1) 1 = 0 := by simp [Int.fmod_one]
  have e2 : Int.fmod ((w : Int) - 1) 1 = 0 := by simp [Int.fmod_one]
  have t : ∀ n : Nat, pyTrunc ((((n : Int) - 0 : Int) : Rat) / ((1 : Int) : Rat)) = (n : Int) := by
    intro n
    have : ((((n : Int) - 0 : Int) : Rat) / ((1 : Int) : Rat)) = ((n : Int) : Rat) := by simp
    rw [this, pyTrunc_of_nonneg (by exact_mod_cast Int.natCast_nonneg _), pyFloor_intCast]
  have t' : ∀ n : Nat, pyTrunc ((n : Nat) : Rat) = (n : Int) := by
    intro n
    have : ((n : Nat) : Rat) = ((n : Int) : Rat) := by push_cast; rfl
    rw [this, pyTrunc_of_nonneg (by exact_mod_cast Int.natCast_nonneg _), pyFloor_intCast]
  simp only [Gen.area_getitem, e1, e2, t, sub_zero]
  simp [t']

/-- **`concatenate_area_defs`** as translated from /repo's current source (CRS equality a Boolean parameter; the constructor call
at the end required verbatim; `combine_area_extents_vertical` is the translated helper above) is the model's `concatAreas`:
vertical axis only, equal CRS and equal widths or `IncompatibleAreas`, the width of the first area, the *sum* of the heights,
the combined extent -/
theorem tie_concatenate_area_defs (a b : Grid) :
    Gen.concatenate_area_defs 0 true (a.w : Int) (b.w : Int) (a.h : Int) (b.h : Int) (a.x0, a.y0, a.x1, a.y1) (b.x0, b.y0, b.x1, b.y1) =
      (C10.concatAreas a b).map (fun g => ((g.w : Int), (g.h : Int), (g.x0, g.y0, g.x1, g.y1))) := by
  by_cases hw : a.w = b.w
  · have hw' : ((a.w : Int) = (b.w : Int)) := by exact_mod_cast hw
    simp only [Gen.concatenate_area_defs, hw', decide_true, Bool.not_true, Bool.or_self, Bool.false_eq_true, if_false, if_true,
      tie_combine_area_extents_vertical a b hw]
    unfold C10.concatAreas
    simp only [hw, ne_eq, not_true_eq_false, if_false]
    split_ifs <;> simp
  · have hw' : ¬ ((a.w : Int) = (b.w : Int)) := by exact_mod_cast hw
    simp [Gen.concatenate_area_defs, hw', C10.concatAreas, hw]

/-- different CRSs, different widths or a horizontal axis never yield an area -/
theorem code_concatenate_refuses (axis : Int) (w1 w2 h1 h2 : Int) (e1 e2 : Rat × Rat × Rat × Rat) (crs : Bool)
    (h : axis ≠ 0 ∨ crs = false ∨ w1 ≠ w2) : Gen.concatenate_area_defs axis crs w1 w2 h1 h2 e1 e2 = none := by
  rcases h with h | h | h
  · simp [Gen.concatenate_area_defs, h]
  · subst h; by_cases ha : axis = 0 <;> simp [Gen.concatenate_area_defs, ha]
  · by_cases ha : axis = 0 <;> simp [Gen.concatenate_area_defs, ha, h]

end PyresampleModel.Tie
