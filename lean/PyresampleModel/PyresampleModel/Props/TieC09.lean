import PyresampleModel.Gen.Src
import PyresampleModel.Props.C09

/-
  Tie theorems, C09: the python-level interpolators that `resample_blocks` applies to the indices found by the compiled
  gradient search — `_get_mask_and_adjusted_indices`, `block_nn_interpolator`, `block_bilinear_interpolator`
  (pyresample/gradient/__init__.py) — as translated from /repo's current source (elementwise; NaN = `none`; the four
  gathered data values are parameters), equal the model's `blockNN`, `blockBil`, `bilValue`: block-local index =
  global index − block start, nearest pixel by round-half-even clipped to the block, and the standard bilinear
  combination of the four enclosing pixels.  (The compiled search itself is tied by bit-exact correspondence only.)
-/
namespace PyresampleModel.Tie
open PyresampleModel

theorem clamp_eq (v lo hi : Int) (h : lo ≤ v ∨ lo ≤ hi) :
    Gen.pyMinI (Gen.pyMaxI v lo) hi = C09.clampI v lo hi := by
  simp only [Gen.pyMinI, Gen.pyMaxI, C09.clampI]
  split <;> split <;> split <;> omega

/-- a position without a source location (NaN from the search) is masked; otherwise the mask is clear -/
theorem tie_block_adjusted (x y : Option Rat) (xs ys : Int) :
    Gen.block_adjusted_indices (x, y) xs ys =
      (y.isNone, (x.map (fun v => v - (xs : Rat))).getD 0, (y.map (fun v => v - (ys : Rat))).getD 0) := by
  cases x <;> cases y <;> simp [Gen.block_adjusted_indices, Gen.nSub, Gen.nLift2]

theorem tie_block_nn (x y : Rat) (xs ys : Int) (nrows ncols : Nat) (hr : 1 ≤ nrows) (hc : 1 ≤ ncols) :
    Gen.block_nn_indices (some x, some y) xs ys nrows ncols =
      (false, C09.blockNN (y - ys) nrows, C09.blockNN (x - xs) ncols) := by
  simp only [Gen.block_nn_indices, tie_block_adjusted, Option.map_some, Option.getD_some, Option.isNone_some, C09.blockNN]
  rw [clamp_eq _ _ _ (Or.inr (by omega)), clamp_eq _ _ _ (Or.inr (by omega))]

theorem tie_block_nn_nan (x : Option Rat) (xs ys : Int) (nrows ncols : Int) :
    (Gen.block_nn_indices (x, none) xs ys nrows ncols).1 = true := by
  cases x <;> simp [Gen.block_nn_indices, tie_block_adjusted]

theorem clipQ_eq (i : Rat) (n : Nat) (hn : 1 ≤ n) :
    Gen.pyMinQ (Gen.pyMaxQ i 0) ((n : Rat) - 1) = (if i < 0 then 0 else if i > (n : Rat) - 1 then (n : Rat) - 1 else i) := by
  have hn' : (0 : Rat) ≤ (n : Rat) - 1 := by
    have : (1 : Rat) ≤ n := by exact_mod_cast hn
    linarith
  simp only [Gen.pyMinQ, Gen.pyMaxQ]
  by_cases h0 : i < 0
  · have : ¬ (i ≥ 0) := not_le.mpr h0
    simp [h0, this, hn']
  · have h0' : i ≥ 0 := not_lt.mp h0
    by_cases h1 : i > (n : Rat) - 1
    · have : ¬ (i ≤ (n : Rat) - 1) := not_le.mpr h1
      simp [h0, h0', h1, this]
    · have : i ≤ (n : Rat) - 1 := not_lt.mp h1
      simp [h0, h0', h1, this]

/-- one axis of `block_bilinear_interpolator`: clipped position, `np.modf`, end index = the model's `blockBil` -/
theorem blockBil_eq (i : Rat) (n : Nat) (hn : 1 ≤ n) :
    let c := Gen.pyMinQ (Gen.pyMaxQ i 0) ((n : Rat) - 1)
    (pyTrunc c, Gen.pyMinI (Gen.pyMaxI (pyTrunc c + 1) 1) ((n : Int) - 1), c - ((pyTrunc c : Int) : Rat)) = C09.blockBil i n := by
  intro c
  have hc : c = (if i < 0 then 0 else if i > (n : Rat) - 1 then (n : Rat) - 1 else i) := clipQ_eq i n hn
  have hc0 : 0 ≤ c := by
    have : (1 : Rat) ≤ n := by exact_mod_cast hn
    rw [hc]; split
    · exact le_refl _
    · split
      · linarith
      · rename_i h _; exact not_lt.mp h
  have ht : 0 ≤ pyTrunc c := by rw [pyTrunc_of_nonneg hc0]; exact pyFloor_nonneg.mpr hc0
  simp only [C09.blockBil, ← hc]
  rw [clamp_eq _ _ _ (Or.inl (by omega))]

/-- **`block_bilinear_interpolator` as translated = the standard bilinear interpolation of the four enclosing pixels**
(`bilValue` at the model's `blockBil` indices and weights), for a position the search found; `fill_value` where it found none -/
theorem tie_block_bilinear (x y : Rat) (xs ys : Int) (nrows ncols : Nat) (hr : 1 ≤ nrows) (hc : 1 ≤ ncols)
    (data : Int → Int → Rat) (fill : Option Rat) :
    let bl := C09.blockBil (y - ys) nrows
    let bp := C09.blockBil (x - xs) ncols
    Gen.block_bilinear (some x, some y) xs ys nrows ncols (data bl.1 bp.1) (data bl.1 bp.2.1) (data bl.2.1 bp.1) (data bl.2.1 bp.2.1) fill =
      some (C09.bilValue data (bl.1, bl.2.1, bl.2.2, bp.1, bp.2.1, bp.2.2)) := by
  intro bl bp
  have el := blockBil_eq (y - ys) nrows hr
  have ep := blockBil_eq (x - xs) ncols hc
  simp only at el ep
  simp only [Gen.block_bilinear, tie_block_adjusted, Option.map_some, Option.getD_some, Option.isNone_some, C09.bilValue,
    Int.cast_zero, Int.cast_one, Int.cast_sub, Int.cast_natCast, Bool.false_eq_true, if_false]
  have l3 : bl.2.2 = Gen.pyMinQ (Gen.pyMaxQ (y - ys) 0) ((nrows : Rat) - 1) -
      ((pyTrunc (Gen.pyMinQ (Gen.pyMaxQ (y - ys) 0) ((nrows : Rat) - 1)) : Int) : Rat) := by
    show (C09.blockBil (y - ys) nrows).2.2 = _; rw [← el]
  have p3 : bp.2.2 = Gen.pyMinQ (Gen.pyMaxQ (x - xs) 0) ((ncols : Rat) - 1) -
      ((pyTrunc (Gen.pyMinQ (Gen.pyMaxQ (x - xs) 0) ((ncols : Rat) - 1)) : Int) : Rat) := by
    show (C09.blockBil (x - xs) ncols).2.2 = _; rw [← ep]
  rw [← l3, ← p3]

theorem tie_block_bilinear_nan (x : Option Rat) (xs ys nrows ncols : Int) (a b c d : Rat) (fill : Option Rat) :
    Gen.block_bilinear (x, none) xs ys nrows ncols a b c d fill = fill := by
  cases x <;> simp [Gen.block_bilinear, tie_block_adjusted]

/-- hence (with `bilValue_convex`): the interpolated value lies within the range of the four pixels it is taken from -/
theorem code_block_bilinear_convex (x y : Rat) (xs ys : Int) (nrows ncols : Nat) (hr : 1 ≤ nrows) (hc : 1 ≤ ncols)
    (data : Int → Int → Rat) (fill : Option Rat) (lo hi : Rat) (hd : ∀ l p, lo ≤ data l p ∧ data l p ≤ hi) :
    let bl := C09.blockBil (y - ys) nrows
    let bp := C09.blockBil (x - xs) ncols
    ∃ v, Gen.block_bilinear (some x, some y) xs ys nrows ncols (data bl.1 bp.1) (data bl.1 bp.2.1) (data bl.2.1 bp.1)
        (data bl.2.1 bp.2.1) fill = some v ∧ lo ≤ v ∧ v ≤ hi := by
  intro bl bp
  refine ⟨_, tie_block_bilinear x y xs ys nrows ncols hr hc data fill, ?_⟩
  have wl : 0 ≤ bl.2.2 ∧ bl.2.2 ≤ 1 := C09.blockBil_weight (y - ys) nrows hr
  have wp : 0 ≤ bp.2.2 ∧ bp.2.2 ≤ 1 := C09.blockBil_weight (x - xs) ncols hc
  exact C09.bilValue_convex data _ _ _ _ _ _ lo hi wl wp (hd _ _) (hd _ _) (hd _ _) (hd _ _)

/-- which source blocks `gradient_resampler_indices` does not search (all-NaN indices): exactly those less than two pixels
thick; every block of at least 2 × 2 pixels is searched -/
theorem code_gradient_block_too_thin (h w : Int) :
    Gen.gradient_block_too_thin (h, w) = decide (h < 2 ∨ w < 2) := by
  simp only [Gen.gradient_block_too_thin, Gen.pyMinI]
  by_cases a : h ≤ w <;> by_cases b : h < 2 <;> by_cases c : w < 2 <;> simp [a, b, c] <;> omega

end PyresampleModel.Tie
