import PyresampleModel.Model.C02
import PyresampleModel.Proofs.Compact
import Mathlib.Tactic.Linarith

/-
  C02 — property theorems for nearest-neighbour resampling.
-/
namespace PyresampleModel.C02

/-- what the kd-tree query is assumed to return for the `k`-th valid target, whose original index
is `j`: the sentinel `n_valid` when no valid source lies within the radius, otherwise the compacted
position of a valid source within the radius that is nearest among all valid sources -/
def QueryOK (srcValid : List Bool) (d2 : Nat → Nat → Rat) (r2 : Rat) (j idx : Nat) : Prop :=
  (idx = srcValid.count true ∧ ∀ s, srcValid[s]? = some true → ¬ d2 s j ≤ r2) ∨
  (∃ s, srcValid[s]? = some true ∧ idx = rank srcValid s ∧ d2 s j ≤ r2 ∧
    ∀ s', srcValid[s']? = some true → d2 s j ≤ d2 s' j)

/-- **nearest neighbour = truly nearest valid source or fill**: for every source/target size,
validity pattern, data column and radius, if the kd-tree answers satisfy `QueryOK` then every
element of the output is
* the fill value when the target location is invalid,
* the fill value when no valid source lies within the radius,
* otherwise the data value of a valid source within the radius that is nearest among all valid
  sources (invalid sources never contribute). -/
theorem nn_pipeline_correct {α} (srcValid : List Bool) (data : List α) (tgtValid : List Bool) (q : List Nat)
    (fill : α) (d2 : Nat → Nat → Rat) (r2 : Rat)
    (hlen : data.length = srcValid.length) (hq : q.length = tgtValid.count true)
    (hspec : ∀ j, tgtValid[j]? = some true → ∀ idx, q[rank tgtValid j]? = some idx → QueryOK srcValid d2 r2 j idx)
    (j : Nat) (_hj : j < tgtValid.length) :
    (tgtValid[j]? = some false → (pipelineNN srcValid data tgtValid q fill)[j]? = some fill) ∧
    (tgtValid[j]? = some true →
      ((∀ s, srcValid[s]? = some true → ¬ d2 s j ≤ r2) →
        (pipelineNN srcValid data tgtValid q fill)[j]? = some fill) ∧
      ((∃ s, srcValid[s]? = some true ∧ d2 s j ≤ r2) →
        ∃ s, srcValid[s]? = some true ∧ d2 s j ≤ r2 ∧ (∀ s', srcValid[s']? = some true → d2 s j ≤ d2 s' j) ∧
          (pipelineNN srcValid data tgtValid q fill)[j]? = data[s]?)) := by
  have hg : (gatherNN (compact data srcValid) (srcValid.count true) fill q).length = tgtValid.count true := by
    simp [gatherNN, hq]
  obtain ⟨hF, hT⟩ := scatter_get fill tgtValid _ j hg
  refine ⟨hF, ?_⟩
  intro ht
  have hr := rank_lt_count tgtValid j ht
  have hidx : ∃ idx, q[rank tgtValid j]? = some idx := by
    have : rank tgtValid j < q.length := by omega
    exact ⟨q[rank tgtValid j], by simp [this]⟩
  obtain ⟨idx, hidx⟩ := hidx
  have hout : (pipelineNN srcValid data tgtValid q fill)[j]? =
      some (if idx = srcValid.count true then fill else (compact data srcValid).getD idx fill) := by
    unfold pipelineNN
    rw [hT ht]
    simp [gatherNN, hidx]
  rcases hspec j ht idx hidx with ⟨hsent, hnone⟩ | ⟨s, hs, hidxs, hin, hmin⟩
  · constructor
    · intro _; rw [hout, if_pos hsent]
    · rintro ⟨s, hs, hin⟩; exact absurd hin (hnone s hs)
  · have hne : idx ≠ srcValid.count true := by
      have := rank_lt_count srcValid s hs; omega
    have hval : (compact data srcValid)[idx]? = data[s]? := by
      rw [hidxs]; exact compact_get_rank data srcValid s hlen hs
    have hslt : s < data.length := by
      have : s < srcValid.length := by
        rcases Nat.lt_or_ge s srcValid.length with h | h
        · exact h
        · rw [List.getElem?_eq_none h] at hs; cases hs
      omega
    constructor
    · intro hnone; exact absurd hin (hnone s hs)
    · intro _
      refine ⟨s, hs, hin, hmin, ?_⟩
      rw [hout, if_neg hne]
      have : data[s]? = some data[s] := by simp [hslt]
      rw [this] at hval ⊢
      simp [List.getD_eq_getElem?_getD, hval]

/-- validity: exactly the in-range finite coordinates are valid -/
theorem validCoord_iff (lon lat : Option Rat) :
    validCoord lon lat = true ↔ ∃ lo la, lon = some lo ∧ lat = some la ∧ -180 ≤ lo ∧ lo ≤ 180 ∧ -90 ≤ la ∧ la ≤ 90 := by
  cases lon <;> cases lat <;> simp [validCoord]
  constructor
  · rintro ⟨⟨⟨h1, h2⟩, h3⟩, h4⟩; exact ⟨h1, h2, h4, h3⟩
  · rintro ⟨h1, h2, h3, h4⟩; exact ⟨⟨⟨h1, h2⟩, h4⟩, h3⟩

/-- the output always has the target's size -/
theorem pipelineNN_length {α} (srcValid : List Bool) (data : List α) (tgtValid : List Bool) (q : List Nat) (fill : α) :
    (pipelineNN srcValid data tgtValid q fill).length = tgtValid.length := by
  simp [pipelineNN, scatter_length]

/-! ### the kd-tree contract is met by brute force -/

def okS (srcValid : List Bool) (d : Nat → Rat) (r2 : Rat) (s : Nat) : Prop := srcValid.getD s false = true ∧ d s ≤ r2

def stepNV (srcValid : List Bool) (d : Nat → Rat) (r2 : Rat) (best : Option Nat) (s : Nat) : Option Nat :=
  if srcValid.getD s false && decide (d s ≤ r2) then
    match best with
    | none => some s
    | some b => if d s < d b then some s else some b
  else best

theorem nearestValid_eq (srcValid : List Bool) (d : Nat → Rat) (r2 : Rat) :
    nearestValid srcValid d r2 = (List.range srcValid.length).foldl (stepNV srcValid d r2) none := rfl

theorem aux_fold (srcValid : List Bool) (d : Nat → Rat) (r2 : Rat) : ∀ (l : List Nat) (best : Option Nat),
    (l.foldl (stepNV srcValid d r2) best = none → best = none ∧ ∀ s ∈ l, ¬ okS srcValid d r2 s) ∧
    (∀ r, l.foldl (stepNV srcValid d r2) best = some r →
      (best = some r ∨ (r ∈ l ∧ okS srcValid d r2 r)) ∧ (∀ b, best = some b → d r ≤ d b) ∧
      ∀ s ∈ l, okS srcValid d r2 s → d r ≤ d s) := by
  intro l
  induction l with
  | nil =>
    intro best
    refine ⟨fun h => ⟨h, by simp⟩, fun r h => ⟨Or.inl h, ?_, by simp⟩⟩
    intro b hb; simp at h; rw [h] at hb; injection hb with hb; rw [hb]
  | cons x xs ih =>
    intro best
    simp only [List.foldl_cons]
    obtain ⟨ihN, ihS⟩ := ih (stepNV srcValid d r2 best x)
    by_cases hok : okS srcValid d r2 x
    · have hcond : (srcValid.getD x false && decide (d x ≤ r2)) = true := by
        have h1 : srcValid.getD x false = true := hok.1
        have h2 := hok.2
        rw [h1]; simpa using h2
      constructor
      · intro h
        obtain ⟨h1, _⟩ := ihN h
        exfalso
        unfold stepNV at h1
        rw [hcond] at h1
        cases best with
        | none => simp at h1
        | some b => simp only [if_true] at h1; split at h1 <;> simp at h1
      · intro r h
        obtain ⟨h1, h2, h3⟩ := ihS r h
        cases best with
        | none =>
          have hs : stepNV srcValid d r2 none x = some x := by unfold stepNV; rw [hcond]; rfl
          rw [hs] at h1 h2
          have hrx : d r ≤ d x := h2 x rfl
          refine ⟨?_, ?_, ?_⟩
          · right
            rcases h1 with h1 | h1
            · injection h1 with h1; rw [← h1]; exact ⟨List.mem_cons_self, hok⟩
            · exact ⟨List.mem_cons_of_mem _ h1.1, h1.2⟩
          · intro b hb; cases hb
          · intro s hs' hoks
            rcases List.mem_cons.mp hs' with rfl | hs'
            · exact hrx
            · exact h3 s hs' hoks
        | some b =>
          by_cases hlt : d x < d b
          · have hs : stepNV srcValid d r2 (some b) x = some x := by
              unfold stepNV; rw [hcond]; simp [hlt]
            rw [hs] at h1 h2
            have hrx : d r ≤ d x := h2 x rfl
            refine ⟨?_, ?_, ?_⟩
            · right
              rcases h1 with h1 | h1
              · injection h1 with h1; rw [← h1]; exact ⟨List.mem_cons_self, hok⟩
              · exact ⟨List.mem_cons_of_mem _ h1.1, h1.2⟩
            · intro b' hb'; injection hb' with hb'; rw [← hb']; linarith
            · intro s hs' hoks
              rcases List.mem_cons.mp hs' with rfl | hs'
              · exact hrx
              · exact h3 s hs' hoks
          · have hs : stepNV srcValid d r2 (some b) x = some b := by
              unfold stepNV; rw [hcond]; simp [hlt]
            rw [hs] at h1 h2
            have hrb : d r ≤ d b := h2 b rfl
            refine ⟨?_, ?_, ?_⟩
            · rcases h1 with h1 | h1
              · left; exact h1
              · right; exact ⟨List.mem_cons_of_mem _ h1.1, h1.2⟩
            · intro b' hb'; injection hb' with hb'; rw [← hb']; exact hrb
            · intro s hs' hoks
              rcases List.mem_cons.mp hs' with rfl | hs'
              · have : d b ≤ d s := not_lt.mp hlt
                linarith
              · exact h3 s hs' hoks
    · have hcond : (srcValid.getD x false && decide (d x ≤ r2)) = false := by
        unfold okS at hok
        by_cases hv : srcValid.getD x false = true
        · have : ¬ d x ≤ r2 := fun h => hok ⟨hv, h⟩
          rw [Bool.and_eq_false_iff]; right; exact decide_eq_false this
        · rw [Bool.and_eq_false_iff]; left; exact Bool.eq_false_iff.mpr hv
      have hs : stepNV srcValid d r2 best x = best := by unfold stepNV; rw [hcond]; rfl
      rw [hs] at ihN ihS
      constructor
      · intro h
        rw [hs] at h
        obtain ⟨h1, h2⟩ := ihN h
        refine ⟨h1, ?_⟩
        intro s hs'
        rcases List.mem_cons.mp hs' with rfl | hs'
        · exact hok
        · exact h2 s hs'
      · intro r h
        rw [hs] at h
        obtain ⟨h1, h2, h3⟩ := ihS r h
        refine ⟨?_, h2, ?_⟩
        · rcases h1 with h1 | h1
          · left; exact h1
          · right; exact ⟨List.mem_cons_of_mem _ h1.1, h1.2⟩
        · intro s hs' hoks
          rcases List.mem_cons.mp hs' with rfl | hs'
          · exact absurd hoks hok
          · exact h3 s hs' hoks
/-- a kd-tree stand-in: the compacted position of the first nearest valid source within the radius, or the sentinel -/
def bruteQuery (srcValid : List Bool) (d2 : Nat → Nat → Rat) (r2 : Rat) (j : Nat) : Nat :=
  match nearestValid srcValid (fun s => d2 s j) r2 with
  | none => srcValid.count true
  | some s => rank srcValid s

theorem aux_getD_iff (l : List Bool) (s : Nat) : l.getD s false = true ↔ l[s]? = some true := by
  rw [List.getD_eq_getElem?_getD]
  cases h : l[s]? with
  | none => simp
  | some b => cases b <;> simp

theorem aux_valid_lt (l : List Bool) (s : Nat) (h : l[s]? = some true) : s < l.length := by
  by_contra hn
  rw [List.getElem?_eq_none (by omega)] at h
  cases h

theorem brute_query_ok (srcValid : List Bool) (d2 : Nat → Nat → Rat) (r2 : Rat) (j : Nat) :
    QueryOK srcValid d2 r2 j (bruteQuery srcValid d2 r2 j) := by
  unfold bruteQuery
  have hf := aux_fold srcValid (fun s => d2 s j) r2 (List.range srcValid.length) none
  rw [← nearestValid_eq] at hf
  obtain ⟨hN, hS⟩ := hf
  cases hres : nearestValid srcValid (fun s => d2 s j) r2 with
  | none =>
    left
    refine ⟨rfl, ?_⟩
    intro s hs hle
    have hlt := aux_valid_lt srcValid s hs
    exact (hN hres).2 s (List.mem_range.mpr hlt) ⟨(aux_getD_iff srcValid s).mpr hs, hle⟩
  | some r =>
    right
    obtain ⟨h1, _, h3⟩ := hS r hres
    rcases h1 with h1 | ⟨_, hok⟩
    · cases h1
    · refine ⟨r, (aux_getD_iff srcValid r).mp hok.1, rfl, hok.2, ?_⟩
      intro s' hs'
      have hlt := aux_valid_lt srcValid s' hs'
      by_cases hle : d2 s' j ≤ r2
      · exact h3 s' (List.mem_range.mpr hlt) ⟨(aux_getD_iff srcValid s').mpr hs', hle⟩
      · have : r2 < d2 s' j := not_le.mp hle
        have := hok.2
        simp only at this
        linarith

/-- **the contract is satisfiable, and with it the whole pipeline is the specification**: when the query answers are those of the
brute-force search (`bruteQuery`, which meets `QueryOK` by `brute_query_ok`), the output of the nearest-neighbour pipeline is, for
every source/target size, validity pattern, data column and radius, the fill value at invalid targets and where no valid source
is within the radius, and otherwise the value of a nearest valid source within the radius - with no hypothesis left -/
theorem nn_bruteforce_spec {α} (srcValid : List Bool) (data : List α) (tgtValid : List Bool)
    (fill : α) (d2 : Nat → Nat → Rat) (r2 : Rat) (hlen : data.length = srcValid.length)
    (j : Nat) (hj : j < tgtValid.length) :
    let q := compact ((List.range tgtValid.length).map (bruteQuery srcValid d2 r2)) tgtValid
    (tgtValid[j]? = some false → (pipelineNN srcValid data tgtValid q fill)[j]? = some fill) ∧
    (tgtValid[j]? = some true →
      ((∀ s, srcValid[s]? = some true → ¬ d2 s j ≤ r2) →
        (pipelineNN srcValid data tgtValid q fill)[j]? = some fill) ∧
      ((∃ s, srcValid[s]? = some true ∧ d2 s j ≤ r2) →
        ∃ s, srcValid[s]? = some true ∧ d2 s j ≤ r2 ∧ (∀ s', srcValid[s']? = some true → d2 s j ≤ d2 s' j) ∧
          (pipelineNN srcValid data tgtValid q fill)[j]? = data[s]?)) := by
  intro q
  have hml : ((List.range tgtValid.length).map (bruteQuery srcValid d2 r2)).length = tgtValid.length := by simp
  have hq : q.length = tgtValid.count true := compact_length _ _ hml
  apply nn_pipeline_correct srcValid data tgtValid q fill d2 r2 hlen hq _ j hj
  intro j' hv idx hidx
  have hlt := aux_valid_lt tgtValid j' hv
  have := compact_get_rank ((List.range tgtValid.length).map (bruteQuery srcValid d2 r2)) tgtValid j' hml hv
  rw [this] at hidx
  simp [hlt] at hidx
  rw [← hidx]
  exact brute_query_ok srcValid d2 r2 j'

/-! non-vacuity: 3 sources (middle one invalid), 3 targets (last invalid); query answers satisfy QueryOK -/
example : pipelineNN [true, false, true] [10, 20, 30] [true, true, false] [1, 2] (-1) = [30, -1, -1] := by decide

end PyresampleModel.C02
