import PyresampleModel.Model.C02

/-
  C02 — property theorems (stub: none yet).
-/
namespace PyresampleModel.C02

end PyresampleModel.C02
