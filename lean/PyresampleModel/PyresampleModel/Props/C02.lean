import PyresampleModel.Model.C02
import PyresampleModel.Proofs.Compact

/-
  C02 — property theorems for nearest-neighbour resampling.
-/
namespace PyresampleModel.C02

/-- what the kd-tree query is assumed to return for the `k`-th valid target, whose original index
is `j`: the sentinel `n_valid` when no valid source lies within the radius, otherwise the compacted
position of a valid source within the radius that is nearest among all valid sources -/
def QueryOK (srcValid : List Bool) (d2 : Nat → Nat → Rat) (r2 : Rat) (j idx : Nat) : Prop :=
  (idx = srcValid.count true ∧ ∀ s, srcValid[s]? = some true → ¬ d2 s j ≤ r2) ∨
  (∃ s, srcValid[s]? = some true ∧ idx = rank srcValid s ∧ d2 s j ≤ r2 ∧
    ∀ s', srcValid[s']? = some true → d2 s j ≤ d2 s' j)

/-- **nearest neighbour = truly nearest valid source or fill**: for every source/target size,
validity pattern, data column and radius, if the kd-tree answers satisfy `QueryOK` then every
element of the output is
* the fill value when the target location is invalid,
* the fill value when no valid source lies within the radius,
* otherwise the data value of a valid source within the radius that is nearest among all valid
  sources (invalid sources never contribute). -/
theorem nn_pipeline_correct {α} (srcValid : List Bool) (data : List α) (tgtValid : List Bool) (q : List Nat)
    (fill : α) (d2 : Nat → Nat → Rat) (r2 : Rat)
    (hlen : data.length = srcValid.length) (hq : q.length = tgtValid.count true)
    (hspec : ∀ j, tgtValid[j]? = some true → ∀ idx, q[rank tgtValid j]? = some idx → QueryOK srcValid d2 r2 j idx)
    (j : Nat) (_hj : j < tgtValid.length) :
    (tgtValid[j]? = some false → (pipelineNN srcValid data tgtValid q fill)[j]? = some fill) ∧
    (tgtValid[j]? = some true →
      ((∀ s, srcValid[s]? = some true → ¬ d2 s j ≤ r2) →
        (pipelineNN srcValid data tgtValid q fill)[j]? = some fill) ∧
      ((∃ s, srcValid[s]? = some true ∧ d2 s j ≤ r2) →
        ∃ s, srcValid[s]? = some true ∧ d2 s j ≤ r2 ∧ (∀ s', srcValid[s']? = some true → d2 s j ≤ d2 s' j) ∧
          (pipelineNN srcValid data tgtValid q fill)[j]? = data[s]?)) := by
  have hg : (gatherNN (compact data srcValid) (srcValid.count true) fill q).length = tgtValid.count true := by
    simp [gatherNN, hq]
  obtain ⟨hF, hT⟩ := scatter_get fill tgtValid _ j hg
  refine ⟨hF, ?_⟩
  intro ht
  have hr := rank_lt_count tgtValid j ht
  have hidx : ∃ idx, q[rank tgtValid j]? = some idx := by
    have : rank tgtValid j < q.length := by omega
    exact ⟨q[rank tgtValid j], by simp [this]⟩
  obtain ⟨idx, hidx⟩ := hidx
  have hout : (pipelineNN srcValid data tgtValid q fill)[j]? =
      some (if idx = srcValid.count true then fill else (compact data srcValid).getD idx fill) := by
    unfold pipelineNN
    rw [hT ht]
    simp [gatherNN, hidx]
  rcases hspec j ht idx hidx with ⟨hsent, hnone⟩ | ⟨s, hs, hidxs, hin, hmin⟩
  · constructor
    · intro _; rw [hout, if_pos hsent]
    · rintro ⟨s, hs, hin⟩; exact absurd hin (hnone s hs)
  · have hne : idx ≠ srcValid.count true := by
      have := rank_lt_count srcValid s hs; omega
    have hval : (compact data srcValid)[idx]? = data[s]? := by
      rw [hidxs]; exact compact_get_rank data srcValid s hlen hs
    have hslt : s < data.length := by
      have : s < srcValid.length := by
        rcases Nat.lt_or_ge s srcValid.length with h | h
        · exact h
        · rw [List.getElem?_eq_none h] at hs; cases hs
      omega
    constructor
    · intro hnone; exact absurd hin (hnone s hs)
    · intro _
      refine ⟨s, hs, hin, hmin, ?_⟩
      rw [hout, if_neg hne]
      have : data[s]? = some data[s] := by simp [hslt]
      rw [this] at hval ⊢
      simp [List.getD_eq_getElem?_getD, hval]

/-- validity: exactly the in-range finite coordinates are valid -/
theorem validCoord_iff (lon lat : Option Rat) :
    validCoord lon lat = true ↔ ∃ lo la, lon = some lo ∧ lat = some la ∧ -180 ≤ lo ∧ lo ≤ 180 ∧ -90 ≤ la ∧ la ≤ 90 := by
  cases lon <;> cases lat <;> simp [validCoord]
  constructor
  · rintro ⟨⟨⟨h1, h2⟩, h3⟩, h4⟩; exact ⟨h1, h2, h4, h3⟩
  · rintro ⟨h1, h2, h3, h4⟩; exact ⟨⟨⟨h1, h2⟩, h4⟩, h3⟩

/-- the output always has the target's size -/
theorem pipelineNN_length {α} (srcValid : List Bool) (data : List α) (tgtValid : List Bool) (q : List Nat) (fill : α) :
    (pipelineNN srcValid data tgtValid q fill).length = tgtValid.length := by
  simp [pipelineNN, scatter_length]

/-! non-vacuity: 3 sources (middle one invalid), 3 targets (last invalid); query answers satisfy QueryOK -/
example : pipelineNN [true, false, true] [10, 20, 30] [true, true, false] [1, 2] (-1) = [30, -1, -1] := by decide

end PyresampleModel.C02
