import PyresampleModel.Gen.Src
import PyresampleModel.Model.C06
import PyresampleModel.Proofs.Num

/-
  Tie theorems, C06: the whole analytic solver. `_calc_abc` (the coefficients of the quadratic both solver branches use) and `_resample` (the
  four bilinear weights applied to the corner values), as translated from /repo's current source with the numpy
  expressions read elementwise (`pt[:, 0]` = x of the point, `pt[:, 1]` = y), equal the model's `calcABC` / `resample`.
-/
namespace PyresampleModel.Tie
open PyresampleModel

theorem tie_calc_abc (p1 p2 p3 p4 : C06.Pt) (oy ox : Rat) :
    Gen.calc_abc ((p1.x, p1.y), (p2.x, p2.y), (p3.x, p3.y), (p4.x, p4.y)) oy ox = C06.calcABC p1 p2 p3 p4 oy ox := by
  simp [Gen.calc_abc, C06.calcABC]

theorem tie_bil_resample (v1 v2 v3 v4 s t : Rat) :
    Gen.bil_resample (v1, v2, v3, v4) (s, t) = C06.resample v1 v2 v3 v4 s t := by
  simp [Gen.bil_resample, C06.resample]

/-! ### the NaN-aware part of the solver (NaN and ±inf = `none`, as in the model)

`find_indices_outside_min_and_max`, `_solve_another_fractional_distance`, `_get_fractional_distances_parallellogram`
(including the sign of `x_31 · t` that finding F10 is about: the tie holds for the code AS IT IS) and `_solve_quadratic`
with `np.sqrt` as a parameter, as translated from /repo's current source, equal the model's `in01`/`keep01`,
`solveAnother`, `parallelogram`, `solveQuadratic`. -/

theorem find_outside_some (v : Rat) : Gen.find_outside (some v) 0 1 = !C06.in01 v := by
  simp only [Gen.find_outside, Gen.nLt, Gen.nGt, C06.in01]
  by_cases h0 : v < 0 <;> by_cases h1 : v > 1 <;> simp [h0, h1, not_le.mpr, not_lt.mp]

theorem find_outside_none (lo hi : Rat) : Gen.find_outside none lo hi = false := by
  simp [Gen.find_outside, Gen.nLt, Gen.nGt]

theorem keep_eq (x : Option Rat) :
    (if Gen.find_outside x 0 1 then (none : Option Rat) else x) = C06.keep01 x := by
  cases x with
  | none => simp [find_outside_none, C06.keep01]
  | some v => simp only [find_outside_some, C06.keep01]; cases C06.in01 v <;> simp

theorem pyAbsQ_eq06 (q : Rat) : Gen.pyAbsQ q = C06.absQ q := by
  simp only [Gen.pyAbsQ, C06.absQ]
  by_cases h : q < 0
  · simp [h, not_le.mpr h]
  · simp [h, not_lt.mp h]

theorem pyMaxQ_eq06 (a b : Rat) : Gen.pyMaxQ a b = C06.maxQ a b := by
  simp only [Gen.pyMaxQ, C06.maxQ]
  by_cases h : a ≤ b
  · by_cases h' : a ≥ b
    · have : a = b := le_antisymm h h'
      simp [this]
    · simp [h, h']
  · have : a ≥ b := le_of_lt (not_le.mp h)
    simp [h, this]

theorem tie_solve_another (f : Option Rat) (y1 y2 y3 y4 oy : Rat) :
    Gen.solve_another f (y1, y2, y3, y4) oy = C06.solveAnother f y1 y2 y3 y4 oy := by
  cases f with
  | none =>
    simp [Gen.solve_another, C06.solveAnother, Gen.nSub, Gen.nAdd, Gen.nMul, Gen.nLift2, Gen.nAbs, Gen.nLe, Gen.nDiv,
      find_outside_none]
  | some f =>
    simp only [Gen.solve_another, C06.solveAnother, Gen.nSub, Gen.nAdd, Gen.nMul, Gen.nLift2, Gen.nAbs, Gen.nLe,
      Option.map, pyAbsQ_eq06, pyMaxQ_eq06, C06.tiny6]
    by_cases h : C06.absQ (y3 + (y4 - y3) * f - y1 - (y2 - y1) * f) ≤
        mkRat 4722366482869645 4722366482869645213696 * C06.maxQ (C06.absQ (y2 - y1)) (C06.absQ (y4 - y3))
    · simp [h, find_outside_none]
    · simp only [h, decide_false, Bool.false_eq_true, if_false]
      have := keep_eq (Gen.nDiv (some (oy - y1 - (y2 - y1) * f)) (some (y3 + (y4 - y3) * f - y1 - (y2 - y1) * f)))
      simp only [Int.cast_zero, Int.cast_one] at *
      rw [this]
      simp [Gen.nDiv, C06.divQ]

theorem tie_bil_parallelogram (p1 p2 p3 : C06.Pt) (oy ox : Rat) :
    (let r := Gen.bil_parallelogram ((p1.x, p1.y), (p2.x, p2.y), (p3.x, p3.y)) oy ox
     C06.both r.1 r.2) = C06.parallelogram p1 p2 p3 ox oy := by
  simp only [Gen.bil_parallelogram, C06.parallelogram, keep_eq]
  have d1 : Gen.nDiv (some ((p2.x - p1.x) * (oy - p1.y) - (p2.y - p1.y) * (ox - p1.x)))
      (some ((p2.x - p1.x) * (p3.y - p1.y) - (p2.y - p1.y) * (p3.x - p1.x))) =
      C06.divQ ((p2.x - p1.x) * (oy - p1.y) - (p2.y - p1.y) * (ox - p1.x))
        ((p2.x - p1.x) * (p3.y - p1.y) - (p2.y - p1.y) * (p3.x - p1.x)) := by
    simp [Gen.nDiv, C06.divQ]
  rw [d1]
  cases ht : C06.keep01 (C06.divQ ((p2.x - p1.x) * (oy - p1.y) - (p2.y - p1.y) * (ox - p1.x))
        ((p2.x - p1.x) * (p3.y - p1.y) - (p2.y - p1.y) * (p3.x - p1.x))) with
  | none => simp [Gen.nAdd, Gen.nMul, Gen.nLift2, Gen.nDiv, C06.keep01, C06.both]
  | some t => simp [Gen.nAdd, Gen.nMul, Gen.nLift2, Gen.nDiv, C06.divQ]

theorem keep01_none : C06.keep01 none = none := rfl

theorem chain_eq (x1 x2 x3 : Option Rat) :
    (if Gen.find_outside (if (Gen.find_outside (if (Gen.find_outside x1 0 1 || x1.isNone) then x2 else x1) 0 1 ||
          (if (Gen.find_outside x1 0 1 || x1.isNone) then x2 else x1).isNone) then x3
        else (if (Gen.find_outside x1 0 1 || x1.isNone) then x2 else x1)) 0 1 then (none : Option Rat)
     else (if (Gen.find_outside (if (Gen.find_outside x1 0 1 || x1.isNone) then x2 else x1) 0 1 ||
          (if (Gen.find_outside x1 0 1 || x1.isNone) then x2 else x1).isNone) then x3
        else (if (Gen.find_outside x1 0 1 || x1.isNone) then x2 else x1))) =
      (match C06.keep01 x1 with
       | some v => some v
       | none => match C06.keep01 x2 with
         | some v => some v
         | none => C06.keep01 x3) := by
  rcases x1 with _ | a <;> rcases x2 with _ | b <;> rcases x3 with _ | c <;>
    simp only [find_outside_none, find_outside_some, C06.keep01, Option.isNone_none, Option.isNone_some, Bool.or_true,
      Bool.or_false, if_true, Bool.false_eq_true, if_false] <;>
    (repeat' split) <;> simp_all [find_outside_some, find_outside_none]

theorem tie_solve_quadratic (sq : Rat → Option Rat) (a b c : Rat) :
    Gen.solve_quadratic sq a b c 0 1 = (C06.solveQuadratic (a, b, c) (sq (b * b - 4 * a * c))).map (·.1) := by
  simp only [Gen.solve_quadratic, chain_eq]
  have half : mkRat 1 2 = (1 / 2 : Rat) := by decide +kernel
  have d3 : Gen.nDiv (some (-c)) (some b) = C06.divQ (-c) b := by simp [Gen.nDiv, C06.divQ]
  have hd : (b * b - ((4 : Int) : Rat) * a * c) = b * b - 4 * a * c := by push_cast; ring
  simp only [Int.cast_zero, hd, d3, half, Gen.nBind, Option.bind_some]
  cases hr : sq (b * b - 4 * a * c) with
  | none =>
    by_cases hb : b < 0 <;>
      simp [hb, C06.solveQuadratic, keep01_none, Gen.nMul, Gen.nAdd, Gen.nLift2, Gen.nDiv] <;>
      (cases C06.keep01 (C06.divQ (-c) b) <;> simp)
  | some r =>
    have q1 : ∀ q x : Rat, Gen.nDiv (some q) (some x) = C06.divQ q x := by intro q x; simp [Gen.nDiv, C06.divQ]
    by_cases hb : b < 0 <;>
      simp only [hb, C06.solveQuadratic, C06.stableRoots, Gen.nMul, Gen.nAdd, Gen.nLift2, q1, decide_true, decide_false,
        if_true, if_false, Bool.false_eq_true] <;>
      (repeat' split) <;> simp_all

end PyresampleModel.Tie
