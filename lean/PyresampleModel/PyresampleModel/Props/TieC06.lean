import PyresampleModel.Gen.Src
import PyresampleModel.Model.C06
import PyresampleModel.Proofs.Num

/-
  Tie theorems, C06: `_calc_abc` (the coefficients of the quadratic both solver branches use) and `_resample` (the
  four bilinear weights applied to the corner values), as translated from /repo's current source with the numpy
  expressions read elementwise (`pt[:, 0]` = x of the point, `pt[:, 1]` = y), equal the model's `calcABC` / `resample`.
-/
namespace PyresampleModel.Tie
open PyresampleModel

theorem tie_calc_abc (p1 p2 p3 p4 : C06.Pt) (oy ox : Rat) :
    Gen.calc_abc ((p1.x, p1.y), (p2.x, p2.y), (p3.x, p3.y), (p4.x, p4.y)) oy ox = C06.calcABC p1 p2 p3 p4 oy ox := by
  simp [Gen.calc_abc, C06.calcABC]

theorem tie_bil_resample (v1 v2 v3 v4 s t : Rat) :
    Gen.bil_resample (v1, v2, v3, v4) (s, t) = C06.resample v1 v2 v3 v4 s t := by
  simp [Gen.bil_resample, C06.resample]

end PyresampleModel.Tie
