import PyresampleModel.Props.TieC02
import PyresampleModel.Props.CodeC19

/-
  C02 — what the nearest-neighbour pipeline takes from the translated code: the legal-coordinate tests (`TieC02`) and the
  row segmentation `geometry._get_slice` that `kd_tree.get_neighbour_info` uses to cut the target into `segments` pieces —
  by default more than one piece for targets above 6 million locations. The per-segment results are appended in order and
  read as the row-major flattening of the target, which is right exactly because the pieces are consecutive blocks of whole
  rows covering every row once (`code_get_slice_partition_2d`).
-/
namespace PyresampleModel.Tie
open PyresampleModel

/-- the pieces `_get_slice` yields for a 2-D target are `(slice(a, b), slice(None))`: whole rows, consecutive, covering
`[0, rows)` exactly; so concatenating per-piece results in order is the row-major order of the target -/
theorem code_segments_are_row_blocks (segments rows : Nat) (cols : Int) (hseg : 1 ≤ segments) :
    ∃ l : List (Nat × Nat), Gen.get_slice_2d (rows + 1) segments ((rows : Int), cols) = some (l.map conv2) ∧
      C19.Chain 0 rows l ∧ ∀ p ∈ l.map conv2, p.2 = ⟨none, none, none⟩ := by
  obtain ⟨l, h1, h2, _⟩ := code_get_slice_partition_2d segments rows cols hseg
  refine ⟨l, h1, h2, ?_⟩
  intro p hp
  simp only [List.mem_map] at hp
  obtain ⟨q, _, rfl⟩ := hp
  rfl

end PyresampleModel.Tie
