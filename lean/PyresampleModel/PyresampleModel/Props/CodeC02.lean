import PyresampleModel.Props.TieC02
import PyresampleModel.Props.CodeC19
import PyresampleModel.Proofs.Num

/-
  C02 — what the nearest-neighbour pipeline takes from the translated code: the legal-coordinate tests (`TieC02`) and the
  row segmentation `geometry._get_slice` that `kd_tree.get_neighbour_info` uses to cut the target into `segments` pieces —
  by default more than one piece for targets above 6 million locations. The per-segment results are appended in order and
  read as the row-major flattening of the target, which is right exactly because the pieces are consecutive blocks of whole
  rows covering every row once (`code_get_slice_partition_2d`).
-/
namespace PyresampleModel.Tie
open PyresampleModel

/-- the pieces `_get_slice` yields for a 2-D target are `(slice(a, b), slice(None))`: whole rows, consecutive, covering
`[0, rows)` exactly; so concatenating per-piece results in order is the row-major order of the target -/
theorem code_segments_are_row_blocks (segments rows : Nat) (cols : Int) (hseg : 1 ≤ segments) :
    ∃ l : List (Nat × Nat), Gen.get_slice_2d (rows + 1) segments ((rows : Int), cols) = some (l.map conv2) ∧
      C19.Chain 0 rows l ∧ ∀ p ∈ l.map conv2, p.2 = ⟨none, none, none⟩ := by
  obtain ⟨l, h1, h2, _⟩ := code_get_slice_partition_2d segments rows cols hseg
  refine ⟨l, h1, h2, ?_⟩
  intro p hp
  simp only [List.mem_map] at hp
  obtain ⟨q, _, rfl⟩ := hp
  rfl

/-- the default number of segments of `get_neighbour_info`: an explicit value is used as it is; otherwise one segment up to
3 million target locations and `⌊size / 3 000 000⌋ ≥ 1` above -/
theorem code_default_segments (seg : Option Int) (size : Nat) :
    Gen.kd_default_segments seg size =
      (match seg with
       | some s => s
       | none => if size > 3000000 then ((size / 3000000 : Nat) : Int) else 1) ∧
    (seg = none → 1 ≤ Gen.kd_default_segments seg size) := by
  have key : (size : Int) > 3000000 → pyTrunc ((((size : Nat) : Int) : Rat) / ((3000000 : Int) : Rat)) = ((size / 3000000 : Nat) : Int) := by
    intro _
    have h : ((((size : Nat) : Int) : Rat) / ((3000000 : Int) : Rat)) = ((size : Rat) / ((3000000 : Nat) : Rat)) := by push_cast; rfl
    rw [h, pyTrunc_of_nonneg (by positivity), pyFloor_eq, Rat.floor_natCast_div_natCast]
    norm_cast
  cases seg with
  | some s => simp [Gen.kd_default_segments]
  | none =>
    by_cases hs : (size : Int) > 3000000
    · have hs' : size > 3000000 := by exact_mod_cast hs
      simp only [Gen.kd_default_segments, hs, decide_true, if_true, key hs, hs']
      refine ⟨trivial, fun _ => ?_⟩
      have : 1 ≤ size / 3000000 := Nat.div_pos (by omega) (by omega)
      exact_mod_cast this
    · have hs' : ¬ size > 3000000 := by exact_mod_cast hs
      simp [Gen.kd_default_segments, hs, hs']

end PyresampleModel.Tie
