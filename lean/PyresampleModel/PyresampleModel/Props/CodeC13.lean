import PyresampleModel.Props.C13
import PyresampleModel.Props.TieC13x

/-
  C13 — "area creation is parameter-set independent", TRANSFERRED TO THE TRANSLATED CODE: `_extrapolate_information`
  as regenerated from /repo's current source recovers the same extent and shape from every sufficient description of a
  grid (all quantities in the CRS's own units), raises on a contradiction, and leaves extent / shape undetermined when
  information is missing.
-/
namespace PyresampleModel.Tie
open PyresampleModel

theorem code_extrapolate_of_model (d : C13.Desc) (f : C13.Found) (h : C13.extrapolate d = some f) :
    Gen.extrapolate_information d.extent d.shape d.center d.radius d.resolution d.ule =
      some (f.extent, f.shape, d.resolution) := by
  rw [tie_extrapolate_information, h]; rfl

theorem code_extrapolate_raises (d : C13.Desc) (h : C13.extrapolate d = none) :
    Gen.extrapolate_information d.extent d.shape d.center d.radius d.resolution d.ule = none := by
  rw [tie_extrapolate_information, h]; rfl

theorem createArea_eq_extrapolate (d : C13.Desc) (h : d.extent = none ∨ d.shape = none) :
    C13.createArea d = C13.extrapolate d := by
  obtain ⟨e, s, c, r, res, u⟩ := d
  rcases h with h | h <;> simp only at h <;> subst h
  · rfl
  · cases e <;> rfl

variable {x0 y0 x1 y1 : Rat} {h w : Nat}

/-- centre + radius + shape -/
theorem code_desc2 (x0 y0 x1 y1 : Rat) (h w : Nat) :
    Gen.extrapolate_information none (some ((h : Rat), (w : Rat))) (some ((x1 + x0) / 2, (y1 + y0) / 2))
      (some ((x1 - x0) / 2, (y1 - y0) / 2)) none none =
      some (some (x0, y0, x1, y1), some ((h : Rat), (w : Rat)), none) := by
  have m := C13.desc2_center_radius_shape x0 y0 x1 y1 h w
  rw [createArea_eq_extrapolate _ (Or.inl rfl)] at m
  exact code_extrapolate_of_model _ _ m

/-- centre + resolution + shape -/
theorem code_desc3 (hg : C13.WFG x0 y0 x1 y1 h w) :
    Gen.extrapolate_information none (some ((h : Rat), (w : Rat))) (some ((x1 + x0) / 2, (y1 + y0) / 2)) none
      (some ((x1 - x0) / w, (y1 - y0) / h)) none =
      some (some (x0, y0, x1, y1), some ((h : Rat), (w : Rat)), some ((x1 - x0) / w, (y1 - y0) / h)) := by
  have m := C13.desc3_center_resolution_shape hg
  rw [createArea_eq_extrapolate _ (Or.inl rfl)] at m
  exact code_extrapolate_of_model _ _ m

/-- upper-left extent + resolution + shape -/
theorem code_desc4 (hg : C13.WFG x0 y0 x1 y1 h w) :
    Gen.extrapolate_information none (some ((h : Rat), (w : Rat))) none none
      (some ((x1 - x0) / w, (y1 - y0) / h)) (some (x0, y1)) =
      some (some (x0, y0, x1, y1), some ((h : Rat), (w : Rat)), some ((x1 - x0) / w, (y1 - y0) / h)) := by
  have m := C13.desc4_ule_resolution_shape hg
  rw [createArea_eq_extrapolate _ (Or.inl rfl)] at m
  exact code_extrapolate_of_model _ _ m

/-- centre + radius + resolution (the shape is found by rounding 2·radius/resolution) -/
theorem code_desc5 (hg : C13.WFG x0 y0 x1 y1 h w) :
    Gen.extrapolate_information none none (some ((x1 + x0) / 2, (y1 + y0) / 2)) (some ((x1 - x0) / 2, (y1 - y0) / 2))
      (some ((x1 - x0) / w, (y1 - y0) / h)) none =
      some (some (x0, y0, x1, y1), some ((h : Rat), (w : Rat)), some ((x1 - x0) / w, (y1 - y0) / h)) := by
  have m := C13.desc5_center_radius_resolution hg
  rw [createArea_eq_extrapolate _ (Or.inl rfl)] at m
  exact code_extrapolate_of_model _ _ m

/-- extent + resolution -/
theorem code_desc6 (hg : C13.WFG x0 y0 x1 y1 h w) :
    Gen.extrapolate_information (some (x0, y0, x1, y1)) none none none (some ((x1 - x0) / w, (y1 - y0) / h)) none =
      some (some (x0, y0, x1, y1), some ((h : Rat), (w : Rat)), some ((x1 - x0) / w, (y1 - y0) / h)) := by
  have m := C13.desc6_extent_resolution hg
  rw [createArea_eq_extrapolate _ (Or.inr rfl)] at m
  exact code_extrapolate_of_model _ _ m

/-- contradictions raise: an extent with a centre that is not (close to) the extent's own centre -/
theorem code_contradiction_raises (x0 y0 x1 y1 : Rat) (c : C13.P2) (res : Option C13.P2)
    (hc : C13.close2 c ((x1 + x0) / 2, (y1 + y0) / 2) = false) :
    Gen.extrapolate_information (some (x0, y0, x1, y1)) none (some c) none res none = none := by
  have m := C13.contradiction_raises x0 y0 x1 y1 c res hc
  rw [createArea_eq_extrapolate _ (Or.inr rfl)] at m
  exact code_extrapolate_raises _ m

end PyresampleModel.Tie
