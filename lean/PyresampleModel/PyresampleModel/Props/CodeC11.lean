import PyresampleModel.Props.C11
import PyresampleModel.Props.TieC11
import PyresampleModel.Props.TieGrid

/-
  C11 — "cropping never discards a needed pixel", TRANSFERRED TO THE TRANSLATED CODE (same-CRS branch and the
  bounds → slices step of the different-CRS branch): statements about the definitions regenerated from /repo's current
  `_get_slice_starts_stops`, `get_array_coordinates_from_projection_coordinates`, `_create_slices_from_bounds`.
-/
namespace PyresampleModel.Tie
open PyresampleModel

/-- **same CRS, both areas in the usual orientation**: with the array coordinates of the target's corners computed by
the area's own conversion (as translated), every in-range source pixel (r, c) that contains — or is nearest to — an
array position (u, v) strictly inside the target's extent lies inside the slices `_get_slice_starts_stops` returns -/
theorem code_samecrs_covers (g : Grid) (llx lly urx ury : Rat)
    (hx : ¬ g.x0 > g.x1) (hy : ¬ g.y0 > g.y1) (htx : ¬ llx > urx) (hty : ¬ lly > ury)
    (u v : Rat) (c r : Int)
    (hu0 : g.arrX llx < u) (hu1 : u < g.arrX urx) (hv0 : g.arrY ury < v) (hv1 : v < g.arrY lly)
    (hc : (c : Rat) - 1/2 ≤ u ∧ u ≤ (c : Rat) + 1/2) (hc0 : 0 ≤ c) (hcn : c < g.w)
    (hr : (r : Rat) - 1/2 ≤ v ∧ v ≤ (r : Rat) + 1/2) (hr0 : 0 ≤ r) (hrn : r < g.h) :
    let a := Gen.array_from_proj llx lly g.dx g.dy (g.uplx, g.uply)
    let b := Gen.array_from_proj urx ury g.dx g.dy (g.uplx, g.uply)
    let s := Gen.get_slice_starts_stops llx lly urx ury (a.1, b.1) (a.2, b.2) (g.x0, g.y0, g.x1, g.y1) g.w g.h
    s.1 ≤ c ∧ c < s.2.1 ∧ s.2.2.1 ≤ r ∧ r < s.2.2.2 := by
  simp only [tie_array_from_proj, tie_get_slice_starts_stops, hx, hy, htx, hty, decide_false, bne_self_eq_false]
  have X := C11.samecrs_covers_axis g.w (g.arrX llx) (g.arrX urx) u c hu0 hu1 hc hc0 hcn
  have Y := C11.samecrs_covers_axis g.h (g.arrY ury) (g.arrY lly) v r hv0 hv1 hr hr0 hrn
  simp only [C11.samecrs_y_eq_x, Bool.not_false, C11.samecrs_flip]
  exact ⟨X.1, X.2, Y.1, Y.2⟩

/-- **different CRS, bounds → slices**: if the array-coordinate bounds of the (buffered) target polygon contain the
position (u, v) of a needed target centre, every in-grid pixel containing or nearest to it lies inside the slices that
`_create_slices_from_bounds` (with `expand_slice`) returns, in whatever order the two bounds of an axis are given -/
theorem code_bounds_slices_cover (xa xb ya yb u v : Rat) (c r : Int)
    (hxu : Gen.pyMinQ xa xb ≤ u ∧ u ≤ Gen.pyMaxQ xa xb) (hyv : Gen.pyMinQ ya yb ≤ v ∧ v ≤ Gen.pyMaxQ ya yb)
    (hc : (c : Rat) - 1/2 ≤ u ∧ u ≤ (c : Rat) + 1/2) (hc0 : 0 ≤ c)
    (hr : (r : Rat) - 1/2 ≤ v ∧ v ≤ (r : Rat) + 1/2) (hr0 : 0 ≤ r) :
    let s := Gen.create_slices_from_bounds ((xa, xb), (ya, yb))
    s.1.start ≤ c ∧ c < s.1.stop ∧ s.2.start ≤ r ∧ r < s.2.stop ∧ s.1.step = none ∧ s.2.step = none := by
  simp only [tie_create_slices_from_bounds]
  have X := C11.bounds_slices_cover _ _ u c hxu.1 hxu.2 hc hc0
  have Y := C11.bounds_slices_cover _ _ v r hyv.1 hyv.2 hr hr0
  exact ⟨X.1, X.2, Y.1, Y.2, trivial, trivial⟩

end PyresampleModel.Tie
