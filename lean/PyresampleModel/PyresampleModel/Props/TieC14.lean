import PyresampleModel.Gen.Src
import PyresampleModel.Model.C14
import PyresampleModel.Proofs.Num

/-
  Tie theorems, C14: the two branches of `DynamicAreaDefinition.compute_domain` (from `if shape:` to the `return`)
  as translated from /repo's current source equal the model's `domainShape` / `domainRes`.
-/
namespace PyresampleModel.Tie
open PyresampleModel

theorem tie_compute_domain_shape (c : C14.Corners) (h w : Nat) :
    Gen.compute_domain_shape (c.xmin, c.ymin, c.xmax, c.ymax) ((h : Int), (w : Int)) =
      (let d := C14.domainShape c h w; ((d.x0, d.y0, d.x1, d.y1), d.w, d.h)) := by
  simp [Gen.compute_domain_shape, C14.domainShape]

theorem tie_compute_domain_res (c : C14.Corners) (rx ry : Rat) :
    Gen.compute_domain_res (c.xmin, c.ymin, c.xmax, c.ymax) (rx, ry) =
      (let d := C14.domainRes c rx ry; ((d.x0, d.y0, d.x1, d.y1), d.w, d.h)) := by
  simp [Gen.compute_domain_res, C14.domainRes]

/-- `_update_corners_for_full_extent` with missing x corners and a shape: the model's `fullExtentShape`
(`west` / `east` = the CRS's area of use, obtained from pyproj) -/
theorem tie_update_corners_shape (west east : Rat) (c : C14.Corners) (h w : Nat) :
    Gen.update_corners_shape (none, c.ymin, none, c.ymax) ((h : Int), (w : Int)) west east =
      (let c' := C14.fullExtentShape west east c w; (some c'.xmin, c'.ymin, some c'.xmax, c'.ymax)) := by
  simp [Gen.update_corners_shape, C14.fullExtentShape]

/-- … and with a resolution -/
theorem tie_update_corners_res (west east : Rat) (c : C14.Corners) (rx ry : Rat) :
    Gen.update_corners_res (none, c.ymin, none, c.ymax) (rx, ry) west east =
      (let c' := C14.fullExtentRes west east c rx; (some c'.xmin, c'.ymin, some c'.xmax, c'.ymax)) := by
  simp [Gen.update_corners_res, C14.fullExtentRes]

/-- given x corners are returned unchanged -/
theorem tie_update_corners_given (x0 : Rat) (x1 : Option Rat) (y0 y1 west east : Rat) (s : Int × Int) :
    Gen.update_corners_shape (some x0, y0, x1, y1) s west east = (some x0, y0, x1, y1) := by
  simp [Gen.update_corners_shape]

/-- the statements of `freeze` between the projection handling and the `return` (the body of the final `if` — the call of
`compute_domain(corners, resolution, shape, projection)` — and the `return AreaDefinition(…, width, height, area_extent)` are required
verbatim; the `if`'s test is translated), as translated from /repo's current source, are the model's `freezePlan` -/
theorem tie_freeze_plan (argRes selfRes : Option Rat) (argShape : Option (Option Int × Option Int)) (selfShape : Option Int × Option Int)
    (selfExtent : Option (Rat × Rat × Rat × Rat)) :
    Gen.freeze_plan argRes selfRes argShape selfShape selfExtent =
      (let p := C14.freezePlan argRes selfRes argShape selfShape selfExtent
       (p.res, p.shape, p.height, p.width, p.extent, p.need)) := by
  rcases selfShape with ⟨s1, s2⟩
  cases argRes <;> rcases argShape with _ | ⟨a1, a2⟩
  all_goals first
    | (cases a1 <;> cases a2 <;> cases s1 <;> cases s2 <;> simp [Gen.freeze_plan, C14.freezePlan, C14.dimGiven, Option.orElse])
    | (cases s1 <;> cases s2 <;> simp [Gen.freeze_plan, C14.freezePlan, C14.dimGiven, Option.orElse])

/-- **explicitly given extent and shape are kept**: with an extent on the instance and two non-zero dimensions (as arguments or on
the instance) nothing is computed — the regenerated plan returns exactly that extent, width and height to the constructor call -/
theorem code_freeze_keeps_explicit (argRes selfRes : Option Rat) (argShape : Option (Option Int × Option Int))
    (selfShape : Option Int × Option Int) (e : Rat × Rat × Rat × Rat) (h w : Int)
    (hs : argShape.getD selfShape = (some h, some w)) (hh : h ≠ 0) (hw : w ≠ 0) :
    let r := Gen.freeze_plan argRes selfRes argShape selfShape (some e)
    r.2.2.2.2.2 = false ∧ r.2.2.2.2.1 = some e ∧ r.2.2.1 = some h ∧ r.2.2.2.1 = some w := by
  intro r
  have h0 : r = _ := tie_freeze_plan argRes selfRes argShape selfShape (some e)
  rw [h0]
  simp [C14.freezePlan, hs, C14.dimGiven, hh, hw]

/-- **an explicit argument wins**: the resolution / shape given to `freeze` is what `compute_domain` gets, the instance's value
only when the argument is `None`; without an extent the domain is always computed from the data -/
theorem code_freeze_argument_wins (r selfRes : Option Rat) (rq : Rat) (sh : Option Int × Option Int)
    (selfShape : Option Int × Option Int) (ext : Option (Rat × Rat × Rat × Rat)) :
    (Gen.freeze_plan (some rq) selfRes (some sh) selfShape ext).1 = some rq ∧
    (Gen.freeze_plan none selfRes (some sh) selfShape ext).1 = selfRes ∧
    (Gen.freeze_plan r selfRes (some sh) selfShape ext).2.2.1 = sh.1 ∧
    (Gen.freeze_plan r selfRes none selfShape ext).2.2.1 = selfShape.1 ∧
    (Gen.freeze_plan r selfRes (some sh) selfShape none).2.2.2.2.2 = true := by
  simp [tie_freeze_plan, C14.freezePlan, Option.orElse]

example : Gen.freeze_plan none (some 1000) none (some 10, none) none = (some 1000, none, some 10, none, none, true) := by rfl
example : Gen.freeze_plan none none (some (some 4, some 5)) (none, none) (some (0, 0, 5, 4)) =
    (none, some (some 4, some 5), some 4, some 5, some (0, 0, 5, 4), false) := by rfl

end PyresampleModel.Tie
