import PyresampleModel.Gen.Src
import PyresampleModel.Model.C14
import PyresampleModel.Proofs.Num

/-
  Tie theorems, C14: the two branches of `DynamicAreaDefinition.compute_domain` (from `if shape:` to the `return`)
  as translated from /repo's current source equal the model's `domainShape` / `domainRes`.
-/
namespace PyresampleModel.Tie
open PyresampleModel

theorem tie_compute_domain_shape (c : C14.Corners) (h w : Nat) :
    Gen.compute_domain_shape (c.xmin, c.ymin, c.xmax, c.ymax) ((h : Int), (w : Int)) =
      (let d := C14.domainShape c h w; ((d.x0, d.y0, d.x1, d.y1), d.w, d.h)) := by
  simp [Gen.compute_domain_shape, C14.domainShape]

theorem tie_compute_domain_res (c : C14.Corners) (rx ry : Rat) :
    Gen.compute_domain_res (c.xmin, c.ymin, c.xmax, c.ymax) (rx, ry) =
      (let d := C14.domainRes c rx ry; ((d.x0, d.y0, d.x1, d.y1), d.w, d.h)) := by
  simp [Gen.compute_domain_res, C14.domainRes]

/-- `_update_corners_for_full_extent` with missing x corners and a shape: the model's `fullExtentShape`
(`west` / `east` = the CRS's area of use, obtained from pyproj) -/
theorem tie_update_corners_shape (west east : Rat) (c : C14.Corners) (h w : Nat) :
    Gen.update_corners_shape (none, c.ymin, none, c.ymax) ((h : Int), (w : Int)) west east =
      (let c' := C14.fullExtentShape west east c w; (some c'.xmin, c'.ymin, some c'.xmax, c'.ymax)) := by
  simp [Gen.update_corners_shape, C14.fullExtentShape]

/-- … and with a resolution -/
theorem tie_update_corners_res (west east : Rat) (c : C14.Corners) (rx ry : Rat) :
    Gen.update_corners_res (none, c.ymin, none, c.ymax) (rx, ry) west east =
      (let c' := C14.fullExtentRes west east c rx; (some c'.xmin, c'.ymin, some c'.xmax, c'.ymax)) := by
  simp [Gen.update_corners_res, C14.fullExtentRes]

/-- given x corners are returned unchanged -/
theorem tie_update_corners_given (x0 : Rat) (x1 : Option Rat) (y0 y1 west east : Rat) (s : Int × Int) :
    Gen.update_corners_shape (some x0, y0, x1, y1) s west east = (some x0, y0, x1, y1) := by
  simp [Gen.update_corners_shape]

end PyresampleModel.Tie
