import PyresampleModel.Gen.Src
import PyresampleModel.Model.C14
import PyresampleModel.Proofs.Num

/-
  Tie theorems, C14: the two branches of `DynamicAreaDefinition.compute_domain` (from `if shape:` to the `return`)
  as translated from /repo's current source equal the model's `domainShape` / `domainRes`.
-/
namespace PyresampleModel.Tie
open PyresampleModel

theorem tie_compute_domain_shape (c : C14.Corners) (h w : Nat) :
    Gen.compute_domain_shape (c.xmin, c.ymin, c.xmax, c.ymax) ((h : Int), (w : Int)) =
      (let d := C14.domainShape c h w; ((d.x0, d.y0, d.x1, d.y1), d.w, d.h)) := by
  simp [Gen.compute_domain_shape, C14.domainShape]

theorem tie_compute_domain_res (c : C14.Corners) (rx ry : Rat) :
    Gen.compute_domain_res (c.xmin, c.ymin, c.xmax, c.ymax) (rx, ry) =
      (let d := C14.domainRes c rx ry; ((d.x0, d.y0, d.x1, d.y1), d.w, d.h)) := by
  simp [Gen.compute_domain_res, C14.domainRes]

end PyresampleModel.Tie
