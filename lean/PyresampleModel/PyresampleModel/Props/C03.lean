import PyresampleModel.Model.C03
import PyresampleModel.Props.C02
import PyresampleModel.Props.C19
import PyresampleModel.Props.C15
import PyresampleModel.Proofs.Num

/-
  C03 — property theorems: segments / reduction / worker count / info reuse / empty shortcuts.
-/
namespace PyresampleModel.C03
open PyresampleModel.C19 PyresampleModel.C02

theorem aux_chain_ranges : ∀ (sl : List (Nat × Nat)) (a b : Nat), Chain a b sl →
    (sl.map (fun s => List.range' s.1 (s.2 - s.1))).flatten = List.range' a (b - a) := by
  intro sl
  induction sl with
  | nil => intro a b h; simp [Chain] at h; subst h; simp
  | cons s ss ih =>
    intro a b h
    obtain ⟨s1, s2⟩ := s
    simp only [Chain] at h
    obtain ⟨rfl, hlt, hrest⟩ := h
    have hle : s2 ≤ b := by
      clear ih
      induction ss generalizing s2 with
      | nil => simp [Chain] at hrest; omega
      | cons t ts iht =>
        obtain ⟨t1, t2⟩ := t
        simp only [Chain] at hrest
        have := iht t2 (by omega) hrest.2.2
        omega
    simp only [List.map_cons, List.flatten_cons, ih s2 b hrest]
    have : b - s1 = (s2 - s1) + (b - s2) := by omega
    rw [this, ← List.range'_append_1]
    congr 2; omega

/-- **the number of segments is invisible**: for every target size and every segment count ≥ 1,
querying segment by segment and appending the results through `RowAppendableArray` gives exactly
the rows of the single query, in order, with no uninitialised cell -/
theorem segments_invisible {β} (q : Nat → β) (size segments : Nat) (hseg : 1 ≤ segments) (hsize : 0 < size) :
    segmentedQuery q size segments = some ((plainQuery q size).map some) := by
  unfold segmentedQuery plainQuery
  have hch := getSlice_partition segments size hseg
  have hne : (getSlice segments size).map (fun s => (List.range' s.1 (s.2 - s.1)).map q) ≠ [] := by
    intro h
    have : getSlice segments size = [] := by simpa using h
    rw [this] at hch; simp [Chain] at hch; omega
  rw [append_eq_concat size _ hne]
  congr 2
  have : ((getSlice segments size).map (fun s => (List.range' s.1 (s.2 - s.1)).map q)).flatten =
      (((getSlice segments size).map (fun s => List.range' s.1 (s.2 - s.1))).flatten).map q := by
    rw [List.map_flatten, List.map_map]; rfl
  rw [this, aux_chain_ranges _ 0 size hch, List.range_eq_range', Nat.sub_zero]

theorem aux_reduce_get (srcValid keep : List Bool) (_hl : srcValid.length = keep.length) (s : Nat) :
    (reduceValid srcValid keep)[s]? = some true ↔ (srcValid[s]? = some true ∧ keep[s]? = some true) := by
  simp only [reduceValid, List.getElem?_zipWith]
  cases h1 : srcValid[s]? <;> cases h2 : keep[s]? <;> simp

/-- **data reduction is invisible exactly when its window is sound**: if every valid source that
lies within the radius of the target location is kept by the reduction, then an answer that is
correct for the reduced source set (sentinel iff no reduced source in range, else a nearest reduced
source in range) is also correct for the full source set: same "no neighbour" verdict, and the
chosen source is nearest among ALL valid sources. -/
theorem reduction_invisible_of_sound (srcValid keep : List Bool) (hl : srcValid.length = keep.length)
    (d2 : Nat → Nat → Rat) (r2 : Rat) (j : Nat)
    (hsound : ∀ s, srcValid[s]? = some true → d2 s j ≤ r2 → keep[s]? = some true) :
    ((∀ s, (reduceValid srcValid keep)[s]? = some true → ¬ d2 s j ≤ r2) ↔
      (∀ s, srcValid[s]? = some true → ¬ d2 s j ≤ r2)) ∧
    (∀ s, (reduceValid srcValid keep)[s]? = some true → d2 s j ≤ r2 →
      (∀ s', (reduceValid srcValid keep)[s']? = some true → d2 s j ≤ d2 s' j) →
      srcValid[s]? = some true ∧ ∀ s', srcValid[s']? = some true → d2 s j ≤ d2 s' j) := by
  constructor
  · constructor
    · intro h s hs hin
      exact h s ((aux_reduce_get _ _ hl s).mpr ⟨hs, hsound s hs hin⟩) hin
    · intro h s hs
      exact h s ((aux_reduce_get _ _ hl s).mp hs).1
  · intro s hs hin hmin
    refine ⟨((aux_reduce_get _ _ hl s).mp hs).1, ?_⟩
    intro s' hs'
    by_cases hin' : d2 s' j ≤ r2
    · exact hmin s' ((aux_reduce_get _ _ hl s').mpr ⟨hs', hsound s' hs' hin'⟩)
    · exact le_of_lt (lt_of_le_of_lt hin (not_le.mp hin'))

/-- … and the converse: a reduction that drops the unique in-range source changes the verdict -/
theorem reduction_visible_of_unsound :
    ∃ (srcValid keep : List Bool) (d2 : Nat → Nat → Rat) (r2 : Rat),
      (∃ s, srcValid[s]? = some true ∧ d2 s 0 ≤ r2) ∧
      (∀ s, (reduceValid srcValid keep)[s]? = some true → ¬ d2 s 0 ≤ r2) :=
  ⟨[true], [false], fun _ _ => 0, 1, ⟨0, rfl, by norm_num⟩, by intro s hs; cases s <;> simp [reduceValid] at hs⟩

/-- **empty-result shortcut** = the general pipeline run on "no valid source" -/
theorem empty_shortcut_agrees {α} (data : List α) (nTarget : Nat) (fill : α) :
    pipelineNN (List.replicate data.length false) data (emptyInfo nTarget data.length).1
      ((emptyInfo nTarget data.length).2.map (fun _ => 0)) fill = emptySample nTarget fill := by
  simp only [emptyInfo, emptySample, pipelineNN, gatherNN, List.map_replicate]
  have hc : (List.replicate data.length false).count true = 0 := by simp [List.count_replicate]
  rw [hc]
  simp only [if_true]
  induction nTarget with
  | zero => simp [scatter]
  | succ n ih => simp only [List.replicate_succ, scatter, ih]

/-- **the split into neighbour info + sampling and the reuse of neighbour info**: the sample is a
function of (info, data) only — so info computed once gives, for every dataset, what the one-shot
call gives -/
theorem info_reuse {α} (srcValid tgtValid : List Bool) (q : List Nat) (fill : α) (datasets : List (List α)) :
    datasets.map (fun d => pipelineNN srcValid d tgtValid q fill) =
      datasets.map (fun d => scatter fill tgtValid (gatherNN (compact d srcValid) (srcValid.count true) fill q)) := rfl

/-- **the number of worker processes is invisible**: whatever the interleaving, assembling the
per-slice results of the scheduler's slices gives the single-process result (from C15) -/
theorem nprocs_invisible {α β} (c : C15.Cfg) (n workers : Nat) (hc : 1 ≤ c.chunk) (hW : 0 < workers)
    (sched : List Nat) (hdone : ∀ pc ∈ (C15.run c (C15.init n workers) sched).pcs, pc = C15.Pc.done)
    (f : α → β) (x : List α) (hx : x.length = n) (res : List β) (hr : res.length = n) :
    C15.assemble f x (C15.slicesOf (C15.run c (C15.init n workers) sched).yielded) res = x.map f :=
  (C15.scheduler_exact_cover c n workers hc hW sched hdone f x hx res hr).2.2.2

example : segmentedQuery (fun i => i * 10) 5 2 = some [some 0, some 10, some 20, some 30, some 40] := by decide

end PyresampleModel.C03
