import PyresampleModel.Model.C03

/-
  C03 — property theorems (stub: none yet).
-/
namespace PyresampleModel.C03

end PyresampleModel.C03
