import PyresampleModel.Gen.Src
import PyresampleModel.Model.C19
import PyresampleModel.Proofs.Num

/-
  Tie theorems, C19 (also used by C03): the definitions GENERATED from /repo's current source
  (`Gen/Src.lean`, written by harness/py2lean.py on every run) equal the hand-written model that the
  property theorems of `Props/C19.lean` are about.  If `_make_slice_divisible` or `_get_slice` changes,
  the generated definition changes and these proofs stop compiling.
-/
namespace PyresampleModel.Tie
open PyresampleModel

/-- `_make_slice_divisible(slice(s, e), m, f)` as translated from the source = the model (f > 0) -/
theorem tie_make_slice_divisible (s e m f : Int) (hf : 0 < f) :
    let r := Gen.make_slice_divisible ⟨s, e, none⟩ m f
    (r.start, r.stop) = C19.makeSliceDivisible s e m f := by
  simp only [Gen.make_slice_divisible, C19.makeSliceDivisible, Int.fmod_eq_emod_of_nonneg _ (Int.le_of_lt hf)]
  split <;> simp_all
  (repeat' split) <;> simp_all

/-- the result never carries a step -/
theorem tie_make_slice_divisible_step (s e m f : Int) :
    (Gen.make_slice_divisible ⟨s, e, none⟩ m f).step = none := by
  simp only [Gen.make_slice_divisible]
  (repeat' split) <;> rfl

/-- `int(np.ceil(float(n) / d))` in exact arithmetic is the model's ceiling division -/
theorem pyCeil_natDiv (n d : Nat) (hd : 1 ≤ d) :
    pyCeil (((n : Int) : Rat) / ((d : Int) : Rat)) = ((ceilDiv n d : Nat) : Int) := by
  rw [pyCeil_eq]
  have : (((n : Int) : Rat) / ((d : Int) : Rat)) = ((n : Rat) / (d : Rat)) := by push_cast; rfl
  rw [this, Rat.ceil_natCast_div_natCast]
  unfold ceilDiv
  have hdpos : (0 : Int) < d := by exact_mod_cast hd
  have h1 : d * ((n + d - 1) / d) ≤ n + d - 1 := Nat.mul_div_le _ _
  have h2 : n + d - 1 < d * ((n + d - 1) / d) + d := by
    have := Nat.lt_mul_div_succ (n + d - 1) (show 0 < d by omega)
    rw [Nat.mul_add] at this; simpa using this
  generalize (n + d - 1) / d = q at *
  have key : (-(n : Int)) / (d : Int) = -(q : Int) ∧ (-(n : Int)) % (d : Int) = (d : Int) * q - n := by
    rw [Int.ediv_emod_unique hdpos]
    refine ⟨by ring, ?_, ?_⟩
    · have : (n : Int) ≤ d * q := by
        have : n ≤ d * q := by omega
        exact_mod_cast this
      omega
    · have : ((d * q : Nat) : Int) < n + d := by
        have : d * q < n + d := by omega
        exact_mod_cast this
      push_cast at this; omega
  rw [key.1]; simp

/-- a model slice `(start, stop)` as the Python `slice(start, stop)` the generator yields -/
def conv1 (p : Nat × Nat) : Gen.PySl Int := ⟨(p.1 : Int), (p.2 : Int), none⟩

/-- … and as the pair `(slice(start, stop), slice(None))` yielded for 2-D shapes -/
def conv2 (p : Nat × Nat) : Gen.PySl Int × Gen.PySl (Option Int) := (conv1 p, ⟨none, none, none⟩)

theorem pyMinI_nat (a b : Nat) : Gen.pyMinI (a : Int) (b : Int) = ((min a b : Nat) : Int) := by
  simp only [Gen.pyMinI]; split <;> omega

theorem loop1_eq (shape : Int) (size len : Nat) :
    ∀ (fuel a b : Nat) (out : List (Gen.PySl Int)),
      (Gen.get_slice_1d_loop1 shape (size : Int) (len : Int) fuel ((a : Int), (b : Int), out)).2.2 =
        out ++ (C19.getSliceLoop size len fuel a b).map conv1 := by
  intro fuel
  induction fuel with
  | zero => intro a b out; simp [Gen.get_slice_1d_loop1, C19.getSliceLoop]
  | succ k ih =>
    intro a b out
    have hmin : Gen.pyMinI ((b : Int) + (len : Int)) (size : Int) = ((min (b + len) size : Nat) : Int) := by
      have := pyMinI_nat (b + len) size; push_cast at this; simpa using this
    by_cases h : a < size
    · have h' : (a : Int) < (size : Int) := by exact_mod_cast h
      simp only [Gen.get_slice_1d_loop1, C19.getSliceLoop, h, h', decide_true, if_true, hmin]
      rw [ih]; simp [conv1]
    · have h' : ¬ (a : Int) < (size : Int) := by exact_mod_cast h
      simp [Gen.get_slice_1d_loop1, C19.getSliceLoop, h, h']

theorem loop2_eq (shape : Int × Int) (size len : Nat) :
    ∀ (fuel a b : Nat) (out : List (Gen.PySl Int × Gen.PySl (Option Int))),
      (Gen.get_slice_2d_loop1 shape (size : Int) (len : Int) fuel ((a : Int), (b : Int), out)).2.2 =
        out ++ (C19.getSliceLoop size len fuel a b).map conv2 := by
  intro fuel
  induction fuel with
  | zero => intro a b out; simp [Gen.get_slice_2d_loop1, C19.getSliceLoop]
  | succ k ih =>
    intro a b out
    have hmin : Gen.pyMinI ((b : Int) + (len : Int)) (size : Int) = ((min (b + len) size : Nat) : Int) := by
      have := pyMinI_nat (b + len) size; push_cast at this; simpa using this
    by_cases h : a < size
    · have h' : (a : Int) < (size : Int) := by exact_mod_cast h
      simp only [Gen.get_slice_2d_loop1, C19.getSliceLoop, h, h', decide_true, if_true, hmin]
      rw [ih]; simp [conv2, conv1]
    · have h' : ¬ (a : Int) < (size : Int) := by exact_mod_cast h
      simp [Gen.get_slice_2d_loop1, C19.getSliceLoop, h, h']

/-- `list(_get_slice(segments, (size,)))` as translated from the source = the model, with `size + 1` units of
fuel for the `while` loop (the model's own bound), for every size and every segments ≥ 1 -/
theorem tie_get_slice_1d (seg size : Nat) (hseg : 1 ≤ seg) :
    Gen.get_slice_1d (size + 1) (seg : Int) (size : Int) = some ((C19.getSlice seg size).map conv1) := by
  simp only [Gen.get_slice_1d, C19.getSlice, pyCeil_natDiv size seg hseg]
  have := loop1_eq (size : Int) size (ceilDiv size seg) (size + 1) 0 (ceilDiv size seg) []
  simp at this
  simp [this]

/-- `list(_get_slice(segments, (size, cols)))`: the same row slices, each paired with `slice(None)` -/
theorem tie_get_slice_2d (seg size : Nat) (cols : Int) (hseg : 1 ≤ seg) :
    Gen.get_slice_2d (size + 1) (seg : Int) ((size : Int), cols) = some ((C19.getSlice seg size).map conv2) := by
  simp only [Gen.get_slice_2d, C19.getSlice, pyCeil_natDiv size seg hseg]
  have := loop2_eq ((size : Int), cols) size (ceilDiv size seg) (size + 1) 0 (ceilDiv size seg) []
  simp at this
  simp [this]

/-- the last statements of `get_area_slices` (different-CRS branch): the x slice is adjusted against the source's WIDTH and
the y slice against its HEIGHT, both with the caller's factor, then both go through `check_slice_orientation` -/
theorem tie_get_area_slices_tail (xs ys : Gen.PySl Int) (w h : Int) (f : Option Int) :
    Gen.get_area_slices_tail xs ys w h f =
      (match f with
       | some k => (Gen.check_slice_orientation (Gen.make_slice_divisible xs w k),
                    Gen.check_slice_orientation (Gen.make_slice_divisible ys h k))
       | none => (Gen.check_slice_orientation xs, Gen.check_slice_orientation ys)) := by
  cases f <;> rfl

/-! ### `RowAppendableArray.append_row` / `to_array` (1-D arrays, or stacks of rows read row by row) -/
section RowAppend
open C19

/-- reading of the model's cells: an uninitialised cell (`none`) holds the arbitrary value `g` -/
def rdCells (g : Int) (l : List (Option Int)) : List Int := l.map (·.getD g)

theorem pySliceStore_to_end (x e : List Int) (c : Nat) (hc : c ≤ x.length) (he : e.length = x.length - c) :
    Gen.pySliceStore x (c : Int) none e = some (x.take c ++ e) := by
  unfold Gen.pySliceStore Gen.pyClampIdx
  have h1 : ¬ ((c : Int) < 0) := by omega
  simp only [h1, if_false, Int.toNat_natCast, Nat.min_eq_left hc]
  rw [if_pos he]
  have : c + (x.length - c) = x.length := by omega
  simp [this]

theorem pySliceStore_mid (x e : List Int) (c : Nat) (hc : c + e.length ≤ x.length) :
    Gen.pySliceStore x (c : Int) (some ((c : Int) + (e.length : Int))) e = some (x.take c ++ e ++ x.drop (c + e.length)) := by
  unfold Gen.pySliceStore Gen.pyClampIdx
  have h1 : ¬ ((c : Int) < 0) := by omega
  have h2 : ¬ ((c : Int) + (e.length : Int) < 0) := by omega
  have h3 : ((c : Int) + (e.length : Int)).toNat = c + e.length := by omega
  simp only [h1, h2, if_false, Int.toNat_natCast, h3, Nat.min_eq_left (show c ≤ x.length by omega), Nat.min_eq_left hc]
  have : c + e.length - c = e.length := by omega
  simp [this]

theorem rdCells_length (g : Int) (l : List (Option Int)) : (rdCells g l).length = l.length := by simp [rdCells]

/-- the two branches of the generated body on an allocated buffer `d` -/
theorem row_append_core (g : Int) (d : List (Option Int)) (c : Nat) (next : List Int) (hc : c ≤ d.length) (cap : Int) :
    Gen.row_append g cap (some (rdCells g d)) (c : Int) next
      = some (rdCells g (if c + next.length > d.length then
                d.take c ++ (next.take (d.length - c)).map some ++ (next.drop (d.length - c)).map some
              else d.take c ++ next.map some ++ d.drop (c + next.length)), ((c + next.length : Nat) : Int)) := by
  have hl := rdCells_length g d
  unfold Gen.row_append
  simp only [hl]
  by_cases h : c + next.length > d.length
  · have h' : ((c : Int) + (next.length : Int) > (d.length : Int)) := by omega
    have hrem : ((d.length : Int) - (c : Int)) = ((d.length - c : Nat) : Int) := by omega
    have hnn : ¬ (((d.length - c : Nat) : Int) < 0) := by omega
    simp only [h', decide_true, if_true, hrem, Gen.pyListTake, Gen.pyListDrop, hnn, if_false, Int.toNat_natCast, h]
    rw [pySliceStore_to_end _ _ c (by omega) (by simp [hl]; omega)]
    simp [rdCells, List.map_take, Function.comp_def]
  · have h' : ¬ ((c : Int) + (next.length : Int) > (d.length : Int)) := by omega
    simp only [h', decide_false, h, if_false]
    rw [pySliceStore_mid _ _ c (by rw [hl]; omega)]
    simp [rdCells, List.map_take, List.map_drop, Function.comp_def]

/-- the first append allocates: from there on the code runs as on an allocated buffer full of the arbitrary value -/
theorem row_append_alloc (g cap c : Int) (next : List Int) :
    Gen.row_append g cap none c next = Gen.row_append g cap (some (List.replicate cap.toNat g)) c next := by
  unfold Gen.row_append; rfl

/-- **one append**: `RowAppendableArray.append_row` as translated from the source, run on the reading of a model state whose
cursor is inside its buffer (which `cursor_le_buffer` proves of every reachable state), never raises and yields the reading of
the model's next state -/
theorem tie_row_append (g : Int) (s : RowApp Int) (next : List Int) (hc : s.cursor ≤ s.buf.length) :
    Gen.row_append g (s.cap : Int) (s.data.map (rdCells g)) (s.cursor : Int) next
      = some (rdCells g (s.appendRow next).buf, ((s.appendRow next).cursor : Int)) := by
  have key : ∀ d : List (Option Int), s.buf = d → s.cursor ≤ d.length →
      Gen.row_append g (s.cap : Int) (some (rdCells g d)) (s.cursor : Int) next
        = some (rdCells g (s.appendRow next).buf, ((s.appendRow next).cursor : Int)) := by
    intro d hd hcd
    rw [row_append_core g d s.cursor next hcd]
    unfold RowApp.appendRow
    simp only [hd]
    by_cases h : s.cursor + next.length > d.length <;> simp [h, RowApp.buf]
  cases hdat : s.data with
  | some d =>
    have hb : s.buf = d := by simp [RowApp.buf, hdat]
    simpa [hdat] using key d hb (hb ▸ hc)
  | none =>
    have hb : s.buf = List.replicate s.cap none := by simp [RowApp.buf, hdat]
    have := key _ hb (hb ▸ hc)
    simp only [Option.map_none, row_append_alloc]
    simpa [rdCells] using this

/-- `to_array` as translated = the reading of the model's `toArray` (cursor inside the buffer) -/
theorem tie_row_to_array (g : Int) (d : List (Option Int)) (c : Nat) :
    Gen.row_to_array (rdCells g d) (c : Int) = rdCells g (d.take c) := by
  simp [Gen.row_to_array, Gen.pyListTake, rdCells, List.map_take]

end RowAppend

end PyresampleModel.Tie
