import PyresampleModel.Props.C19
import PyresampleModel.Props.TieC19

/-
  C19 — the property theorems of `Props/C19.lean` TRANSFERRED TO THE TRANSLATED CODE: statements about the Lean
  definitions that harness/py2lean.py regenerates from /repo's current source on every run (`Gen/Src.lean`), obtained by
  rewriting with the tie theorems.  These are the end-to-end statements: "the code as it stands now satisfies the
  property", for every input, modulo the translator's semantics (DESIGN.md §13.2).
-/
namespace PyresampleModel.Tie
open PyresampleModel

/-- **`_make_slice_divisible` as it stands in /repo meets the divisibility contract** for every non-empty in-bounds slice,
every axis length and every factor ≥ 1: result in bounds; non-empty with length divisible by the factor whenever the
axis is at least one factor long; still covering the original whenever the axis has room for the next multiple -/
theorem code_make_slice_divisible_contract (start stop maxSize factor : Int)
    (h0 : 0 ≤ start) (h1 : start < stop) (h2 : stop ≤ maxSize) (hf : 1 ≤ factor) :
    let r := Gen.make_slice_divisible ⟨start, stop, none⟩ maxSize factor
    (0 ≤ r.start ∧ r.start ≤ r.stop ∧ r.stop ≤ maxSize) ∧
    (factor ≤ maxSize → r.start < r.stop ∧ (r.stop - r.start) % factor = 0) ∧
    (C19.nextMultiple (stop - start) factor ≤ maxSize → r.start ≤ start ∧ stop ≤ r.stop) ∧
    r.step = none := by
  have t := tie_make_slice_divisible start stop maxSize factor (by omega)
  have c := C19.divisible_contract start stop maxSize factor h0 h1 h2 hf
  have s := tie_make_slice_divisible_step start stop maxSize factor
  simp only at t c ⊢
  rw [← t] at c
  exact ⟨c.1, c.2.1, c.2.2, s⟩

/-- **`_get_slice` as it stands in /repo partitions `[0, size)`** (1-D shapes): for every size and every segment count
≥ 1 the yielded slices are `slice(a, b)` with consecutive, non-empty `[a, b)` covering `[0, size)` exactly, at most
`segments` of them -/
theorem code_get_slice_partition (segments size : Nat) (hseg : 1 ≤ segments) :
    ∃ l : List (Nat × Nat), Gen.get_slice_1d (size + 1) segments size = some (l.map conv1) ∧
      C19.Chain 0 size l ∧ l.length ≤ segments :=
  ⟨C19.getSlice segments size, tie_get_slice_1d segments size hseg, C19.getSlice_partition segments size hseg,
    C19.getSlice_length_le segments size hseg⟩

/-- … and for 2-D shapes: the same row slices, each paired with `slice(None)` for the columns -/
theorem code_get_slice_partition_2d (segments size : Nat) (cols : Int) (hseg : 1 ≤ segments) :
    ∃ l : List (Nat × Nat), Gen.get_slice_2d (size + 1) segments ((size : Int), cols) = some (l.map conv2) ∧
      C19.Chain 0 size l ∧ l.length ≤ segments :=
  ⟨C19.getSlice segments size, tie_get_slice_2d segments size cols hseg, C19.getSlice_partition segments size hseg,
    C19.getSlice_length_le segments size hseg⟩

/-- **the slice `_enumerate_chunk_slices` builds for position `p` of an axis is the model's `axisSlices` entry**: offset = sum of
the preceding chunks, length = the chunk itself — for every chunk tuple and every position on it.  (The enumeration order over
the axes — `np.ndindex` — and the loop frame are required verbatim by the translator; `enumerate_mem_iff` / `axisSlices_chain`
of `Props/C19.lean` then give: every position exactly once, consecutive slices covering each axis.) -/
theorem tie_chunk_slice (cs : List Nat) (p : Nat) (hp : p < cs.length) :
    (C19.axisSlices cs 0)[p]? =
      some (((Gen.chunk_slice (cs.map Int.ofNat) p).start).toNat, ((Gen.chunk_slice (cs.map Int.ofNat) p).stop).toNat) ∧
    (Gen.chunk_slice (cs.map Int.ofNat) p).step = none := by
  have hg := C19.axisSlices_get cs 0 p hp
  have hneg : ¬ ((p : Int) < 0) := by omega
  have hget : Gen.pyListGet (cs.map Int.ofNat) (p : Int) = ((cs[p]! : Nat) : Int) := by
    simp only [Gen.pyListGet, hneg, if_false, Int.toNat_natCast]
    simp [List.getD, hp]
  have hsum : ∀ l : List Nat, (l.map Int.ofNat).sum = ((l.sum : Nat) : Int) := by
    intro l
    induction l with
    | nil => simp
    | cons a l ih => simp [ih]
  have htake : (Gen.pyListTake (cs.map Int.ofNat) (p : Int)).sum = (((cs.take p).sum : Nat) : Int) := by
    simp only [Gen.pyListTake, hneg, if_false, Int.toNat_natCast, ← List.map_take, hsum]
  refine ⟨?_, rfl⟩
  rw [hg]
  simp only [Gen.chunk_slice, hget, htake, Nat.zero_add]
  have e : (((cs.take p).sum : Nat) : Int) + ((cs[p]! : Nat) : Int) = (((cs.take p).sum + cs[p]! : Nat) : Int) := by
    push_cast; rfl
  rw [e]
  simp only [Int.toNat_natCast, Nat.zero_add]

/-! ### `RowAppendableArray` -/
section RowAppend
open C19

/-- **the property on the translated code**: start from `RowAppendableArray(cap)`, feed any non-empty sequence of rows
through the regenerated `append_row` (threading the state the code itself returns), then the regenerated `to_array`:
no step raises and the result is the concatenation of the rows — whatever `np.empty` left in the buffer. -/
def runAppends (g cap : Int) : Option (List Int) × Int → List (List Int) → Option (Option (List Int) × Int)
  | st, [] => some st
  | (d, c), r :: rs => match Gen.row_append g cap d c r with
    | none => none
    | some (d', c') => runAppends g cap (some d', c') rs

theorem aux_append_cap {α} (s : RowApp α) (next : List α) : (s.appendRow next).cap = s.cap := by
  unfold RowApp.appendRow; simp only []; split <;> rfl

theorem run_eq_model (g : Int) (rows : List (List Int)) : ∀ (s : RowApp Int) (sofar : List Int), s.Inv sofar →
    runAppends g (s.cap : Int) (s.data.map (rdCells g), (s.cursor : Int)) rows
      = some ((((rows.foldl RowApp.appendRow s).data).map (rdCells g)), ((rows.foldl RowApp.appendRow s).cursor : Int)) := by
  induction rows with
  | nil => intro s sofar _; simp [runAppends]
  | cons r rs ih =>
    intro s sofar h
    obtain ⟨d, hd⟩ := aux_append_data s r
    have hb : (s.appendRow r).buf = d := by simp [RowApp.buf, hd]
    have hstep := tie_row_append g s r h.2.1
    have hnext := ih (s.appendRow r) (sofar ++ r) (aux_append_inv s sofar r h)
    rw [aux_append_cap, hd] at hnext
    simp only [runAppends, hstep, hb, List.foldl_cons]
    simpa using hnext

/-- **C19 on the translated code** -/
theorem code_row_appends_concat (g : Int) (cap : Nat) (rows : List (List Int)) (hne : rows ≠ []) :
    ∃ d c, runAppends g (cap : Int) (none, 0) rows = some (some d, c) ∧ Gen.row_to_array d c = rows.flatten := by
  have hinit : (RowApp.new cap : RowApp Int).Inv [] := by simp [RowApp.Inv, RowApp.new]
  have hrun := run_eq_model g rows (RowApp.new cap) [] hinit
  have hcat := append_eq_concat cap rows hne
  have hinv := aux_foldl_inv rows (RowApp.new cap) [] hinit
  generalize rows.foldl RowApp.appendRow (RowApp.new cap) = fin at hrun hcat hinv
  cases hdat : fin.data with
  | none => simp [RowApp.toArray, hdat] at hcat
  | some d =>
    refine ⟨rdCells g d, (fin.cursor : Int), ?_, ?_⟩
    · simpa [RowApp.new, hdat] using hrun
    · rw [tie_row_to_array]
      simp only [RowApp.toArray, hdat, Option.map_some, Option.some.injEq] at hcat
      simp [hcat, rdCells, Function.comp_def]

end RowAppend

end PyresampleModel.Tie
