import PyresampleModel.Props.C19
import PyresampleModel.Props.TieC19

/-
  C19 — the property theorems of `Props/C19.lean` TRANSFERRED TO THE TRANSLATED CODE: statements about the Lean
  definitions that harness/py2lean.py regenerates from /repo's current source on every run (`Gen/Src.lean`), obtained by
  rewriting with the tie theorems.  These are the end-to-end statements: "the code as it stands now satisfies the
  property", for every input, modulo the translator's semantics (DESIGN.md §13.2).
-/
namespace PyresampleModel.Tie
open PyresampleModel

/-- **`_make_slice_divisible` as it stands in /repo meets the divisibility contract** for every non-empty in-bounds slice,
every axis length and every factor ≥ 1: result in bounds; non-empty with length divisible by the factor whenever the
axis is at least one factor long; still covering the original whenever the axis has room for the next multiple -/
theorem code_make_slice_divisible_contract (start stop maxSize factor : Int)
    (h0 : 0 ≤ start) (h1 : start < stop) (h2 : stop ≤ maxSize) (hf : 1 ≤ factor) :
    let r := Gen.make_slice_divisible ⟨start, stop, none⟩ maxSize factor
    (0 ≤ r.start ∧ r.start ≤ r.stop ∧ r.stop ≤ maxSize) ∧
    (factor ≤ maxSize → r.start < r.stop ∧ (r.stop - r.start) % factor = 0) ∧
    (C19.nextMultiple (stop - start) factor ≤ maxSize → r.start ≤ start ∧ stop ≤ r.stop) ∧
    r.step = none := by
  have t := tie_make_slice_divisible start stop maxSize factor (by omega)
  have c := C19.divisible_contract start stop maxSize factor h0 h1 h2 hf
  have s := tie_make_slice_divisible_step start stop maxSize factor
  simp only at t c ⊢
  rw [← t] at c
  exact ⟨c.1, c.2.1, c.2.2, s⟩

/-- **`_get_slice` as it stands in /repo partitions `[0, size)`** (1-D shapes): for every size and every segment count
≥ 1 the yielded slices are `slice(a, b)` with consecutive, non-empty `[a, b)` covering `[0, size)` exactly, at most
`segments` of them -/
theorem code_get_slice_partition (segments size : Nat) (hseg : 1 ≤ segments) :
    ∃ l : List (Nat × Nat), Gen.get_slice_1d (size + 1) segments size = some (l.map conv1) ∧
      C19.Chain 0 size l ∧ l.length ≤ segments :=
  ⟨C19.getSlice segments size, tie_get_slice_1d segments size hseg, C19.getSlice_partition segments size hseg,
    C19.getSlice_length_le segments size hseg⟩

/-- … and for 2-D shapes: the same row slices, each paired with `slice(None)` for the columns -/
theorem code_get_slice_partition_2d (segments size : Nat) (cols : Int) (hseg : 1 ≤ segments) :
    ∃ l : List (Nat × Nat), Gen.get_slice_2d (size + 1) segments ((size : Int), cols) = some (l.map conv2) ∧
      C19.Chain 0 size l ∧ l.length ≤ segments :=
  ⟨C19.getSlice segments size, tie_get_slice_2d segments size cols hseg, C19.getSlice_partition segments size hseg,
    C19.getSlice_length_le segments size hseg⟩

/-- **the slice `_enumerate_chunk_slices` builds for position `p` of an axis is the model's `axisSlices` entry**: offset = sum of
the preceding chunks, length = the chunk itself — for every chunk tuple and every position on it.  (The enumeration order over
the axes — `np.ndindex` — and the loop frame are required verbatim by the translator; `enumerate_mem_iff` / `axisSlices_chain`
of `Props/C19.lean` then give: every position exactly once, consecutive slices covering each axis.) -/
theorem tie_chunk_slice (cs : List Nat) (p : Nat) (hp : p < cs.length) :
    (C19.axisSlices cs 0)[p]? =
      some (((Gen.chunk_slice (cs.map Int.ofNat) p).start).toNat, ((Gen.chunk_slice (cs.map Int.ofNat) p).stop).toNat) ∧
    (Gen.chunk_slice (cs.map Int.ofNat) p).step = none := by
  have hg := C19.axisSlices_get cs 0 p hp
  have hneg : ¬ ((p : Int) < 0) := by omega
  have hget : Gen.pyListGet (cs.map Int.ofNat) (p : Int) = ((cs[p]! : Nat) : Int) := by
    simp only [Gen.pyListGet, hneg, if_false, Int.toNat_natCast]
    simp [List.getD, hp]
  have hsum : ∀ l : List Nat, (l.map Int.ofNat).sum = ((l.sum : Nat) : Int) := by
    intro l
    induction l with
    | nil => simp
    | cons a l ih => simp [ih]
  have htake : (Gen.pyListTake (cs.map Int.ofNat) (p : Int)).sum = (((cs.take p).sum : Nat) : Int) := by
    simp only [Gen.pyListTake, hneg, if_false, Int.toNat_natCast, ← List.map_take, hsum]
  refine ⟨?_, rfl⟩
  rw [hg]
  simp only [Gen.chunk_slice, hget, htake, Nat.zero_add]
  have e : (((cs.take p).sum : Nat) : Int) + ((cs[p]! : Nat) : Int) = (((cs.take p).sum + cs[p]! : Nat) : Int) := by
    push_cast; rfl
  rw [e]
  simp only [Int.toNat_natCast, Nat.zero_add]

end PyresampleModel.Tie
