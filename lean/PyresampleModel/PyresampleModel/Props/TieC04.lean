import PyresampleModel.Gen.Src
import PyresampleModel.Props.C04
import PyresampleModel.Props.CodeC02

/-
  Tie theorems, C04: the accumulation loop and normalisation of `kd_tree._resample_with_weights` and the whole of
  `kd_tree._calculate_uncertainty`, as translated from /repo's current source, equal the model's `accum` / `weighted` /
  `count` / `variance`.

  Reading (stated here because the translator cannot know it): the translation is *elementwise* — one target location
  of one channel.  `index_mask_list[i]`, `weight_list[i]`, `ch_neighbour_list[i]` are, for neighbour slot `i`, the
  "no neighbour" flag, the caller's weight `w(d_i)` and the neighbour's value at that location; `x[mask] = e` is
  "x = e where the mask holds".  `np.expand_dims` is the identity on elements, so both branches of
  `if new_data.ndim > 1` are the same function of the element (proved below: `ndim` does not matter).
  `np.sqrt` is a parameter.  The two `for i in range(neighbours)` loops are left folds over `List.range neighbours`.
-/
namespace PyresampleModel.Tie
open PyresampleModel

/-- the model's slots, read off the three per-neighbour lists the code builds -/
def slotAt (ms : List Bool) (ws xs : List Rat) (i : Nat) : C04.Slot :=
  ⟨!(ms.getD i false), ws.getD i 0, xs.getD i 0⟩

def slotsOf (n : Nat) (ms : List Bool) (ws xs : List Rat) : List C04.Slot := (List.range n).map (slotAt ms ws xs)

/-- every list of slots arises this way: the reading loses nothing -/
theorem slotsOf_of_slots (slots : List C04.Slot) :
    slotsOf slots.length (slots.map (fun s => !s.live)) (slots.map (·.w)) (slots.map (·.x)) = slots := by
  apply List.ext_getElem
  · simp [slotsOf]
  · intro i h1 h2
    simp only [slotsOf, List.length_map, List.length_range] at h1
    simp [slotsOf, slotAt, List.getD_eq_getElem?_getD, h2]

theorem aux_getB (l : List Bool) (i : Nat) : Gen.pyListGetB l (Int.ofNat i) = l.getD i false := by
  simp [Gen.pyListGetB]

theorem aux_getQ (l : List Rat) (i : Nat) : Gen.pyListGetQ l (Int.ofNat i) = l.getD i 0 := by
  simp [Gen.pyListGetQ]

theorem aux_body_core (m : Bool) (w x : Rat) (st : Rat × Rat) :
    (st.1 + Gen.pyB2Q (!m) * w * x, st.2 + Gen.pyB2Q (!m) * w) =
      (st.1 + (if (!m) = true then w else 0) * x, st.2 + (if (!m) = true then w else 0)) := by
  cases m <;> simp [Gen.pyB2Q]

/-- one pass of the accumulation loop = one step of the model's fold -/
theorem tie_weighted_result_body (n ndim : Int) (ms : List Bool) (ws xs : List Rat) (fill : Rat) (st : Rat × Rat) (i : Nat) :
    Gen.weighted_result_body1 n ndim ms ws xs fill st (Int.ofNat i) =
      (let s := slotAt ms ws xs i
       let wt := if s.live then s.w else 0
       (st.1 + wt * s.x, st.2 + wt)) := by
  simp only [Gen.weighted_result_body1, aux_getB, aux_getQ, slotAt]
  split <;> exact aux_body_core _ _ _ _

theorem tie_weighted_accum (n : Nat) (ndim : Int) (ms : List Bool) (ws xs : List Rat) (fill : Rat) :
    (List.range n).foldl (fun st i => Gen.weighted_result_body1 n ndim ms ws xs fill st (Int.ofNat i)) (0, 0) =
      C04.accum (slotsOf n ms ws xs) := by
  simp only [C04.accum, slotsOf, List.foldl_map, tie_weighted_result_body]

/-- **`_resample_with_weights`, from `result = 0` to the fill**: the value is the model's weighted mean where it is defined
and the fill value elsewhere; `result_valid_index` says which; `norm` is the model's total weight — whatever `ndim` is -/
theorem tie_weighted_result (n : Nat) (ndim : Int) (ms : List Bool) (ws xs : List Rat) (fill : Rat) :
    Gen.weighted_result n ndim ms ws xs fill =
      ((C04.weighted (slotsOf n ms ws xs)).getD fill, (C04.weighted (slotsOf n ms ws xs)).isSome,
       (C04.accum (slotsOf n ms ws xs)).2) := by
  have h := tie_weighted_accum n ndim ms ws xs fill
  simp only [Gen.weighted_result, Int.toNat_natCast, Int.cast_zero] at h ⊢
  rw [h]
  simp only [C04.weighted]
  by_cases hp : (C04.accum (slotsOf n ms ws xs)).2 > 0
  · simp [hp]
  · simp [hp]

theorem aux_ubody_core (m : Bool) (w x mu : Rat) (st : Int × Rat × Rat) :
    (st.1 + Gen.pyB2I (!m), st.2.1 + Gen.pyB2Q (!m) * w * (Gen.pyB2Q (!m) * w),
      st.2.2 + Gen.pyB2Q (!m) * w * ((Gen.pyB2Q (!m) * x - mu) * (Gen.pyB2Q (!m) * x - mu))) =
      (st.1 + (if (!m) = true then 1 else 0), st.2.1 + (if (!m) = true then w else 0) ^ 2,
       st.2.2 + (if (!m) = true then w else 0) * ((if (!m) = true then x else 0) - mu) ^ 2) := by
  cases m <;> simp [Gen.pyB2Q, Gen.pyB2I, pow_two]

/-- one pass of the uncertainty loop -/
theorem tie_weighted_uncertainty_body (n ndim : Int) (ms : List Bool) (ws xs : List Rat) (mu norm : Rat) (sq : Rat → Option Rat)
    (st : Int × Rat × Rat) (i : Nat) :
    Gen.weighted_uncertainty_body1 n ndim ms ws xs mu norm sq st (Int.ofNat i) =
      (let s := slotAt ms ws xs i
       let wt := if s.live then s.w else 0
       let v := if s.live then s.x else 0
       (st.1 + (if s.live then 1 else 0), st.2.1 + wt ^ 2, st.2.2 + wt * (v - mu) ^ 2)) := by
  simp only [Gen.weighted_uncertainty_body1, aux_getB, aux_getQ, slotAt]
  split <;> exact aux_ubody_core _ _ _ _ _

theorem aux_fold3 (slots : List C04.Slot) (mu : Rat) : ∀ (c : Int) (a b : Rat),
    slots.foldl (fun (st : Int × Rat × Rat) s =>
      (st.1 + (if s.live then 1 else 0), st.2.1 + (if s.live then s.w else 0) ^ 2,
       st.2.2 + (if s.live then s.w else 0) * ((if s.live then s.x else 0) - mu) ^ 2)) (c, a, b) =
    (c + (C04.count slots : Int),
     slots.foldl (fun acc s => acc + (if s.live then s.w else 0) ^ 2) a,
     slots.foldl (fun acc s => acc + (if s.live then s.w else 0) * ((if s.live then s.x else 0) - mu) ^ 2) b) := by
  induction slots with
  | nil => intro c a b; simp [C04.count]
  | cons s ss ih =>
    intro c a b
    simp only [List.foldl_cons, ih]
    cases hs : s.live <;> simp [C04.count, hs] <;> omega

theorem aux_unc_core (c : Nat) (v1 v2 ss : Rat) (sq : Rat → Option Rat) :
    (if (!decide ((c : Int) > 1)) = true then (none : Option Rat)
     else if decide ((c : Int) > 1) = true then Gen.nBind (Gen.nMul (Gen.nDiv (some v1) (some (v1 * v1 - v2))) (some ss)) sq
          else some ss) =
      (if c > 1 ∧ v1 ^ 2 - v2 ≠ 0 then some (v1 / (v1 ^ 2 - v2) * ss) else none).bind sq := by
  by_cases hc : c > 1
  · have hc' : (c : Int) > 1 := by omega
    by_cases hd : v1 * v1 - v2 = 0
    · simp [hc, hc', hd, pow_two, Gen.nDiv, Gen.nMul, Gen.nBind, Gen.nLift2]
    · simp [hc, hc', hd, pow_two, Gen.nDiv, Gen.nMul, Gen.nBind, Gen.nLift2]
  · have hc' : ¬ (c : Int) > 1 := by omega
    simp [hc, hc']

/-- **`_calculate_uncertainty`** (single channel): `count` is the number of contributing neighbours and `stddev` is
`sqrt` of the model's `variance` — NaN where at most one neighbour contributes or the estimator's denominator vanishes —
given the weighted mean `mu` and total weight computed before -/
theorem tie_weighted_uncertainty (n : Nat) (ndim : Int) (ms : List Bool) (ws xs : List Rat) (mu : Rat) (sq : Rat → Option Rat)
    (hmu : C04.weighted (slotsOf n ms ws xs) = some mu) :
    Gen.weighted_uncertainty n ndim ms ws xs mu (C04.accum (slotsOf n ms ws xs)).2 sq =
      ((C04.variance (slotsOf n ms ws xs)).bind sq, (C04.count (slotsOf n ms ws xs) : Int)) := by
  have hf := aux_fold3 (slotsOf n ms ws xs) mu 0 0 0
  simp only [slotsOf, List.foldl_map] at hf
  simp only [Gen.weighted_uncertainty, Int.toNat_natCast, Int.cast_zero, tie_weighted_uncertainty_body]
  rw [hf]
  simp only [C04.variance, hmu]
  simp only [zero_add, slotsOf, List.foldl_map]
  refine Prod.ext ?_ rfl
  dsimp only
  exact aux_unc_core _ _ _ _ _

/-! ### the property, about the regenerated code itself -/

/-- **normalised weighted mean**: where the total weight of the neighbours in range is positive the regenerated code returns
Σ wᵢxᵢ / Σ wᵢ over exactly those neighbours, elsewhere the fill value, and its validity flag tells the two apart -/
theorem code_weighted_spec (n : Nat) (ndim : Int) (ms : List Bool) (ws xs : List Rat) (fill : Rat) :
    let live := C04.liveSlots (slotsOf n ms ws xs)
    let r := Gen.weighted_result n ndim ms ws xs fill
    r.2.1 = decide (C04.sumW live > 0) ∧
    (C04.sumW live > 0 → r.1 = C04.sumWX live / C04.sumW live) ∧ (¬ C04.sumW live > 0 → r.1 = fill) := by
  intro live r
  have h : r = _ := tie_weighted_result n ndim ms ws xs fill
  rw [h, C04.weighted_eq_spec]
  by_cases hp : C04.sumW live > 0
  · simp [live, hp] at *
  · simp [live, hp] at *

/-- **no invented values**: with non-negative weights the value the regenerated code returns is the fill value or lies within
the range of the values of the contributing neighbours — hence a constant field is reproduced -/
theorem code_weighted_convex (n : Nat) (ndim : Int) (ms : List Bool) (ws xs : List Rat) (fill m M : Rat)
    (hw : ∀ s ∈ C04.liveSlots (slotsOf n ms ws xs), 0 ≤ s.w)
    (hx : ∀ s ∈ C04.liveSlots (slotsOf n ms ws xs), m ≤ s.x ∧ s.x ≤ M) :
    let r := Gen.weighted_result n ndim ms ws xs fill
    (r.2.1 = true → m ≤ r.1 ∧ r.1 ≤ M) ∧ (r.2.1 = false → r.1 = fill) := by
  intro r
  have h : r = _ := tie_weighted_result n ndim ms ws xs fill
  rw [h]
  cases hwt : C04.weighted (slotsOf n ms ws xs) with
  | none => simp
  | some v =>
    have := C04.weighted_convex _ m M v hw hx hwt
    simpa using this

/-- **the reported standard deviation is a real number**: with non-negative weights the regenerated `_calculate_uncertainty` never
hands `np.sqrt` a negative radicand — where its result is defined it is `sqrt` of a number ≥ 0 -/
theorem code_uncertainty_radicand_nonneg (n : Nat) (ndim : Int) (ms : List Bool) (ws xs : List Rat) (mu : Rat) (sq : Rat → Option Rat)
    (hmu : C04.weighted (slotsOf n ms ws xs) = some mu) (hw : ∀ s ∈ C04.liveSlots (slotsOf n ms ws xs), 0 ≤ s.w) :
    (Gen.weighted_uncertainty n ndim ms ws xs mu (C04.accum (slotsOf n ms ws xs)).2 sq).1 = none ∨
    ∃ v, 0 ≤ v ∧ (Gen.weighted_uncertainty n ndim ms ws xs mu (C04.accum (slotsOf n ms ws xs)).2 sq).1 = sq v := by
  rw [tie_weighted_uncertainty n ndim ms ws xs mu sq hmu]
  cases hv : C04.variance (slotsOf n ms ws xs) with
  | none => left; rfl
  | some v => right; exact ⟨v, C04.variance_nonneg _ hw v hv, rfl⟩

/-- the number of neighbour slots asked for does not matter beyond the slots themselves, and `ndim` not at all -/
theorem code_weighted_ndim_irrelevant (n : Nat) (d1 d2 : Int) (ms : List Bool) (ws xs : List Rat) (fill : Rat) :
    Gen.weighted_result n d1 ms ws xs fill = Gen.weighted_result n d2 ms ws xs fill := by
  rw [tie_weighted_result, tie_weighted_result]

example : Gen.weighted_result 3 1 [false, true, false] [1, 5, 3] [4, 100, 8] (-1) = (7, true, 4) := by decide +kernel
example : Gen.weighted_result 2 1 [true, true] [1, 5] [4, 100] (-1) = (-1, false, 0) := by decide +kernel
example : (Gen.weighted_uncertainty 2 1 [false, false] [1, 3] [4, 8] 7 4 (fun q => some q)) = (some 8, 2) := by decide +kernel

end PyresampleModel.Tie
