import PyresampleModel.Props.C20
import PyresampleModel.Props.TieC20

/-
  C20 — the CF round trip, TRANSFERRED TO THE TRANSLATED CODE: the spacing / sign statements of `_load_cf_axis_info` and
  `_get_area_extent_from_cf_axis`, as regenerated from /repo's current source and applied to the pixel-centre coordinate
  vectors an area exports, give back the area's own extent (W, H ≥ 2, non-zero pixel sizes, any axis direction).
-/
namespace PyresampleModel.Tie
open PyresampleModel

theorem code_cf_roundtrip (g : Grid) (hw : 2 ≤ g.w) (hh : 2 ≤ g.h) (hdx : g.dx ≠ 0) (hdy : g.dy ≠ 0) :
    let ax := Gen.cf_axis_info (g.projX 0) (g.projX ((g.w : Rat) - 1)) (g.w : Int)
    let ay := Gen.cf_axis_info (g.projY 0) (g.projY ((g.h : Rat) - 1)) (g.h : Int)
    Gen.cf_extent (g.projX 0) (g.projX ((g.w : Rat) - 1)) ax.2.2 ax.2.1
                  (g.projY 0) (g.projY ((g.h : Rat) - 1)) ay.2.2 ay.2.1 = (g.x0, g.y0, g.x1, g.y1) := by
  have hx := C20.aux_axis_x g hw hdx
  have hy := C20.aux_axis_y g hh hdy
  have tx := tie_cf_axis_info _ _ hx
  have ty := tie_cf_axis_info _ _ hy
  simp only at tx ty
  simp only [tx, ty]
  have r := C20.cf_roundtrip g hw hh hdx hdy
  simp only [C20.cfRoundTrip, hx, hy, Option.some.injEq] at r
  have e := tie_cf_extent
    { first := g.projX 0, last := g.projX ((g.w : Rat) - 1), nb := g.w, spacing := C20.absQ g.dx, sign := g.dx / C20.absQ g.dx }
    { first := g.projY 0, last := g.projY ((g.h : Rat) - 1), nb := g.h, spacing := C20.absQ (-g.dy), sign := (-g.dy) / C20.absQ (-g.dy) }
  simp only at e
  rw [e]
  have r1 := congrArg Grid.x0 r
  have r2 := congrArg Grid.y0 r
  have r3 := congrArg Grid.x1 r
  have r4 := congrArg Grid.y1 r
  simp only at r1 r2 r3 r4
  exact Prod.ext r1 (Prod.ext r2 (Prod.ext r3 r4))

/-- `to_cartopy_crs` as it stands in /repo hands cartopy the bounds (x0, x1, y0, y1) of the extent, unchanged -/
theorem code_cartopy_bounds (g : Grid) : Gen.cartopy_bounds (g.x0, g.y0, g.x1, g.y1) = (g.x0, g.x1, g.y0, g.y1) := by
  rw [tie_cartopy_bounds]; rfl

end PyresampleModel.Tie
