import PyresampleModel.Model.C18

/-
  C18 — property theorems (stub: none yet).
-/
namespace PyresampleModel.C18

end PyresampleModel.C18
