import PyresampleModel.Model.C18
import PyresampleModel.Proofs.Num

/-
  C18 — property theorems: every module's cell assignment vs the reference `cellOf`
  (the cell whose extent contains the point), for every well-formed grid and every point.
-/
namespace PyresampleModel.C18
open PyresampleModel.Grid

/-- a well-formed (non-flipped, non-empty) area -/
structure WF (g : Grid) : Prop where
  wpos : 0 < g.w
  hpos : 0 < g.h
  xpos : g.x0 < g.x1
  ypos : g.y0 < g.y1

theorem dx_pos {g : Grid} (hg : WF g) : 0 < g.dx := by
  unfold Grid.dx
  have : (0 : Rat) < g.w := by exact_mod_cast hg.wpos
  have h2 : 0 < g.x1 - g.x0 := by linarith [hg.xpos]
  positivity

theorem dy_pos {g : Grid} (hg : WF g) : 0 < g.dy := by
  unfold Grid.dy
  have : (0 : Rat) < g.h := by exact_mod_cast hg.hpos
  have h2 : 0 < g.y1 - g.y0 := by linarith [hg.ypos]
  positivity

theorem w_dx {g : Grid} (hg : WF g) : (g.w : Rat) * g.dx = g.x1 - g.x0 := by
  unfold Grid.dx
  have : (g.w : Rat) ≠ 0 := by exact_mod_cast (Nat.pos_iff_ne_zero.mp hg.wpos)
  field_simp

theorem h_dy {g : Grid} (hg : WF g) : (g.h : Rat) * g.dy = g.y1 - g.y0 := by
  unfold Grid.dy
  have : (g.h : Rat) ≠ 0 := by exact_mod_cast (Nat.pos_iff_ne_zero.mp hg.hpos)
  field_simp

/-- `pixel_offset_x + x / pixel_size_x` is `(x - xmin) / pixel_size_x` -/
theorem offx_form (g : Grid) (x : Rat) : g.offx + x / g.dx = (x - g.x0) / g.dx := by
  unfold Grid.offx; ring

theorem offy_form (g : Grid) (y : Rat) : g.offy - y / g.dy = (g.y1 - y) / g.dy := by
  unfold Grid.offy; ring

/-- **quick grid sampling** assigns exactly the containing cell, or none -/
theorem linesample_eq_cellOf (g : Grid) (x y : Rat) : linesampleCell g x y = cellOf g x y := by
  simp only [linesampleCell, linesample, validCell, cellOf, offx_form, offy_form]

/-- the uint16 down-cast never turns an out-of-range index into a valid one (nor the converse):
the marker `size` is representable whenever the cast is applied -/
theorem downcast_valid_iff (idx : Int) (size : Nat) :
    (0 ≤ downcast idx size ∧ downcast idx size < size) ↔ (0 ≤ idx ∧ idx < size) := by
  unfold downcast
  split
  · rename_i h
    split
    · rename_i hout
      have : ((size : Int) % 65536) = size := Int.emod_eq_of_lt (by omega) (by omega)
      rw [this]; omega
    · rename_i hin
      have : idx % 65536 = idx := Int.emod_eq_of_lt (by omega) (by omega)
      rw [this]
  · rfl

/-- **quick linesample arrays** (`utils.generate_quick_linesample_arrays`, down-cast included) -/
theorem quickLinesample_eq_cellOf (g : Grid) (x y : Rat) : quickLinesampleCell g x y = cellOf g x y := by
  rw [← linesample_eq_cellOf]
  simp only [quickLinesampleCell, linesampleCell, validCell]
  have h1 := downcast_valid_iff (linesample g x y).1 g.h
  have h2 := downcast_valid_iff (linesample g x y).2 g.w
  by_cases hv : 0 ≤ (linesample g x y).2 ∧ (linesample g x y).2 < g.w ∧ 0 ≤ (linesample g x y).1 ∧ (linesample g x y).1 < g.h
  · have e1 : downcast (linesample g x y).1 g.h = (linesample g x y).1 := by
      unfold downcast; split
      · rw [if_neg (by omega)]; exact Int.emod_eq_of_lt (by omega) (by omega)
      · rfl
    have e2 : downcast (linesample g x y).2 g.w = (linesample g x y).2 := by
      unfold downcast; split
      · rw [if_neg (by omega)]; exact Int.emod_eq_of_lt (by omega) (by omega)
      · rfl
    rw [e1, e2]
  · rw [if_neg hv, if_neg]
    intro hc
    exact hv ⟨(h2.mp ⟨hc.1, hc.2.1⟩).1, (h2.mp ⟨hc.1, hc.2.1⟩).2, (h1.mp ⟨hc.2.2.1, hc.2.2.2⟩).1, (h1.mp ⟨hc.2.2.1, hc.2.2.2⟩).2⟩

/-- **GridFilter** -/
theorem gridFilter_eq_cellOf (g : Grid) (x y : Rat) : gridFilterCell g x y = cellOf g x y := by
  have : x / g.dx + g.offx = (x - g.x0) / g.dx := by rw [add_comm]; exact offx_form g x
  simp only [gridFilterCell, validCell, cellOf, this, offy_form]

/-- **bucket indices** -/
theorem bucket_eq_cellOf (g : Grid) (x y : Rat) : bucketCell g x y = cellOf g x y := by
  simp only [bucketCell, bucketIdx, cellOf]
  split
  · rename_i h
    simp only [if_neg (not_lt.mpr h.2.2.1)]
  · simp


/-- the reference semantics, spelled out: `cellOf = some (r, c)` iff the half-open extent of
cell (r, c) contains the point -/
theorem cellOf_some_iff {g : Grid} (hg : WF g) (x y : Rat) (r c : Nat) :
    cellOf g x y = some (r, c) ↔
      c < g.w ∧ r < g.h ∧ g.x0 + c * g.dx ≤ x ∧ x < g.x0 + (c + 1) * g.dx ∧
      g.y1 - (r + 1) * g.dy < y ∧ y ≤ g.y1 - r * g.dy := by
  have hdx := dx_pos hg
  have hdy := dy_pos hg
  simp only [cellOf]
  constructor
  · intro h
    split at h
    · rename_i hv
      obtain ⟨h1, h2, h3, h4⟩ := hv
      simp only [Option.some.injEq, Prod.mk.injEq] at h
      obtain ⟨hr, hc⟩ := h
      have hc' : pyFloor ((x - g.x0) / g.dx) = (c : Int) := by omega
      have hr' : pyFloor ((g.y1 - y) / g.dy) = (r : Int) := by omega
      rw [hc'] at h2
      rw [hr'] at h4
      rw [pyFloor_eq_iff] at hc' hr'
      refine ⟨by exact_mod_cast h2, by exact_mod_cast h4, ?_, ?_, ?_, ?_⟩
      · have := (le_div_iff₀ hdx).mp hc'.1; push_cast at this; linarith
      · have := (div_lt_iff₀ hdx).mp hc'.2; push_cast at this; linarith
      · have := (div_lt_iff₀ hdy).mp hr'.2; push_cast at this; linarith
      · have := (le_div_iff₀ hdy).mp hr'.1; push_cast at this; linarith
    · simp at h
  · intro ⟨hc, hr, h1, h2, h3, h4⟩
    have hc' : pyFloor ((x - g.x0) / g.dx) = (c : Int) := by
      rw [pyFloor_eq_iff]; push_cast
      exact ⟨(le_div_iff₀ hdx).mpr (by linarith), (div_lt_iff₀ hdx).mpr (by linarith)⟩
    have hr' : pyFloor ((g.y1 - y) / g.dy) = (r : Int) := by
      rw [pyFloor_eq_iff]; push_cast
      exact ⟨(le_div_iff₀ hdy).mpr (by linarith), (div_lt_iff₀ hdy).mpr (by linarith)⟩
    rw [hc', hr']
    have : (0 : Int) ≤ c ∧ (c : Int) < g.w ∧ (0 : Int) ≤ r ∧ (r : Int) < g.h := by omega
    rw [if_pos this]
    simp

/-- a point outside the area's (half-open) extent belongs to no cell — in particular not to
the first row or column -/
theorem cellOf_none_of_outside {g : Grid} (hg : WF g) (x y : Rat)
    (h : x < g.x0 ∨ g.x1 ≤ x ∨ y ≤ g.y0 ∨ g.y1 < y) : cellOf g x y = none := by
  cases hc : cellOf g x y with
  | none => rfl
  | some p =>
    obtain ⟨r, c⟩ := p
    obtain ⟨hc1, hr1, h1, h2, h3, h4⟩ := (cellOf_some_iff hg x y r c).mp hc
    have hdx := dx_pos hg
    have hdy := dy_pos hg
    have hw := w_dx hg
    have hh := h_dy hg
    have hcw : ((c : Rat) + 1) ≤ g.w := by exact_mod_cast hc1
    have hrh : ((r : Rat) + 1) ≤ g.h := by exact_mod_cast hr1
    have hc0 : (0 : Rat) ≤ c := by positivity
    have hr0 : (0 : Rat) ≤ r := by positivity
    have e1 : ((c : Rat) + 1) * g.dx ≤ g.w * g.dx := by nlinarith
    have e2 : ((r : Rat) + 1) * g.dy ≤ g.h * g.dy := by nlinarith
    have e3 : 0 ≤ (c : Rat) * g.dx := by positivity
    have e4 : 0 ≤ (r : Rat) * g.dy := by positivity
    rcases h with h | h | h | h <;> exfalso <;> linarith


theorem arrX_form {g : Grid} (hg : WF g) (x : Rat) : g.arrX x = (x - g.x0) / g.dx - 1/2 := by
  have := (dx_pos hg).ne'
  unfold Grid.arrX Grid.uplx
  field_simp; ring

theorem arrY_form {g : Grid} (hg : WF g) (y : Rat) : g.arrY y = (g.y1 - y) / g.dy - 1/2 := by
  have := (dy_pos hg).ne'
  unfold Grid.arrY Grid.uply
  field_simp; ring

/-- one axis of `masked_ints`: strictly inside pixel `c` ⇒ unmasked and index `c` -/
theorem maskedInt_interior (n c : Nat) (hc : c < n) (u : Rat) (h1 : (c : Rat) - 1/2 < u) (h2 : u < (c : Rat) + 1/2) :
    maskedInt u n = (false, (c : Int)) := by
  have hcn : (c : Rat) + 1 ≤ n := by exact_mod_cast hc
  have hc0 : (0 : Rat) ≤ c := by positivity
  simp only [maskedInt, Prod.mk.injEq]
  constructor
  · simp only [Bool.or_eq_false_iff, decide_eq_false_iff_not, not_lt]
    constructor <;> linarith
  · simp only [clip]
    split
    · rename_i hneg
      -- u < 0 ⇒ c = 0
      have : (c : Rat) < 1/2 := by linarith
      have hc' : c = 0 := by
        rcases Nat.eq_zero_or_pos c with h | h
        · exact h
        · have : (1 : Rat) ≤ c := by exact_mod_cast h
          linarith
      subst hc'
      exact roundHalfEven_eq (by norm_num) (by norm_num)
    · split
      · rename_i hhi
        -- u > n - 1 ⇒ c = n - 1
        have h3 : (n : Rat) - 1 < (c : Rat) + 1/2 := by linarith
        have hc' : (c : Rat) = (n : Rat) - 1 := by
          have : (n : Rat) < (c : Rat) + 2 := by linarith
          have : n < c + 2 := by exact_mod_cast this
          have : c + 1 = n := by omega
          rw [← this]; push_cast; ring
        rw [← hc']
        exact roundHalfEven_eq (by push_cast; linarith) (by push_cast; linarith)
      · exact roundHalfEven_eq (by push_cast; linarith) (by push_cast; linarith)

/-- one axis of `masked_ints`: beyond the documented tolerance ⇒ masked -/
theorem maskedInt_outside (n : Nat) (u : Rat) (h : u < -(1/2) - 2/100 ∨ (n : Rat) - 1/2 + 2/100 < u) :
    (maskedInt u n).1 = true := by
  simp only [maskedInt, Bool.or_eq_true, decide_eq_true_eq]
  exact h

theorem roundHalfEven_natCast (k : Nat) : roundHalfEven (k : Rat) = (k : Int) :=
  roundHalfEven_eq (c := (k : Int)) (by push_cast; linarith) (by push_cast; linarith)

/-- one axis of `masked_ints`: for a value inside the closed extent the result is a valid index
whose pixel (closed) contains the value -/
theorem maskedInt_contains (n : Nat) (hn : 0 < n) (u : Rat) (hlo : -(1/2) ≤ u) (hhi : u ≤ (n : Rat) - 1/2) :
    0 ≤ (maskedInt u n).2 ∧ (maskedInt u n).2 < n ∧
    ((maskedInt u n).2 : Rat) - 1/2 ≤ u ∧ u ≤ ((maskedInt u n).2 : Rat) + 1/2 := by
  have hn1 : (1 : Rat) ≤ n := by exact_mod_cast hn
  simp only [maskedInt, clip]
  split
  · rename_i h
    have : roundHalfEven (0 : Rat) = 0 := by simpa using roundHalfEven_natCast 0
    rw [this]
    refine ⟨le_refl _, by exact_mod_cast hn, ?_, ?_⟩ <;> push_cast <;> linarith
  · split
    · rename_i h1 h2
      have h3 : roundHalfEven ((n : Rat) - 1) = ((n - 1 : Nat) : Int) := by
        have : ((n : Rat) - 1) = ((n - 1 : Nat) : Rat) := by
          rw [Nat.cast_sub hn]; simp
        rw [this]; exact roundHalfEven_natCast _
      rw [h3]
      have h4 : (((n - 1 : Nat) : Int) : Rat) = (n : Rat) - 1 := by
        rw [Int.cast_natCast, Nat.cast_sub hn]; simp
      refine ⟨by omega, by omega, ?_, ?_⟩ <;> rw [h4] <;> linarith
    · rename_i h1 h2
      have hs := roundHalfEven_spec u
      have hlo' : (-1 : Rat) < roundHalfEven u := by linarith [hs.2, not_lt.mp h1]
      have hhi' : ((roundHalfEven u : Int) : Rat) < n := by linarith [hs.1, not_lt.mp h2]
      refine ⟨?_, by exact_mod_cast hhi', hs.1, hs.2⟩
      have : (-1 : Int) < roundHalfEven u := by exact_mod_cast hlo'
      omega


theorem areaCell_def (g : Grid) (x y : Rat) : areaCell g x y =
    if ((maskedInt (g.arrY y) g.h).1 || (maskedInt (g.arrX x) g.w).1) = true then none
    else some ((maskedInt (g.arrY y) g.h).2.toNat, (maskedInt (g.arrX x) g.w).2.toNat) := rfl

/-- **area index lookup**: a point strictly inside cell (r, c) is attributed to (r, c) -/
theorem area_interior {g : Grid} (hg : WF g) (x y : Rat) (r c : Nat) (hc : c < g.w) (hr : r < g.h)
    (h1 : g.x0 + c * g.dx < x) (h2 : x < g.x0 + (c + 1) * g.dx)
    (h3 : g.y1 - (r + 1) * g.dy < y) (h4 : y < g.y1 - r * g.dy) :
    areaCell g x y = some (r, c) := by
  have hdx := dx_pos hg
  have hdy := dy_pos hg
  have hx : maskedInt (g.arrX x) g.w = (false, (c : Int)) := by
    apply maskedInt_interior _ _ hc
    · rw [arrX_form hg]; have := (lt_div_iff₀ hdx).mpr (show (c : Rat) * g.dx < x - g.x0 by linarith); linarith
    · rw [arrX_form hg]; have := (div_lt_iff₀ hdx).mpr (show x - g.x0 < ((c : Rat) + 1) * g.dx by linarith); linarith
  have hy : maskedInt (g.arrY y) g.h = (false, (r : Int)) := by
    apply maskedInt_interior _ _ hr
    · rw [arrY_form hg]; have := (lt_div_iff₀ hdy).mpr (show (r : Rat) * g.dy < g.y1 - y by linarith); linarith
    · rw [arrY_form hg]; have := (div_lt_iff₀ hdy).mpr (show g.y1 - y < ((r : Rat) + 1) * g.dy by linarith); linarith
  simp [areaCell, areaIdx, hx, hy]

/-- **area index lookup**: beyond the documented edge tolerance (0.02 px) the point is masked -/
theorem area_none_outside {g : Grid} (hg : WF g) (x y : Rat)
    (h : x < g.x0 - 2/100 * g.dx ∨ g.x1 + 2/100 * g.dx < x ∨ y < g.y0 - 2/100 * g.dy ∨ g.y1 + 2/100 * g.dy < y) :
    areaCell g x y = none := by
  have hdx := dx_pos hg
  have hdy := dy_pos hg
  have hw := w_dx hg
  have hh := h_dy hg
  have key : (maskedInt (g.arrY y) g.h).1 = true ∨ (maskedInt (g.arrX x) g.w).1 = true := by
    rcases h with h | h | h | h
    · right; apply maskedInt_outside; left
      rw [arrX_form hg]
      have := (div_lt_iff₀ hdx).mpr (show x - g.x0 < (-(2/100)) * g.dx by linarith); linarith
    · right; apply maskedInt_outside; right
      rw [arrX_form hg]
      have := (lt_div_iff₀ hdx).mpr (show ((g.w : Rat) + 2/100) * g.dx < x - g.x0 by linarith); linarith
    · left; apply maskedInt_outside; right
      rw [arrY_form hg]
      have := (lt_div_iff₀ hdy).mpr (show ((g.h : Rat) + 2/100) * g.dy < g.y1 - y by linarith); linarith
    · left; apply maskedInt_outside; left
      rw [arrY_form hg]
      have := (div_lt_iff₀ hdy).mpr (show g.y1 - y < (-(2/100)) * g.dy by linarith); linarith
  simp only [areaCell, areaIdx]
  rcases key with k | k <;> simp [k]

/-- **area index lookup**: for a point inside the area's closed extent, the returned pixel is a
valid one and its (closed) extent contains the point -/
theorem area_some_contains {g : Grid} (hg : WF g) (x y : Rat) (r c : Nat)
    (hx0 : g.x0 ≤ x) (hx1 : x ≤ g.x1) (hy0 : g.y0 ≤ y) (hy1 : y ≤ g.y1)
    (h : areaCell g x y = some (r, c)) :
    c < g.w ∧ r < g.h ∧ g.x0 + c * g.dx ≤ x ∧ x ≤ g.x0 + (c + 1) * g.dx ∧
    g.y1 - (r + 1) * g.dy ≤ y ∧ y ≤ g.y1 - r * g.dy := by
  have hdx := dx_pos hg
  have hdy := dy_pos hg
  have hw := w_dx hg
  have hh := h_dy hg
  have ux : -(1/2) ≤ g.arrX x ∧ g.arrX x ≤ (g.w : Rat) - 1/2 := by
    rw [arrX_form hg]
    have a := (le_div_iff₀ hdx).mpr (show (0 : Rat) * g.dx ≤ x - g.x0 by linarith)
    have b := (div_le_iff₀ hdx).mpr (show x - g.x0 ≤ (g.w : Rat) * g.dx by linarith)
    constructor <;> linarith
  have uy : -(1/2) ≤ g.arrY y ∧ g.arrY y ≤ (g.h : Rat) - 1/2 := by
    rw [arrY_form hg]
    have a := (le_div_iff₀ hdy).mpr (show (0 : Rat) * g.dy ≤ g.y1 - y by linarith)
    have b := (div_le_iff₀ hdy).mpr (show g.y1 - y ≤ (g.h : Rat) * g.dy by linarith)
    constructor <;> linarith
  obtain ⟨cx0, cx1, cx2, cx3⟩ := maskedInt_contains g.w hg.wpos _ ux.1 ux.2
  obtain ⟨cy0, cy1, cy2, cy3⟩ := maskedInt_contains g.h hg.hpos _ uy.1 uy.2
  rw [areaCell_def] at h
  by_cases hm : ((maskedInt (g.arrY y) g.h).1 || (maskedInt (g.arrX x) g.w).1) = true
  · rw [if_pos hm] at h; simp at h
  · rw [if_neg hm] at h
    simp only [Option.some.injEq, Prod.mk.injEq] at h
    obtain ⟨hr, hc⟩ := h
    have ec : ((maskedInt (g.arrX x) g.w).2 : Int) = (c : Int) := by omega
    have er : ((maskedInt (g.arrY y) g.h).2 : Int) = (r : Int) := by omega
    rw [ec] at cx1 cx2 cx3
    rw [er] at cy1 cy2 cy3
    rw [arrX_form hg] at cx2 cx3
    rw [arrY_form hg] at cy2 cy3
    push_cast at cx2 cx3 cy2 cy3
    refine ⟨by exact_mod_cast cx1, by exact_mod_cast cy1, ?_, ?_, ?_, ?_⟩
    · have := (le_div_iff₀ hdx).mp (show (c : Rat) ≤ (x - g.x0) / g.dx by linarith); linarith
    · have := (div_le_iff₀ hdx).mp (show (x - g.x0) / g.dx ≤ (c : Rat) + 1 by linarith); linarith
    · have := (div_le_iff₀ hdy).mp (show (g.y1 - y) / g.dy ≤ (r : Rat) + 1 by linarith); linarith
    · have := (le_div_iff₀ hdy).mp (show (r : Rat) ≤ (g.y1 - y) / g.dy by linarith); linarith

/-- **EWA ll2cr** returns the fractional column/row the area itself assigns -/
theorem ll2cr_eq_arr {g : Grid} (hg : WF g) (x y : Rat) :
    ll2crCol g x = g.arrX x ∧ ll2crRow g y = g.arrY y := by
  have hdy := dy_pos hg
  constructor
  · rfl
  · simp only [ll2crRow, if_pos hdy.le, Grid.arrY, Grid.uply]
    congr 1; ring

/-- … hence the cell whose centre is nearest to the ll2cr position is the containing cell -/
theorem ll2cr_cell {g : Grid} (hg : WF g) (x y : Rat) :
    pyFloor (ll2crCol g x + 1/2) = pyFloor ((x - g.x0) / g.dx) ∧
    pyFloor (ll2crRow g y + 1/2) = pyFloor ((g.y1 - y) / g.dy) := by
  obtain ⟨h1, h2⟩ := ll2cr_eq_arr hg x y
  rw [h1, h2, arrX_form hg, arrY_form hg]
  constructor <;> congr 1 <;> ring

/-- the defect repaired by the `fix:` commit: with truncation a point half a pixel left of and
above a 4×4 grid belongs to no cell, yet was attributed to cell (0, 0) -/
theorem linesampleOld_first_cell_defect :
    ∃ (g : Grid) (x y : Rat), WF g ∧ cellOf g x y = none ∧ linesampleOldCell g x y = some (0, 0) := by
  refine ⟨⟨0, 0, 4, 4, 4, 4⟩, -1/2, 9/2, ⟨by decide, by decide, by decide +kernel, by decide +kernel⟩, by decide +kernel, by decide +kernel⟩

/-! non-vacuity -/
example : WF ⟨0, 0, 4, 4, 4, 4⟩ := ⟨by decide, by decide, by decide +kernel, by decide +kernel⟩
example : cellOf ⟨0, 0, 4, 4, 4, 4⟩ (5/2) (1/2) = some (3, 2) := by decide +kernel
example : areaCell ⟨0, 0, 4, 4, 4, 4⟩ (5/2) (1/2) = some (3, 2) := by decide +kernel

end PyresampleModel.C18
