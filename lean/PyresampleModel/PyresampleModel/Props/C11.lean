import PyresampleModel.Model.C11

/-
  C11 — property theorems (stub: none yet).
-/
namespace PyresampleModel.C11

end PyresampleModel.C11
