import PyresampleModel.Model.C11
import PyresampleModel.Proofs.Num

/-
  C11 — property theorems: the slice arithmetic never drops a needed pixel.
-/
namespace PyresampleModel.C11

theorem aux_maxI (a b : Int) : maxI a b = max a b := by unfold maxI; split <;> omega
theorem aux_minI (a b : Int) : minI a b = min a b := by unfold minI; split <;> omega

/-- **same CRS, one axis**: every pixel index `c` in range whose pixel contains — or is nearest to —
an array position `u` strictly between the positions of the target's two edges lies inside
`[start, stop)` (unflipped branch: `u0 < u < u1`) -/
theorem samecrs_covers_axis (n : Nat) (u0 u1 u : Rat) (c : Int) (hu0 : u0 < u) (hu1 : u < u1)
    (hc : (c : Rat) - 1/2 ≤ u ∧ u ≤ (c : Rat) + 1/2) (hc0 : 0 ≤ c) (hcn : c < n) :
    (startStopX n u0 u1 false).1 ≤ c ∧ c < (startStopX n u0 u1 false).2 := by
  simp only [startStopX, aux_maxI, aux_minI, Bool.false_eq_true, if_false]
  have h0 := roundHalfEven_spec u0
  have h1 := roundHalfEven_spec u1
  have a : ((roundHalfEven u0 : Int) : Rat) < (c : Rat) + 1 := by linarith [h0.1, hc.2]
  have b : (c : Rat) - 1 < ((roundHalfEven u1 : Int) : Rat) := by linarith [h1.2, hc.1]
  have a' : roundHalfEven u0 < c + 1 := by exact_mod_cast a
  have b' : c - 1 < roundHalfEven u1 := by exact_mod_cast b
  omega

/-- the flipped branch is the unflipped one with the two edges exchanged -/
theorem samecrs_flip (n : Nat) (u0 u1 : Rat) : startStopX n u0 u1 true = startStopX n u1 u0 false := by
  simp [startStopX]

theorem samecrs_y_eq_x (n : Nat) (v0 v1 : Rat) (f : Bool) : startStopY n v0 v1 f = startStopX n v0 v1 (!f) := by
  cases f <;> simp [startStopY, startStopX]

/-- **same CRS: no excess beyond one pixel** — away from pixel borders the slice bounds are exactly
the indices of the pixels containing the two edges (clamped to the grid) -/
theorem samecrs_exact_axis (n : Nat) (u0 u1 : Rat) (c0 c1 : Int)
    (h0 : (c0 : Rat) - 1/2 < u0 ∧ u0 < (c0 : Rat) + 1/2) (h1 : (c1 : Rat) - 1/2 < u1 ∧ u1 < (c1 : Rat) + 1/2) :
    startStopX n u0 u1 false = (max 0 c0, min (n : Int) (c1 + 1)) := by
  simp only [startStopX, aux_maxI, aux_minI, Bool.false_eq_true, if_false, roundHalfEven_eq h0.1 h0.2, roundHalfEven_eq h1.1 h1.2]

/-- **different CRS, one axis**: if the array-coordinate bounds of the polygon contain the position
`u` of a needed target centre, then every in-grid pixel `c ≥ 0` containing or nearest to `u` lies
inside the expanded slice -/
theorem bounds_slices_cover (lo hi u : Rat) (c : Int) (hlo : lo ≤ u) (hhi : u ≤ hi)
    (hc : (c : Rat) - 1/2 ≤ u ∧ u ≤ (c : Rat) + 1/2) (hc0 : 0 ≤ c) :
    (boundsSlice lo hi).1 ≤ c ∧ c < (boundsSlice lo hi).2 := by
  simp only [boundsSlice, aux_maxI]
  constructor
  · have : (pyFloor (if lo < 0 then 0 else lo) : Rat) ≤ (c : Rat) + 1/2 := by
      split
      · have := pyFloor_le (0 : Rat)
        have hc' : (0 : Rat) ≤ c := by exact_mod_cast hc0
        linarith
      · have := pyFloor_le lo; linarith [hc.2]
    have h2 : ((pyFloor (if lo < 0 then 0 else lo) : Int) : Rat) < (c : Rat) + 1 := by linarith
    have : pyFloor (if lo < 0 then 0 else lo) < c + 1 := by exact_mod_cast h2
    omega
  · have h := le_pyCeil hi
    have : (c : Rat) - 1 < ((pyCeil hi : Int) : Rat) := by linarith [hc.1]
    have : c - 1 < pyCeil hi := by exact_mod_cast this
    omega

/-- **swath chunks**: the assembled slice contains every intersecting chunk's slice -/
theorem assemble_contains_chunks : ∀ (slices : List (Int × Int)) (r : Int × Int), assemble slices = some r →
    ∀ s ∈ slices, r.1 ≤ s.1 ∧ s.2 ≤ r.2 := by
  intro slices r h
  cases slices with
  | nil => simp [assemble] at h
  | cons s0 rest =>
    simp only [assemble, Option.some.injEq] at h
    subst h
    have key : ∀ (l : List (Int × Int)) (acc : Int × Int),
        let res := l.foldl (fun acc t => (minI acc.1 t.1, maxI acc.2 t.2)) acc
        (res.1 ≤ acc.1 ∧ acc.2 ≤ res.2) ∧ ∀ s ∈ l, res.1 ≤ s.1 ∧ s.2 ≤ res.2 := by
      intro l
      induction l with
      | nil => intro acc; simp
      | cons t ts ih =>
        intro acc
        have := ih (minI acc.1 t.1, maxI acc.2 t.2)
        simp only [List.foldl_cons] at this ⊢
        obtain ⟨⟨a1, a2⟩, a3⟩ := this
        simp only [aux_minI, aux_maxI] at a1 a2 ⊢
        refine ⟨⟨by omega, by omega⟩, ?_⟩
        intro s hs
        rcases List.mem_cons.mp hs with rfl | hs
        · constructor <;> omega
        · exact a3 s hs
    intro s hs
    obtain ⟨⟨k1, k2⟩, k3⟩ := key rest s0
    rcases List.mem_cons.mp hs with rfl | hs
    · exact ⟨k1, k2⟩
    · exact k3 s hs

example : startStopX 10 (3/4) (27/4) false = (1, 8) := by decide +kernel
example : boundsSlice (3/4) (27/4) = (0, 8) := by decide +kernel

/-- **a needed pixel is never rejected**: if some pixel `c` of the axis contains (or is nearest to) a position `u` inside the
bounds, the "no slice on area" test does not fire on that axis -/
theorem needed_pixel_not_rejected (n : Nat) (lo hi u : Rat) (c : Int) (hlo : lo ≤ u) (hhi : u ≤ hi)
    (hc : (c : Rat) - 1/2 ≤ u ∧ u ≤ (c : Rat) + 1/2) (hc0 : 0 ≤ c) (hcn : c < n) : rejectAxis n lo hi = false := by
  have h0 : (0 : Rat) ≤ (c : Rat) := by exact_mod_cast hc0
  have h1 : (c : Rat) ≤ (n : Rat) - 1 := by
    have : c ≤ (n : Int) - 1 := by omega
    have : (c : Rat) ≤ ((n : Int) : Rat) - 1 := by exact_mod_cast this
    simpa using this
  simp only [rejectAxis, Bool.or_eq_false_iff, decide_eq_false_iff_not, not_lt]
  constructor <;> linarith [hc.1, hc.2]

/-- the test as it stood before F25 (pixel centres, not footprints) did reject a needed pixel: a position 0.3 pixel outside
the first centre, inside pixel 0, with bounds ending 0.1 pixel outside the first centre -/
theorem old_reject_defect : ∃ (n : Nat) (lo hi u : Rat) (c : Int), lo ≤ u ∧ u ≤ hi ∧ ((c : Rat) - 1/2 ≤ u ∧ u ≤ (c : Rat) + 1/2) ∧
    0 ≤ c ∧ c < n ∧ rejectAxisOld n lo hi = true :=
  ⟨5, -2, -1/10, -3/10, 0, by decide +kernel⟩

end PyresampleModel.C11
