import PyresampleModel.Gen.Src
import PyresampleModel.Model.C08
import PyresampleModel.Model.C10
import PyresampleModel.Proofs.Num
import Mathlib.Tactic.FieldSimp
import Mathlib.Tactic.Ring

/-
  Tie theorems, C08 (also C18): the grid parameters `ewa.ll2cr` hands to the compiled `ll2cr_static`, and the
  re-basing of columns / rows onto an output chunk's sub-area in `dask_ewa._delayed_fornav`, as translated from /repo's
  current source, equal the model's `ll2crParams` and a plain subtraction of the chunk's slice start — which is
  exactly the sub-area's own array coordinate (`rebase_is_subarea_coordinate`, with C10's model of slicing).
-/
namespace PyresampleModel.Tie
open PyresampleModel

theorem tie_ewa_ll2cr_params (a : C08.AreaQ) :
    Gen.ewa_ll2cr_params a.psx a.psy a.w a.h (a.x0, a.y0, a.x1, a.y1) =
      ((C08.ll2crParams a).1, (C08.ll2crParams a).2.1, (a.w : Int), (a.h : Int),
       (C08.ll2crParams a).2.2.1, (C08.ll2crParams a).2.2.2) := by
  simp [Gen.ewa_ll2cr_params, C08.ll2crParams]

theorem tie_dask_ewa_rebase (col row : Rat) (xs ys : Nat) (xe ye : Int) (sx sy : Option Int) :
    Gen.dask_ewa_rebase (col, row) ⟨(xs : Int), xe, sx⟩ ⟨(ys : Int), ye, sy⟩ = (col - (xs : Rat), row - (ys : Rat)) := by
  simp only [Gen.dask_ewa_rebase]
  by_cases hx : (xs : Int) = 0 <;> by_cases hy : (ys : Int) = 0 <;> simp [hx, hy]
  all_goals (norm_cast at hx hy; simp_all)

theorem aux_x (u d x lo hi : Rat) (hd : d ≠ 0) (hn : hi - lo ≠ 0) :
    (x - (u + (lo - 1 / 2) * d + (u + (hi - 1 / 2) * d - (u + (lo - 1 / 2) * d)) / (hi - lo) / 2)) /
        ((u + (hi - 1 / 2) * d - (u + (lo - 1 / 2) * d)) / (hi - lo)) = (x - u) / d - lo := by
  have e : (u + (hi - 1 / 2) * d - (u + (lo - 1 / 2) * d)) / (hi - lo) = d := by field_simp; ring
  rw [e]; field_simp; ring

theorem aux_y (u d y lo hi : Rat) (hd : d ≠ 0) (hn : hi - lo ≠ 0) :
    (y - (u - (lo - 1 / 2) * d - (u - (lo - 1 / 2) * d - (u - (hi - 1 / 2) * d)) / (hi - lo) / 2)) /
        (-((u - (lo - 1 / 2) * d - (u - (hi - 1 / 2) * d)) / (hi - lo))) = (y - u) / (-d) - lo := by
  have e : (u - (lo - 1 / 2) * d - (u - (hi - 1 / 2) * d)) / (hi - lo) = d := by field_simp; ring
  rw [e]; field_simp; ring

/-- subtracting the slice start from the parent grid's array coordinate gives the sliced area's own array
coordinate of the same projection coordinate: re-basing is exact (uses C10's model of `AreaDefinition.__getitem__`) -/
theorem rebase_is_subarea_coordinate (a b : C10.Area) (ys xs : PySlice) (h : C10.sliceArea a ys xs = some b)
    (hdx : a.g.dx ≠ 0) (hdy : a.g.dy ≠ 0) (x y : Rat) :
    b.g.arrX x = a.g.arrX x - ((xs.indices a.g.w).1 : Rat) ∧ b.g.arrY y = a.g.arrY y - ((ys.indices a.g.h).1 : Rat) := by
  rcases hy : ys.indices a.g.h with ⟨ylo, yhi⟩
  rcases hx : xs.indices a.g.w with ⟨xlo, xhi⟩
  simp only [C10.sliceArea, hy, hx] at h
  split at h
  · rename_i hne
    obtain ⟨hyl, hxl⟩ := hne
    cases h
    have hwx : ((xhi - xlo : Nat) : Rat) ≠ 0 := by
      have : 0 < xhi - xlo := by omega
      exact_mod_cast (Nat.pos_iff_ne_zero.mp this)
    have hwy : ((yhi - ylo : Nat) : Rat) ≠ 0 := by
      have : 0 < yhi - ylo := by omega
      exact_mod_cast (Nat.pos_iff_ne_zero.mp this)
    have cx : ((xhi - xlo : Nat) : Rat) = (xhi : Rat) - (xlo : Rat) := by
      push_cast [Nat.cast_sub (Nat.le_of_lt hxl)]; ring
    have cy : ((yhi - ylo : Nat) : Rat) = (yhi : Rat) - (ylo : Rat) := by
      push_cast [Nat.cast_sub (Nat.le_of_lt hyl)]; ring
    have hwx' : (xhi : Rat) - (xlo : Rat) ≠ 0 := by rw [← cx]; exact hwx
    have hwy' : (yhi : Rat) - (ylo : Rat) ≠ 0 := by rw [← cy]; exact hwy
    constructor
    · have := aux_x a.g.uplx a.g.dx x xlo xhi hdx hwx'
      simp only [Grid.arrX, Grid.uplx, Grid.dx, cx] at *
      exact this
    · have := aux_y a.g.uply a.g.dy y ylo yhi hdy hwy'
      simp only [Grid.arrY, Grid.uply, Grid.dy, cy] at *
      exact this
  · cases h

/-- **an explicit `rows_per_scan` always wins**: the value `DaskEWAResampler._get_rows_per_scan` returns, as translated from
/repo's current source: the keyword if given (0 standing for "the whole swath is one scan"), else the geolocation's
`attrs['rows_per_scan']` when the longitudes are a DataArray, else an error -/
theorem code_rows_per_scan (kw attr : Option Int) (hasXr isDa : Bool) (n : Int) :
    Gen.ewa_rows_per_scan kw hasXr isDa attr n =
      (match kw with
       | some k => some (if k = 0 then n else k)
       | none => if hasXr && isDa then attr.map (fun a => if a = 0 then n else a) else none) := by
  cases kw with
  | some k => by_cases h : k = 0 <;> simp [Gen.ewa_rows_per_scan, h]
  | none =>
    cases hasXr <;> cases isDa <;> cases attr <;> simp [Gen.ewa_rows_per_scan]
    all_goals (rename_i a; by_cases h : a = 0 <;> simp [h])

/-- the row chunking chosen for the inputs is a whole number (≥ 1) of scans -/
theorem code_chunk_rows_scan_aligned (auto rps : Int) (hr : 0 < rps) :
    ∃ k : Int, 1 ≤ k ∧ Gen.ewa_chunk_rows auto rps = k * rps := by
  refine ⟨Gen.pyMaxI (pyFloor (((auto : Int) : Rat) / ((rps : Int) : Rat))) 1, ?_, rfl⟩
  simp only [Gen.pyMaxI]; split <;> omega

end PyresampleModel.Tie
