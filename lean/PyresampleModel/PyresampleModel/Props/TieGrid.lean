import PyresampleModel.Gen.Src
import PyresampleModel.Model.Grid
import PyresampleModel.Proofs.Num

/-
  Tie theorems for the shared grid model (`Model/Grid.lean`, used by C01, C07, C08, C10, C18): the quantities that
  `AreaDefinition.__init__` derives from the extent and the size, and the two affine conversions between array and
  projection coordinates, as translated from /repo's current source (elementwise reading of the numpy expressions),
  are the model's `dx dy uplx uply offx offy`, `arrX arrY`, `projX projY`.
-/
namespace PyresampleModel.Tie
open PyresampleModel

theorem tie_area_init_derived (g : Grid) :
    Gen.area_init_derived (g.x0, g.y0, g.x1, g.y1) (g.x0, g.y0, g.x1, g.y1) g.w g.h =
      (g.dx, g.dy, (g.uplx, g.uply), g.offx, g.offy) := by
  simp [Gen.area_init_derived, Grid.dx, Grid.dy, Grid.uplx, Grid.uply, Grid.offx, Grid.offy]

theorem tie_get_corner_and_scale (g : Grid) :
    Gen.get_corner_and_scale g.dx g.dy (g.uplx, g.uply) = (g.uplx, g.uply, g.dx, -g.dy) := by
  simp [Gen.get_corner_and_scale]

theorem tie_array_from_proj (g : Grid) (x y : Rat) :
    Gen.array_from_proj x y g.dx g.dy (g.uplx, g.uply) = (g.arrX x, g.arrY y) := by
  simp [Gen.array_from_proj, Gen.get_corner_and_scale, Grid.arrX, Grid.arrY]

theorem tie_proj_from_array (g : Grid) (c r : Rat) :
    Gen.proj_from_array c r g.dx g.dy (g.uplx, g.uply) = (g.projX c, g.projY r) := by
  simp [Gen.proj_from_array, Gen.get_corner_and_scale, Grid.projX, Grid.projY]

/-- `AreaDefinition.resolution` hands out the SIGNED pixel sizes (negative on a flipped axis); the bucket resampler's cell
formula and the slicer's buffer both read the pixel size through this property -/
theorem tie_area_resolution (g : Grid) : Gen.area_resolution g.dx g.dy = (g.dx, g.dy) := by
  simp [Gen.area_resolution]

/-- `_generate_1d_proj_vectors` (the `arange` calls read elementwise as the column / row index; the call in
`AreaDefinition._get_proj_vectors`, which hands it the pixel sizes and `pixel_upper_left`, is required verbatim): element `c` of the
x vector is the model's `projX c`, element `r` of the y vector is `projY r` — the same affine map as
`get_projection_coordinates_from_array_coordinates`, so the two accessors cannot drift apart -/
theorem tie_proj_vectors (g : Grid) (c r : Rat) :
    Gen.proj_vectors1d c r (g.dx, g.dy) (g.uplx, g.uply) = (g.projX c, g.projY r) := by
  simp [Gen.proj_vectors1d, Grid.projX, Grid.projY]

theorem code_vectors_agree_with_conversion (g : Grid) (c r : Rat) :
    Gen.proj_vectors1d c r (g.dx, g.dy) (g.uplx, g.uply) = Gen.proj_from_array c r g.dx g.dy (g.uplx, g.uply) := by
  rw [tie_proj_vectors, tie_proj_from_array]

end PyresampleModel.Tie
