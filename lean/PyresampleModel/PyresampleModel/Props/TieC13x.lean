import PyresampleModel.Props.TieC13n
import PyresampleModel.Props.TieC13s

namespace PyresampleModel.Tie
open PyresampleModel

/-- `_extrapolate_information` as translated from the current source = the model's `extrapolate`, for every description
(extent and shape found, resolution handed back unchanged; `none` = ValueError on contradictory input) -/
theorem tie_extrapolate_information (d : C13.Desc) :
    (Gen.extrapolate_information d.extent d.shape d.center d.radius d.resolution d.ule)=
      (C13.extrapolate d).map (fun f => (f.extent, f.shape, d.resolution)) := by
  obtain ⟨e, s, c, r, res, u⟩ := d
  cases e with
  | none => exact tie_extrapolate_none s c r res u
  | some e => exact tie_extrapolate_some s c r res u e

end PyresampleModel.Tie
