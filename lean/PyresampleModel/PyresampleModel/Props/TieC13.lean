import PyresampleModel.Gen.Src
import PyresampleModel.Model.C13
import PyresampleModel.Proofs.Num

/-
  Tie theorem, C13: `area_config._round_shape` as translated from /repo's current source equals the model's
  `roundDim` on both dimensions.  (The float literals `1e-8` and `.01` are the exact rational values of the doubles;
  writing this theorem showed that the model first used 1/10^8 and 1/100, which are not doubles — the model was
  corrected, see DESIGN.md §13.)
-/
namespace PyresampleModel.Tie
open PyresampleModel

theorem pyAbsQ_eq (q : Rat) : Gen.pyAbsQ q = C13.absQ q := by
  simp only [Gen.pyAbsQ, C13.absQ]
  by_cases h : q < 0
  · simp [h, not_le.mpr h]
  · simp [h, not_lt.mp h]

theorem roundHalfEven_intCast (n : Int) : roundHalfEven (n : Rat) = n := by
  apply roundHalfEven_eq <;> linarith

/-- `_round_shape((h, w))` (no radius / resolution given: the branch that only logs) = `(roundDim h, roundDim w)` -/
theorem tie_round_shape (h w : Rat) :
    Gen.round_shape (h, w) = (C13.roundDim h, C13.roundDim w) := by
  by_cases a : C13.absQ (w - (roundHalfEven w : Rat)) > mkRat 3022314549036573 302231454903657293676544 <;>
  by_cases b : w - (pyFloor w : Rat) ≥ mkRat 5764607523034235 576460752303423488 <;>
  by_cases a' : C13.absQ (h - (roundHalfEven h : Rat)) > mkRat 3022314549036573 302231454903657293676544 <;>
  by_cases b' : h - (pyFloor h : Rat) ≥ mkRat 5764607523034235 576460752303423488 <;>
  simp only [Gen.round_shape, C13.roundDim, pyAbsQ_eq, C13.eps8, C13.c01, a, b, a', b', roundHalfEven_intCast,
    decide_true, decide_false, if_true, if_false] <;> simp

/-- numpy's `allclose` element test (Gen/Prelude) is the model's `close1` -/
theorem npClose_eq (a b : Rat) : Gen.npClose a b = C13.close1 a b := by
  simp only [Gen.npClose, C13.close1, pyAbsQ_eq]

theorem tie_validate_variable2 (g : Option C13.P2) (f : C13.P2) :
    Gen.validate_variable2 g f = C13.validate2 g f := by
  cases g with
  | none => simp [Gen.validate_variable2, C13.validate2]
  | some v =>
    simp only [Gen.validate_variable2, C13.validate2, Gen.npAllclose2, C13.close2, npClose_eq]
    by_cases h : (C13.close1 v.1 f.1 && C13.close1 v.2 f.2) = true <;> simp [h]

theorem tie_validate_variable4 (g : Option C13.P4) (f : C13.P4) :
    Gen.validate_variable4 g f = C13.validate4 g f := by
  cases g with
  | none => simp [Gen.validate_variable4, C13.validate4]
  | some v =>
    simp only [Gen.validate_variable4, C13.validate4, Gen.npAllclose4, C13.close4, npClose_eq]
    by_cases h : (C13.close1 v.1 f.1 && C13.close1 v.2.1 f.2.1 && C13.close1 v.2.2.1 f.2.2.1 && C13.close1 v.2.2.2 f.2.2.2) = true <;> simp [h]

end PyresampleModel.Tie
