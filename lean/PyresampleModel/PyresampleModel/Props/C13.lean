import PyresampleModel.Model.C13
import PyresampleModel.Proofs.Num

/-
  C13 — property theorems: every sufficient description of a grid recovers the same extent and shape.
-/
namespace PyresampleModel.C13

/-- a well-formed grid: extent with positive spans, at least one row and column -/
structure WFG (x0 y0 x1 y1 : Rat) (h w : Nat) : Prop where
  hx : x0 < x1
  hy : y0 < y1
  hh : 1 ≤ h
  hw : 1 ≤ w

theorem absQ_nonneg (q : Rat) : 0 ≤ absQ q := by unfold absQ; split <;> linarith

theorem close1_self (a : Rat) : close1 a a = true := by
  simp only [close1, sub_self, decide_eq_true_eq]
  have h0 : absQ 0 = 0 := by simp [absQ]
  have := absQ_nonneg a
  rw [h0]; positivity

theorem roundDim_nat (n : Nat) : roundDim (n : Rat) = n := by
  have h : roundHalfEven (n : Rat) = (n : Int) :=
    roundHalfEven_eq (c := (n : Int)) (by push_cast; linarith) (by push_cast; linarith)
  simp only [roundDim, h]
  have h0 : absQ ((n : Rat) - ((n : Int) : Rat)) = 0 := by simp [absQ]
  rw [h0]
  have : ¬ ((0 : Rat) > eps8) := by unfold eps8; decide +kernel
  rw [if_neg this]; exact h

variable {x0 y0 x1 y1 : Rat} {h w : Nat}

/-- the grid that every description below must recover -/
def target (x0 y0 x1 y1 : Rat) (h w : Nat) : Found :=
  { extent := some (x0, y0, x1, y1), shape := some ((h : Rat), (w : Rat)) }

/-- **extent + shape** -/
theorem desc1_extent_shape (x0 y0 x1 y1 : Rat) (h w : Nat) :
    createArea { extent := some (x0, y0, x1, y1), shape := some ((h : Rat), (w : Rat)) } = some (target x0 y0 x1 y1 h w) := rfl

/-- **centre + radius + shape** -/
theorem desc2_center_radius_shape (x0 y0 x1 y1 : Rat) (h w : Nat) :
    createArea { center := some ((x1 + x0) / 2, (y1 + y0) / 2), radius := some ((x1 - x0) / 2, (y1 - y0) / 2),
                 shape := some ((h : Rat), (w : Rat)) } = some (target x0 y0 x1 y1 h w) := by
  have e1 : (x1 + x0) / 2 - (x1 - x0) / 2 = x0 := by ring
  have e2 : (y1 + y0) / 2 - (y1 - y0) / 2 = y0 := by ring
  have e3 : (x1 + x0) / 2 + (x1 - x0) / 2 = x1 := by ring
  have e4 : (y1 + y0) / 2 + (y1 - y0) / 2 = y1 := by ring
  simp [createArea, extrapolate, validate4, target, e1, e2, e3, e4]

/-- **centre + resolution + shape** -/
theorem desc3_center_resolution_shape (hg : WFG x0 y0 x1 y1 h w) :
    createArea { center := some ((x1 + x0) / 2, (y1 + y0) / 2), resolution := some ((x1 - x0) / w, (y1 - y0) / h),
                 shape := some ((h : Rat), (w : Rat)) } = some (target x0 y0 x1 y1 h w) := by
  have hw : (w : Rat) ≠ 0 := by have := hg.hw; positivity
  have hh : (h : Rat) ≠ 0 := by have := hg.hh; positivity
  have e1 : (x1 + x0) / 2 - (x1 - x0) / w * w / 2 = x0 := by field_simp; ring
  have e2 : (y1 + y0) / 2 - (y1 - y0) / h * h / 2 = y0 := by field_simp; ring
  have e3 : (x1 + x0) / 2 + (x1 - x0) / w * w / 2 = x1 := by field_simp; ring
  have e4 : (y1 + y0) / 2 + (y1 - y0) / h * h / 2 = y1 := by field_simp; ring
  simp [createArea, extrapolate, validate2, validate4, target, e1, e2, e3, e4]

/-- **upper-left extent + resolution + shape** -/
theorem desc4_ule_resolution_shape (hg : WFG x0 y0 x1 y1 h w) :
    createArea { ule := some (x0, y1), resolution := some ((x1 - x0) / w, (y1 - y0) / h),
                 shape := some ((h : Rat), (w : Rat)) } = some (target x0 y0 x1 y1 h w) := by
  have hw : (w : Rat) ≠ 0 := by have := hg.hw; positivity
  have hh : (h : Rat) ≠ 0 := by have := hg.hh; positivity
  have e2 : y1 - 2 * ((y1 - y0) / h * h / 2) = y0 := by field_simp; ring
  have e3 : x0 + 2 * ((x1 - x0) / w * w / 2) = x1 := by field_simp; ring
  simp [createArea, extrapolate, validate2, validate4, target, e2, e3]

/-- **centre + radius + resolution** (the shape is found by rounding 2·radius/resolution) -/
theorem desc5_center_radius_resolution (hg : WFG x0 y0 x1 y1 h w) :
    createArea { center := some ((x1 + x0) / 2, (y1 + y0) / 2), radius := some ((x1 - x0) / 2, (y1 - y0) / 2),
                 resolution := some ((x1 - x0) / w, (y1 - y0) / h) } = some (target x0 y0 x1 y1 h w) := by
  have hw : (w : Rat) ≠ 0 := by have := hg.hw; positivity
  have hh : (h : Rat) ≠ 0 := by have := hg.hh; positivity
  have hxs : x1 - x0 ≠ 0 := by have := hg.hx; linarith
  have hys : y1 - y0 ≠ 0 := by have := hg.hy; linarith
  have s1 : 2 * ((y1 - y0) / 2) / ((y1 - y0) / h) = (h : Rat) := by field_simp
  have s2 : 2 * ((x1 - x0) / 2) / ((x1 - x0) / w) = (w : Rat) := by field_simp
  have e1 : (x1 + x0) / 2 - (x1 - x0) / 2 = x0 := by ring
  have e2 : (y1 + y0) / 2 - (y1 - y0) / 2 = y0 := by ring
  have e3 : (x1 + x0) / 2 + (x1 - x0) / 2 = x1 := by ring
  have e4 : (y1 + y0) / 2 + (y1 - y0) / 2 = y1 := by ring
  simp [createArea, extrapolate, validate2, validate4, target, s1, s2, roundDim_nat, e1, e2, e3, e4]

/-- **extent + resolution** -/
theorem desc6_extent_resolution (hg : WFG x0 y0 x1 y1 h w) :
    createArea { extent := some (x0, y0, x1, y1), resolution := some ((x1 - x0) / w, (y1 - y0) / h) } =
      some (target x0 y0 x1 y1 h w) := by
  have hw : (w : Rat) ≠ 0 := by have := hg.hw; positivity
  have hh : (h : Rat) ≠ 0 := by have := hg.hh; positivity
  have hxs : x1 - x0 ≠ 0 := by have := hg.hx; linarith
  have hys : y1 - y0 ≠ 0 := by have := hg.hy; linarith
  have s1 : 2 * ((y1 - y0) / 2) / ((y1 - y0) / h) = (h : Rat) := by field_simp
  have s2 : 2 * ((x1 - x0) / 2) / ((x1 - x0) / w) = (w : Rat) := by field_simp
  have e1 : (x1 + x0) / 2 - (x1 - x0) / 2 = x0 := by ring
  have e2 : (y1 + y0) / 2 - (y1 - y0) / 2 = y0 := by ring
  have e3 : (x1 + x0) / 2 + (x1 - x0) / 2 = x1 := by ring
  have e4 : (y1 + y0) / 2 + (y1 - y0) / 2 = y1 := by ring
  simp [createArea, extrapolate, validate2, validate4, close4, close1_self, target, s1, s2, roundDim_nat, e1, e2, e3, e4]

/-- **contradictions raise**: an extent together with a centre that is not (close to) the
extent's own centre is rejected -/
theorem contradiction_raises (x0 y0 x1 y1 : Rat) (c : P2) (res : Option P2)
    (hc : close2 c ((x1 + x0) / 2, (y1 + y0) / 2) = false) :
    createArea { extent := some (x0, y0, x1, y1), center := some c, resolution := res } = none := by
  simp [createArea, extrapolate, validate2, hc]

/-- **missing information gives a dynamic area**: with only a resolution (or only a shape, or only
an extent) no conflict is reported and extent or shape stays undetermined -/
theorem missing_gives_dynamic (res : P2) (s : P2) :
    createArea { resolution := some res } = some { extent := none, shape := none } ∧
    createArea { shape := some s } = some { extent := none, shape := some s } ∧
    createArea { resolution := some res, shape := some s } = some { extent := none, shape := some s } := by
  refine ⟨?_, ?_, ?_⟩ <;> simp [createArea, extrapolate, validate2]

example : WFG 0 0 4 3 3 4 := ⟨by norm_num, by norm_num, by norm_num, by norm_num⟩

end PyresampleModel.C13
