import PyresampleModel.Model.C13

/-
  C13 — property theorems (stub: none yet).
-/
namespace PyresampleModel.C13

end PyresampleModel.C13
