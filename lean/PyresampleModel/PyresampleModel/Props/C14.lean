import PyresampleModel.Model.C14
import PyresampleModel.Proofs.Num

/-
  C14 — property theorems for DynamicAreaDefinition.compute_domain (resolution and shape branches,
  global extents, wrap-around).
-/
namespace PyresampleModel.C14

/-! ### resolution branch -/

/-- the x-axis facts of the resolution branch, for any corner interval and resolution `r > 0` -/
theorem aux_axis_res (lo hi r : Rat) (hr : 0 < r) (hlh : lo ≤ hi) :
    let a := (pyFloor ((lo - r / 2) / r) : Rat) * r
    let b := (pyCeil ((hi + r / 2) / r) : Rat) * r
    a ≤ lo - r / 2 ∧ hi + r / 2 ≤ b ∧
    (∃ n : Int, 1 ≤ n ∧ (b - a) / r = n ∧ roundHalfEven ((b - a) / r) = n) := by
  intro a b
  have h1 := pyFloor_le ((lo - r / 2) / r)
  have h2 := le_pyCeil ((hi + r / 2) / r)
  have ha : a ≤ lo - r / 2 := by
    have := (le_div_iff₀ hr).mp h1; exact this
  have hb : hi + r / 2 ≤ b := by
    have := (div_le_iff₀ hr).mp h2; exact this
  refine ⟨ha, hb, ?_⟩
  refine ⟨pyCeil ((hi + r / 2) / r) - pyFloor ((lo - r / 2) / r), ?_, ?_, ?_⟩
  · have hlt : a < b := by linarith
    have : (pyFloor ((lo - r / 2) / r) : Rat) < (pyCeil ((hi + r / 2) / r) : Rat) := by
      by_contra hc
      have hc' := not_lt.mp hc
      have : b ≤ a := by
        show (pyCeil ((hi + r / 2) / r) : Rat) * r ≤ (pyFloor ((lo - r / 2) / r) : Rat) * r
        exact mul_le_mul_of_nonneg_right hc' hr.le
      linarith
    have : pyFloor ((lo - r / 2) / r) < pyCeil ((hi + r / 2) / r) := by exact_mod_cast this
    omega
  · show ((pyCeil ((hi + r / 2) / r) : Rat) * r - (pyFloor ((lo - r / 2) / r) : Rat) * r) / r = _
    push_cast; field_simp
  · have e : (b - a) / r = ((pyCeil ((hi + r / 2) / r) - pyFloor ((lo - r / 2) / r) : Int) : Rat) := by
      show ((pyCeil ((hi + r / 2) / r) : Rat) * r - (pyFloor ((lo - r / 2) / r) : Rat) * r) / r = _
      push_cast; field_simp
    rw [e]
    exact roundHalfEven_eq (by linarith) (by linarith)

/-- **a requested resolution is honoured exactly**: for positive resolutions the frozen extent is
aligned to multiples of the resolution, contains the data corners padded by half a pixel, has a
positive integer size, and width·rx (height·ry) is exactly the extent span, i.e. the pixel size of
the resulting area IS the requested resolution -/
theorem res_branch (c : Corners) (rx ry : Rat) (hx : 0 < rx) (hy : 0 < ry)
    (hcx : c.xmin ≤ c.xmax) (hcy : c.ymin ≤ c.ymax) :
    let d := domainRes c rx ry
    (∃ k : Int, d.x0 = k * rx) ∧ (∃ k : Int, d.x1 = k * rx) ∧ (∃ k : Int, d.y0 = k * ry) ∧ (∃ k : Int, d.y1 = k * ry) ∧
    d.x0 ≤ c.xmin - rx / 2 ∧ c.xmax + rx / 2 ≤ d.x1 ∧ d.y0 ≤ c.ymin - ry / 2 ∧ c.ymax + ry / 2 ≤ d.y1 ∧
    1 ≤ d.w ∧ 1 ≤ d.h ∧ (d.w : Rat) * rx = d.x1 - d.x0 ∧ (d.h : Rat) * ry = d.y1 - d.y0 := by
  intro d
  obtain ⟨ax, bx, nx, hnx1, hnx2, hnx3⟩ := aux_axis_res c.xmin c.xmax rx hx hcx
  obtain ⟨ay, by_, ny, hny1, hny2, hny3⟩ := aux_axis_res c.ymin c.ymax ry hy hcy
  refine ⟨⟨_, rfl⟩, ⟨_, rfl⟩, ⟨_, rfl⟩, ⟨_, rfl⟩, ax, bx, ay, by_, ?_, ?_, ?_, ?_⟩
  · show 1 ≤ roundHalfEven _; rw [hnx3]; exact hnx1
  · show 1 ≤ roundHalfEven _; rw [hny3]; exact hny1
  · show (roundHalfEven _ : Rat) * rx = _
    rw [hnx3]; exact ((div_eq_iff hx.ne').mp hnx2).symm
  · show (roundHalfEven _ : Rat) * ry = _
    rw [hny3]; exact ((div_eq_iff hy.ne').mp hny2).symm

/-- **every data point maps to a valid pixel** (resolution branch): any x between the corner
centres lands in a column index in `[0, width)` of the frozen grid -/
theorem res_point_valid (c : Corners) (rx ry : Rat) (hx : 0 < rx) (hy : 0 < ry)
    (hcx : c.xmin ≤ c.xmax) (hcy : c.ymin ≤ c.ymax) (x y : Rat)
    (h1 : c.xmin ≤ x) (h2 : x ≤ c.xmax) (h3 : c.ymin ≤ y) (h4 : y ≤ c.ymax) :
    let d := domainRes c rx ry
    0 ≤ pyFloor ((x - d.x0) / rx) ∧ pyFloor ((x - d.x0) / rx) < d.w ∧
    0 ≤ pyFloor ((d.y1 - y) / ry) ∧ pyFloor ((d.y1 - y) / ry) < d.h := by
  intro d
  obtain ⟨_, _, _, _, a1, a2, a3, a4, _, _, hw, hh⟩ := res_branch c rx ry hx hy hcx hcy
  refine ⟨?_, ?_, ?_, ?_⟩
  · rw [pyFloor_nonneg]; apply div_nonneg _ hx.le; linarith
  · have : (x - d.x0) / rx < d.w := by
      rw [div_lt_iff₀ hx]; linarith
    have h := pyFloor_le ((x - d.x0) / rx)
    have : ((pyFloor ((x - d.x0) / rx) : Int) : Rat) < (d.w : Rat) := by linarith
    exact_mod_cast this
  · rw [pyFloor_nonneg]; apply div_nonneg _ hy.le; linarith
  · have : (d.y1 - y) / ry < d.h := by
      rw [div_lt_iff₀ hy]; linarith
    have h := pyFloor_le ((d.y1 - y) / ry)
    have : ((pyFloor ((d.y1 - y) / ry) : Int) : Rat) < (d.h : Rat) := by linarith
    exact_mod_cast this

/-! ### shape branch -/

/-- **a requested shape is honoured exactly, outermost points on outermost pixel centres**
(both sizes ≥ 2, non-degenerate corner box): the pixel size is `(max − min)/(n − 1)`, the centre of
column 0 is `xmin`, the centre of column W−1 is `xmax`, same for rows, and the extent contains the box -/
theorem shape_branch (c : Corners) (height width : Nat) (hw : 2 ≤ width) (hh : 2 ≤ height)
    (hcx : c.xmin < c.xmax) (hcy : c.ymin < c.ymax) :
    let d := domainShape c height width
    let px := (d.x1 - d.x0) / width
    let py := (d.y1 - d.y0) / height
    d.w = width ∧ d.h = height ∧ 0 < px ∧ 0 < py ∧
    d.x0 + px / 2 = c.xmin ∧ d.x0 + ((width : Rat) - 1/2) * px = c.xmax ∧
    d.y1 - py / 2 = c.ymax ∧ d.y1 - ((height : Rat) - 1/2) * py = c.ymin ∧
    d.x0 < c.xmin ∧ c.xmax < d.x1 ∧ d.y0 < c.ymin ∧ c.ymax < d.y1 := by
  intro d px py
  have w1 : (1 : Rat) < width := by exact_mod_cast hw
  have h1 : (1 : Rat) < height := by exact_mod_cast hh
  have hw0 : (width : Rat) - 1 ≠ 0 := by linarith
  have hh0 : (height : Rat) - 1 ≠ 0 := by linarith
  have hwp : (0 : Rat) < width := by linarith
  have hhp : (0 : Rat) < height := by linarith
  have epx : px = (c.xmax - c.xmin) / ((width : Rat) - 1) := by
    show (c.xmax + (c.xmax - c.xmin) / ((width : Rat) - 1) / 2 - (c.xmin - (c.xmax - c.xmin) / ((width : Rat) - 1) / 2)) / width = _
    field_simp; ring
  have epy : py = (c.ymax - c.ymin) / ((height : Rat) - 1) := by
    show (c.ymax + (c.ymax - c.ymin) / ((height : Rat) - 1) / 2 - (c.ymin - (c.ymax - c.ymin) / ((height : Rat) - 1) / 2)) / height = _
    field_simp; ring
  have pxpos : 0 < px := by rw [epx]; apply div_pos <;> linarith
  have pypos : 0 < py := by rw [epy]; apply div_pos <;> linarith
  refine ⟨rfl, rfl, pxpos, pypos, ?_, ?_, ?_, ?_, ?_, ?_, ?_, ?_⟩
  · rw [epx]; show c.xmin - (c.xmax - c.xmin) / ((width : Rat) - 1) / 2 + _ = _; ring
  · rw [epx]; show c.xmin - (c.xmax - c.xmin) / ((width : Rat) - 1) / 2 + _ = _; field_simp; ring
  · rw [epy]; show c.ymax + (c.ymax - c.ymin) / ((height : Rat) - 1) / 2 - _ = _; ring
  · rw [epy]; show c.ymax + (c.ymax - c.ymin) / ((height : Rat) - 1) / 2 - _ = _; field_simp; ring
  · have : 0 < (c.xmax - c.xmin) / ((width : Rat) - 1) / 2 := by apply div_pos (div_pos _ _) <;> linarith
    show c.xmin - _ < c.xmin; linarith
  · have : 0 < (c.xmax - c.xmin) / ((width : Rat) - 1) / 2 := by apply div_pos (div_pos _ _) <;> linarith
    show c.xmax < c.xmax + _; linarith
  · have : 0 < (c.ymax - c.ymin) / ((height : Rat) - 1) / 2 := by apply div_pos (div_pos _ _) <;> linarith
    show c.ymin - _ < c.ymin; linarith
  · have : 0 < (c.ymax - c.ymin) / ((height : Rat) - 1) / 2 := by apply div_pos (div_pos _ _) <;> linarith
    show c.ymax < c.ymax + _; linarith

/-- **global extents with a shape**: the two half-pixel formulas (`/ width` when placing the corner
centres, `/ (width − 1)` when padding them again) are correct as a pair — the frozen x extent is
exactly the area of use (west, east) -/
theorem global_extents_shape (west east : Rat) (c : Corners) (height width : Nat) (hw : 2 ≤ width) :
    (domainShape (fullExtentShape west east c width) height width).x0 = west ∧
    (domainShape (fullExtentShape west east c width) height width).x1 = east := by
  have w1 : (1 : Rat) < width := by exact_mod_cast hw
  have hw0 : (width : Rat) - 1 ≠ 0 := by linarith
  have hwp : (width : Rat) ≠ 0 := by linarith
  constructor
  · show west + (east - west) / width / 2 - (east - (east - west) / width / 2 - (west + (east - west) / width / 2)) / ((width : Rat) - 1) / 2 = west
    field_simp; ring
  · show east - (east - west) / width / 2 + (east - (east - west) / width / 2 - (west + (east - west) / width / 2)) / ((width : Rat) - 1) / 2 = east
    field_simp; ring

/-- **global extents with a resolution**: the frozen x extent contains the whole area of use -/
theorem global_extents_res (west east : Rat) (c : Corners) (rx ry : Rat) (hx : 0 < rx) :
    (domainRes (fullExtentRes west east c rx) rx ry).x0 ≤ west ∧
    east ≤ (domainRes (fullExtentRes west east c rx) rx ry).x1 := by
  constructor
  · show (pyFloor ((west + rx / 2 - rx / 2) / rx) : Rat) * rx ≤ west
    have := pyFloor_le ((west + rx / 2 - rx / 2) / rx)
    have := (le_div_iff₀ hx).mp this; linarith
  · show east ≤ (pyCeil ((east - rx / 2 + rx / 2) / rx) : Rat) * rx
    have := le_pyCeil ((east - rx / 2 + rx / 2) / rx)
    have := (div_le_iff₀ hx).mp this; linarith

/-- `x % 360` lies in [0, 360) and differs from x by a multiple of 360 -/
theorem wrap360_spec (x : Rat) : 0 ≤ wrap360 x ∧ wrap360 x < 360 ∧ ∃ k : Int, x = wrap360 x + 360 * k := by
  have h1 := pyFloor_le (x / 360)
  have h2 := lt_pyFloor_add_one (x / 360)
  have a := (le_div_iff₀ (by norm_num : (0:Rat) < 360)).mp h1
  have b := (div_lt_iff₀ (by norm_num : (0:Rat) < 360)).mp h2
  refine ⟨by unfold wrap360; linarith, by unfold wrap360; linarith, pyFloor (x / 360), by unfold wrap360; ring⟩

/-! ### data crossing the antimeridian -/

theorem aux_foldmin (xs : List Rat) : ∀ (a : Rat),
    xs.foldl (fun a b => if b < a then b else a) a ≤ a ∧
    (∀ y ∈ xs, xs.foldl (fun a b => if b < a then b else a) a ≤ y) ∧
    (xs.foldl (fun a b => if b < a then b else a) a = a ∨ xs.foldl (fun a b => if b < a then b else a) a ∈ xs) := by
  induction xs with
  | nil => intro a; simp
  | cons x xs ih =>
    intro a
    simp only [List.foldl_cons]
    obtain ⟨h1, h2, h3⟩ := ih (if x < a then x else a)
    by_cases hx : x < a
    · simp only [hx, if_true] at h1 h2 h3 ⊢
      refine ⟨by linarith, ?_, ?_⟩
      · intro y hy
        rcases List.mem_cons.mp hy with rfl | hy
        · exact h1
        · exact h2 y hy
      · rcases h3 with h | h
        · right; rw [h]; exact List.mem_cons_self
        · right; exact List.mem_cons_of_mem _ h
    · simp only [hx, if_false] at h1 h2 h3 ⊢
      refine ⟨h1, ?_, ?_⟩
      · intro y hy
        rcases List.mem_cons.mp hy with rfl | hy
        · have : a ≤ y := not_lt.mp hx
          linarith
        · exact h2 y hy
      · rcases h3 with h | h
        · left; exact h
        · right; exact List.mem_cons_of_mem _ h

theorem aux_foldmax (xs : List Rat) : ∀ (a : Rat),
    a ≤ xs.foldl (fun a b => if a < b then b else a) a ∧
    (∀ y ∈ xs, y ≤ xs.foldl (fun a b => if a < b then b else a) a) ∧
    (xs.foldl (fun a b => if a < b then b else a) a = a ∨ xs.foldl (fun a b => if a < b then b else a) a ∈ xs) := by
  induction xs with
  | nil => intro a; simp
  | cons x xs ih =>
    intro a
    simp only [List.foldl_cons]
    obtain ⟨h1, h2, h3⟩ := ih (if a < x then x else a)
    by_cases hx : a < x
    · simp only [hx, if_true] at h1 h2 h3 ⊢
      refine ⟨by linarith, ?_, ?_⟩
      · intro y hy
        rcases List.mem_cons.mp hy with rfl | hy
        · exact h1
        · exact h2 y hy
      · rcases h3 with h | h
        · right; rw [h]; exact List.mem_cons_self
        · right; exact List.mem_cons_of_mem _ h
    · simp only [hx, if_false] at h1 h2 h3 ⊢
      refine ⟨h1, ?_, ?_⟩
      · intro y hy
        rcases List.mem_cons.mp hy with rfl | hy
        · have : y ≤ a := not_lt.mp hx
          linarith
        · exact h2 y hy
      · rcases h3 with h | h
        · left; exact h
        · right; exact List.mem_cons_of_mem _ h

theorem minL_spec (l : List Rat) (hne : l ≠ []) : (∀ y ∈ l, minL l ≤ y) ∧ minL l ∈ l := by
  cases l with
  | nil => exact absurd rfl hne
  | cons x xs =>
    obtain ⟨h1, h2, h3⟩ := aux_foldmin xs x
    refine ⟨?_, ?_⟩
    · intro y hy
      rcases List.mem_cons.mp hy with rfl | hy
      · exact h1
      · exact h2 y hy
    · show xs.foldl _ x ∈ x :: xs
      rcases h3 with h | h
      · rw [h]; exact List.mem_cons_self
      · exact List.mem_cons_of_mem _ h

theorem maxL_spec (l : List Rat) (hne : l ≠ []) : (∀ y ∈ l, y ≤ maxL l) ∧ maxL l ∈ l := by
  cases l with
  | nil => exact absurd rfl hne
  | cons x xs =>
    obtain ⟨h1, h2, h3⟩ := aux_foldmax xs x
    refine ⟨?_, ?_⟩
    · intro y hy
      rcases List.mem_cons.mp hy with rfl | hy
      · exact h1
      · exact h2 y hy
    · show xs.foldl _ x ∈ x :: xs
      rcases h3 with h | h
      · rw [h]; exact List.mem_cons_self
      · exact List.mem_cons_of_mem _ h

/-- every finite longitude, taken modulo 360 (and shifted with the CRS's prime meridian in `modify_crs` mode), lies within the new
x corners, and both corners are attained by data points: the smallest area across the antimeridian that contains all the data -/
theorem antimeridian_contains (xs : List (Option Rat)) (shift : Rat) (x : Rat) (hx : some x ∈ xs) :
    (antimeridianXN xs shift).1 ≤ wrap360 x - shift ∧ wrap360 x - shift ≤ (antimeridianXN xs shift).2 ∧
    (∃ a, some a ∈ xs ∧ (antimeridianXN xs shift).1 = wrap360 a - shift) ∧
    (∃ b, some b ∈ xs ∧ (antimeridianXN xs shift).2 = wrap360 b - shift) := by
  unfold antimeridianXN antimeridianX
  have hmem : x ∈ xs.filterMap id := by
    rw [List.mem_filterMap]; exact ⟨some x, hx, rfl⟩
  have hw : wrap360 x ∈ (xs.filterMap id).map wrap360 := List.mem_map_of_mem hmem
  have hne : (xs.filterMap id).map wrap360 ≠ [] := List.ne_nil_of_mem hw
  obtain ⟨m1, m2⟩ := minL_spec _ hne
  obtain ⟨M1, M2⟩ := maxL_spec _ hne
  refine ⟨by have := m1 _ hw; simp only; linarith, by have := M1 _ hw; simp only; linarith, ?_, ?_⟩
  · obtain ⟨a, ha, e⟩ := List.mem_map.mp m2
    rw [List.mem_filterMap] at ha
    obtain ⟨oa, hoa, e2⟩ := ha
    refine ⟨a, ?_, by simp only; rw [← e]⟩
    cases oa with
    | none => simp at e2
    | some v => simp at e2; rw [← e2]; exact hoa
  · obtain ⟨b, hb, e⟩ := List.mem_map.mp M2
    rw [List.mem_filterMap] at hb
    obtain ⟨ob, hob, e2⟩ := hb
    refine ⟨b, ?_, by simp only; rw [← e]⟩
    cases ob with
    | none => simp at e2
    | some v => simp at e2; rw [← e2]; exact hob

example : antimeridianXN [some 179, none, some (-179), some 180] 0 = (179, 181) := by decide +kernel
example : antimeridianXN [some 179, none, some (-179), some 180] 180 = (-1, 1) := by decide +kernel

/-! non-vacuity -/
example : domainRes ⟨1/2, 1/2, 7/2, 5/2⟩ 1 1 = ⟨0, 0, 4, 3, 4, 3⟩ := by decide +kernel
example : domainShape ⟨1/2, 1/2, 7/2, 5/2⟩ 3 4 = ⟨0, 0, 4, 3, 4, 3⟩ := by decide +kernel

end PyresampleModel.C14
