import PyresampleModel.Model.C14

/-
  C14 — property theorems (stub: none yet).
-/
namespace PyresampleModel.C14

end PyresampleModel.C14
