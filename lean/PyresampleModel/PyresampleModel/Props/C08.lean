import PyresampleModel.Model.C08
import PyresampleModel.Proofs.Num
import Mathlib.Tactic.LinearCombination

/-
  C08 — property theorems: EWA maps swath pixels exactly and averages them without inventing values.
  ll2cr is the target area's own mapping; per grid cell the written value is fill or a weighted mean of valid inputs (within their
  range, constants preserved), in maximum-weight mode one of the inputs; the dask reduction over input chunks and the shift into
  output sub-grids reproduce the one-shot result.  The Gaussian weights are parameters (non-negative).
-/
namespace PyresampleModel.C08


/-! ### ll2cr -/

/-- **ll2cr is the area's own mapping**: for every area (either orientation of either axis) and every projected point, the
column / row handed to fornav is the fractional array coordinate the area itself assigns to that point -/
theorem ll2cr_eq_area (a : AreaQ) (x y : Rat) :
    ll2crPoint (ll2crParams a) (some (x, y)) = some (areaCol a x, areaRow a y) := by
  simp only [ll2crPoint, ll2crParams, areaCol, areaRow, Option.map_some]
  congr 2
  congr 1; ring

/-- points whose projection failed stay fill -/
theorem ll2cr_fill (p : Rat × Rat × Rat × Rat) : ll2crPoint p none = none := rfl

/-- pixel centres of the area map to their integer indices -/
theorem ll2cr_centres (a : AreaQ) (hw : a.psx ≠ 0) (hh : a.psy ≠ 0) (i j : Int) :
    ll2crPoint (ll2crParams a) (some (a.x0 + a.psx / 2 + j * a.psx, a.y1 - a.psy / 2 - i * a.psy)) = some ((j : Rat), (i : Rat)) := by
  simp only [ll2crPoint, ll2crParams, Option.map_some, Option.some.injEq, Prod.mk.injEq]
  constructor <;> field_simp <;> ring

/-- the count is the number of non-fill points within one cell of the grid -/
theorem countIn_spec (w h : Nat) (pts : List (Option (Rat × Rat))) :
    countIn w h pts = (pts.filterMap id |>.filter (inGrid w h)).length := by
  induction pts with
  | nil => rfl
  | cons p ps ih =>
    simp only [countIn] at ih ⊢
    cases p with
    | none => simpa [List.filter_cons] using ih
    | some cr =>
      simp only [List.filter_cons, List.filterMap_cons, id]
      by_cases hin : inGrid w h cr <;> simp [hin, ih]

/-! ### accumulation -/

theorem accAvg_inv (lo hi : Rat) (cs : List Contrib) (s : Rat × Rat)
    (hw : ∀ c ∈ cs, 0 ≤ c.1) (hv : ∀ c ∈ cs, ∀ v, c.2 = some v → lo ≤ v ∧ v ≤ hi)
    (h0 : 0 ≤ s.1 ∧ lo * s.1 ≤ s.2 ∧ s.2 ≤ hi * s.1) :
    0 ≤ (cs.foldl stepAvg s).1 ∧ lo * (cs.foldl stepAvg s).1 ≤ (cs.foldl stepAvg s).2 ∧
      (cs.foldl stepAvg s).2 ≤ hi * (cs.foldl stepAvg s).1 := by
  induction cs generalizing s with
  | nil => simpa using h0
  | cons c cs ih =>
    simp only [List.foldl_cons]
    apply ih _ (fun c' hc' => hw c' (List.mem_cons_of_mem _ hc')) (fun c' hc' => hv c' (List.mem_cons_of_mem _ hc'))
    have hc0 := hw c (List.mem_cons_self)
    cases hcv : c.2 with
    | none => simp only [stepAvg, hcv]; exact h0
    | some v =>
      obtain ⟨hl, hh⟩ := hv c (List.mem_cons_self) v hcv
      simp only [stepAvg, hcv]
      refine ⟨by linarith, ?_, ?_⟩
      · nlinarith [mul_le_mul_of_nonneg_right hl hc0]
      · nlinarith [mul_le_mul_of_nonneg_right hh hc0]

/-- **no invented values (average mode)**: with non-negative weights, every written value lies within the range of the valid
contributions -/
theorem avg_range (lo hi : Rat) (cs : List Contrib) (sumMin : Rat) (out : Rat)
    (hw : ∀ c ∈ cs, 0 ≤ c.1) (hv : ∀ c ∈ cs, ∀ v, c.2 = some v → lo ≤ v ∧ v ≤ hi)
    (h : writeCell false sumMin (accAvg cs) = some out) : lo ≤ out ∧ out ≤ hi := by
  obtain ⟨h0, h1, h2⟩ := accAvg_inv lo hi cs (0, 0) hw hv (by simp)
  have hsm : 0 < (if sumMin ≤ 0 then EPS else sumMin) := by
    split
    · simp [EPS]
    · linarith
  simp only [writeCell, Bool.false_eq_true, if_false] at h
  by_cases hlt : (accAvg cs).1 < (if sumMin ≤ 0 then EPS else sumMin)
  · rw [if_pos hlt] at h; simp at h
  · rw [if_neg hlt] at h
    simp only [Option.some.injEq] at h
    have hpos : 0 < (accAvg cs).1 := by linarith [not_lt.mp hlt]
    unfold accAvg at hpos
    subst h
    unfold accAvg
    constructor
    · rw [le_div_iff₀ hpos]; linarith
    · rw [div_le_iff₀ hpos]; linarith

/-- a constant field stays constant -/
theorem avg_const (k : Rat) (cs : List Contrib) (sumMin : Rat) (out : Rat)
    (hw : ∀ c ∈ cs, 0 ≤ c.1) (hv : ∀ c ∈ cs, ∀ v, c.2 = some v → v = k)
    (h : writeCell false sumMin (accAvg cs) = some out) : out = k := by
  have := avg_range k k cs sumMin out hw (fun c hc v hcv => by rw [hv c hc v hcv]; exact ⟨le_refl _, le_refl _⟩) h
  linarith [this.1, this.2]

theorem accMax_inv (cs : List Contrib) (s : Rat × Rat) (P : Rat × Rat → Prop)
    (hs : P s) (hstep : ∀ c ∈ cs, ∀ v, c.2 = some v → P (c.1, v)) : P (cs.foldl stepMax s) := by
  induction cs generalizing s with
  | nil => simpa using hs
  | cons c cs ih =>
    simp only [List.foldl_cons]
    apply ih _ _ (fun c' hc' => hstep c' (List.mem_cons_of_mem _ hc'))
    cases hcv : c.2 with
    | none => simpa [stepMax, hcv] using hs
    | some v =>
      simp only [stepMax, hcv]
      split
      · exact hstep c (List.mem_cons_self) v hcv
      · exact hs

/-- **maximum-weight mode writes one of the input values**: the stored pair is (0, 0) (nothing valid) or (weight, value) of one
valid contribution -/
theorem max_member (cs : List Contrib) :
    accMax cs = (0, 0) ∨ ∃ c ∈ cs, ∃ v, c.2 = some v ∧ accMax cs = (c.1, v) := by
  unfold accMax
  induction cs using List.reverseRecOn with
  | nil => left; rfl
  | append_singleton cs c ih =>
    rw [List.foldl_append]
    simp only [List.foldl_cons, List.foldl_nil]
    cases hcv : c.2 with
    | none =>
      simp only [stepMax, hcv]
      rcases ih with h | ⟨c', hc', v, hv, he⟩
      · left; exact h
      · right; exact ⟨c', List.mem_append_left _ hc', v, hv, he⟩
    | some v =>
      simp only [stepMax, hcv]
      split
      · right; exact ⟨c, by simp, v, hcv, rfl⟩
      · rcases ih with h | ⟨c', hc', v', hv', he⟩
        · left; exact h
        · right; exact ⟨c', List.mem_append_left _ hc', v', hv', he⟩

theorem max_written_is_input (cs : List Contrib) (sumMin out : Rat) (h : writeCell true sumMin (accMax cs) = some out) :
    ∃ c ∈ cs, c.2 = some out := by
  have hsm : 0 < (if sumMin ≤ 0 then EPS else sumMin) := by
    split
    · simp [EPS]
    · linarith
  simp only [writeCell, if_true] at h
  by_cases hlt : (accMax cs).1 < (if sumMin ≤ 0 then EPS else sumMin)
  · rw [if_pos hlt] at h; simp at h
  · rw [if_neg hlt] at h
    simp only [Option.some.injEq] at h
    rcases max_member cs with h0 | ⟨c, hc, v, hv, he⟩
    · exfalso
      rw [h0] at hlt
      exact hlt hsm
    · rw [he] at h
      simp only at h
      subst h
      exact ⟨c, hc, hv⟩

/-! ### chunking is invisible -/

theorem foldl_stepAvg_add (cs : List Contrib) (s : Rat × Rat) :
    cs.foldl stepAvg s = (s.1 + (cs.foldl stepAvg (0, 0)).1, s.2 + (cs.foldl stepAvg (0, 0)).2) := by
  induction cs generalizing s with
  | nil => simp
  | cons c cs ih =>
    simp only [List.foldl_cons]
    rw [ih (stepAvg s c), ih (stepAvg (0, 0) c)]
    cases hcv : c.2 with
    | none => simp [stepAvg, hcv]
    | some v => simp only [stepAvg, hcv, Prod.mk.injEq]; constructor <;> ring

/-- **average mode**: summing the per-chunk (weights, accums) of any split of the contributions, in order, is the one-shot result -/
theorem combineAvg_eq_oneshot (chunks : List (List Contrib)) :
    combineAvg (chunks.map accAvg) = accAvg chunks.flatten := by
  unfold combineAvg accAvg
  induction chunks using List.reverseRecOn with
  | nil => rfl
  | append_singleton cs c ih =>
    rw [List.map_append, List.foldl_append, List.flatten_append, List.foldl_append, ih]
    simp only [List.map_cons, List.map_nil, List.foldl_cons, List.foldl_nil, List.flatten_cons, List.flatten_nil, List.append_nil]
    rw [foldl_stepAvg_add c (List.foldl stepAvg (0, 0) cs.flatten)]

theorem stepMax_mono (cs : List Contrib) (s : Rat × Rat) : s.1 ≤ (cs.foldl stepMax s).1 := by
  induction cs generalizing s with
  | nil => simp
  | cons c cs ih =>
    simp only [List.foldl_cons]
    refine le_trans ?_ (ih _)
    cases hcv : c.2 with
    | none => simp [stepMax, hcv]
    | some v =>
      simp only [stepMax, hcv]
      split <;> simp
      linarith

/-- continuing a maximum-weight scan from a state `s` = taking the scan of the rest from scratch if it reaches a strictly larger
weight, else keeping `s` (first-wins on ties) -/
theorem foldl_stepMax_from (cs : List Contrib) (s : Rat × Rat) (hs : 0 ≤ s.1) :
    cs.foldl stepMax s = if (cs.foldl stepMax (0, 0)).1 > s.1 then cs.foldl stepMax (0, 0) else s := by
  induction cs generalizing s with
  | nil => simp; intro h; linarith
  | cons c cs ih =>
    simp only [List.foldl_cons]
    cases hcv : c.2 with
    | none => simp only [stepMax, hcv]; exact ih s hs
    | some v =>
      simp only [stepMax, hcv]
      by_cases hgt : c.1 > s.1
      · have hc0 : c.1 > 0 := by linarith
        simp only [hgt, if_true, hc0]
        have hm := stepMax_mono cs (c.1, v)
        simp only at hm
        rw [if_pos (by linarith)]
      · simp only [hgt, if_false]
        rw [ih s hs]
        by_cases hc0 : c.1 > 0
        · simp only [hc0, if_true]
          rw [ih (c.1, v) (by simp; linarith)]
          simp only
          by_cases hM : (cs.foldl stepMax (0, 0)).1 > s.1
          · have : (cs.foldl stepMax (0, 0)).1 > c.1 := by linarith [not_lt.mp hgt]
            simp [hM, this]
          · simp only [hM, if_false]
            by_cases hMc : (cs.foldl stepMax (0, 0)).1 > c.1
            · simp [hMc, hM]
            · simp only [hMc, if_false]
              rw [if_neg hgt]
        · simp only [hc0, if_false]

/-- **maximum-weight mode**: taking, over the chunks in order, the first chunk result with the largest weight is the one-shot scan -/
theorem combineMax_eq_oneshot (chunks : List (List Contrib)) :
    combineMax (chunks.map accMax) = accMax chunks.flatten := by
  unfold combineMax accMax
  induction chunks using List.reverseRecOn with
  | nil => rfl
  | append_singleton cs c ih =>
    rw [List.map_append, List.foldl_append, List.flatten_append, List.foldl_append, ih]
    simp only [List.map_cons, List.map_nil, List.foldl_cons, List.foldl_nil, List.flatten_cons, List.flatten_nil, List.append_nil]
    have h0 : 0 ≤ (cs.flatten.foldl stepMax (0, 0)).1 := stepMax_mono cs.flatten (0, 0)
    rw [foldl_stepMax_from c _ h0]



theorem trunc_le_iff (a : Rat) (c : Int) (hc : 0 ≤ c) : pyTrunc a ≤ c ↔ a < (c : Rat) + 1 := by
  by_cases ha : 0 ≤ a
  · rw [pyTrunc_of_nonneg ha]
    constructor
    · intro h
      have := lt_pyFloor_add_one a
      have h' : ((pyFloor a : Int) : Rat) ≤ (c : Rat) := by exact_mod_cast h
      linarith
    · intro h
      have := pyFloor_le a
      have : ((pyFloor a : Int) : Rat) < (c : Rat) + 1 := by linarith
      have : pyFloor a < c + 1 := by exact_mod_cast this
      omega
  · have ha' : a < 0 := not_le.mp ha
    rw [pyTrunc_of_neg ha']
    have h1 := pyCeil_lt_add_one a
    have : ((pyCeil a : Int) : Rat) < 1 := by linarith
    have : pyCeil a < 1 := by exact_mod_cast this
    have hcq : (0 : Rat) ≤ (c : Rat) := by exact_mod_cast hc
    constructor
    · intro _; linarith
    · intro _; omega

theorem le_trunc_iff (b : Rat) (hb : 0 ≤ b) (c : Int) : c ≤ pyTrunc b ↔ (c : Rat) ≤ b := by
  rw [pyTrunc_of_nonneg hb]
  constructor
  · intro h
    have := pyFloor_le b
    have h' : (c : Rat) ≤ ((pyFloor b : Int) : Rat) := by exact_mod_cast h
    linarith
  · intro h
    have := lt_pyFloor_add_one b
    have : (c : Rat) < ((pyFloor b : Int) : Rat) + 1 := by linarith
    have : c < pyFloor b + 1 := by exact_mod_cast this
    omega

/-- which cells of an axis a pixel touches, without the truncation / clipping detail: cell `c` of the grid is touched iff the
pixel is not skipped and `c` lies in `(u0 - del - 1, u0 + del]` -/
theorem touches_iff (u0 del : Rat) (n : Nat) (c : Int) (hc : 0 ≤ c ∧ c < n) :
    touches u0 del n c = true ↔ (¬ u0 < -del) ∧ u0 - del < (c : Rat) + 1 ∧ (c : Rat) ≤ u0 + del := by
  unfold touches axisCells
  by_cases hskip : u0 < -del
  · simp [hskip]
  · simp only [hskip, if_false, not_false_eq_true, true_and]
    have hb : 0 ≤ u0 + del := by linarith [not_lt.mp hskip]
    have h1 := trunc_le_iff (u0 - del) c hc.1
    have h2 := le_trunc_iff (u0 + del) hb c
    generalize hI1 : (if pyTrunc (u0 - del) < 0 then (0 : Int) else pyTrunc (u0 - del)) = I1
    generalize hI2 : (if pyTrunc (u0 + del) ≥ (n : Int) then (n : Int) - 1 else pyTrunc (u0 + del)) = I2
    have k1 : I1 ≤ c ↔ pyTrunc (u0 - del) ≤ c := by
      rw [← hI1]; split <;> omega
    have k2 : c ≤ I2 ↔ c ≤ pyTrunc (u0 + del) := by
      rw [← hI2]; split <;> omega
    by_cases hcond : I1 < (n : Int) ∧ I2 ≥ 0 ∧ I1 ≤ I2
    · rw [if_pos hcond]
      simp only [Bool.and_eq_true, decide_eq_true_eq]
      rw [k1, k2, h1, h2]
    · rw [if_neg hcond]
      simp only [Bool.false_eq_true, false_iff, not_and]
      intro ha hbb
      apply hcond
      have e1 := k1.mpr (h1.mpr ha)
      have e2 := k2.mpr (h2.mpr hbb)
      omega

/-- **output chunking does not change the footprint**: resampling into the sub-grid `[off, off + n)` of a grid of `nfull` cells
with the pixel position shifted by `off` (what `_delayed_fornav` does) touches cell `c` of the sub-grid iff the one-shot run
touches cell `c + off` of the full grid -/
theorem axis_subgrid (u0 del : Rat) (off n nfull : Nat) (hfit : off + n ≤ nfull) (c : Int) (hc : 0 ≤ c ∧ c < n) :
    touches (u0 - off) del n c = touches u0 del nfull (c + off) := by
  have hc' : 0 ≤ c + (off : Int) ∧ c + (off : Int) < (nfull : Int) := by omega
  have h1 := touches_iff (u0 - off) del n c hc
  have h2 := touches_iff u0 del nfull (c + off) hc'
  rw [Bool.eq_iff_iff, h1, h2]
  have hoff : (0 : Rat) ≤ (off : Rat) := by exact_mod_cast Nat.zero_le off
  have hcq : (0 : Rat) ≤ (c : Rat) := by exact_mod_cast hc.1
  push_cast
  constructor
  · rintro ⟨_, a, b⟩
    refine ⟨by intro h; linarith, by linarith, by linarith⟩
  · rintro ⟨_, a, b⟩
    refine ⟨by intro h; linarith, by linarith, by linarith⟩


/-! ### non-vacuity -/

example : writeCell false (1/100) (accAvg [(1/2, some 4), (1/4, none), (1/4, some 8)]) = some (16/3) := by decide +kernel
example : writeCell true (1/100) (accMax [(1/2, some 4), (3/4, none), (1/2, some 8), (5/8, some 6)]) = some 6 := by decide +kernel
example : combineMax ([[(1/2, some 4)], [(1/2, some 8), (1/4, some 1)]].map accMax) = (1/2, 4) := by decide +kernel
example : axisCells (7/2) (3/2) 4 = some (2, 3) := by decide +kernel
example : axisCells (-2) (3/2) 4 = none := by decide +kernel
/-- a flipped area (y grows downwards in the array): ll2cr still agrees with the area -/
example : ll2crPoint (ll2crParams ⟨0, 40, 40, 0, 4, 4⟩) (some (15, 25)) = some (1, 2) := by decide +kernel

end PyresampleModel.C08
