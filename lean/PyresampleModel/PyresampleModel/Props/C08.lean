import PyresampleModel.Model.C08

/-
  C08 — property theorems (stub: none yet).
-/
namespace PyresampleModel.C08

end PyresampleModel.C08
