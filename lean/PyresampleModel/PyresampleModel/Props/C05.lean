import PyresampleModel.Model.C05
import PyresampleModel.Proofs.Compact

/-
  C05 — property theorems for the dask/xarray nearest-neighbour path.
-/
namespace PyresampleModel.C05
open PyresampleModel.C02

theorem scatter_append {α} (fill : α) : ∀ (f1 f2 : List Bool) (v1 v2 : List α), v1.length = f1.count true →
    scatter fill (f1 ++ f2) (v1 ++ v2) = scatter fill f1 v1 ++ scatter fill f2 v2 := by
  intro f1
  induction f1 with
  | nil => intro f2 v1 v2 h; simp at h; subst h; simp [scatter]
  | cons f fs ih =>
    intro f2 v1 v2 h
    cases f with
    | false =>
      simp only [List.cons_append, scatter]
      rw [ih f2 v1 v2 (by simpa [List.count_cons] using h)]
    | true =>
      cases v1 with
      | nil => simp at h
      | cons v vs =>
        simp only [List.cons_append, scatter]
        rw [ih f2 vs v2 (by simp at h; omega)]

/-- **the target chunking is invisible**: expanding the query results block by block, for any
partition of the target into blocks, gives the expansion of the whole target -/
theorem blockwise_invisible (n : Nat) : ∀ (blocks : List (List Bool × List Nat)),
    (∀ b ∈ blocks, b.2.length = b.1.count true) →
    expandBlocks n blocks = expandIdx n (blocks.flatMap (·.1)) (blocks.flatMap (·.2)) := by
  intro blocks
  induction blocks with
  | nil => intro _; simp [expandBlocks, expandIdx, scatter]
  | cons b bs ih =>
    intro h
    have hb := h b List.mem_cons_self
    have := ih (fun c hc => h c (List.mem_cons_of_mem _ hc))
    simp only [expandBlocks, List.flatMap_cons] at this ⊢
    rw [this]
    simp only [expandIdx, List.map_append]
    rw [scatter_append _ _ _ _ _ (by simpa using hb)]

theorem aux_scatter_map {α β} (f : α → β) (fill : α) : ∀ (fs : List Bool) (vs : List α),
    (scatter fill fs vs).map f = scatter (f fill) fs (vs.map f) := by
  intro fs
  induction fs with
  | nil => intro vs; simp [scatter]
  | cons b bs ih =>
    intro vs
    cases b
    · simp [scatter, ih]
    · cases vs <;> simp [scatter, ih]

/-- **the xarray path equals the numpy reference**: gathering through the re-expanded index array
gives exactly what the numpy pipeline of C02 gives for the same query answers (every answer being
either a position in the compacted valid sources or the sentinel `n_valid`) — hence, by
`C02.nn_pipeline_correct`, the truly nearest valid source or fill -/
theorem xarray_eq_numpy {α} (vii : List Bool) (data : List α) (voi : List Bool) (q : List Nat) (fill : α)
    (hq : ∀ i ∈ q, i ≤ vii.count true) :
    myIndex (expandIdx (vii.count true) voi q) vii data fill = pipelineNN vii data voi q fill := by
  simp only [myIndex, expandIdx, pipelineNN, gatherNN]
  rw [aux_scatter_map]
  simp only [List.map_map]
  congr 1
  apply List.map_congr_left
  intro i hi
  have := hq i hi
  simp only [Function.comp]
  by_cases h : i < vii.count true
  · have hne : i ≠ vii.count true := by omega
    simp [h, hne]
  · have : i = vii.count true := by omega
    simp [this]

/-- **non-geographic dimensions are pointwise**: the result for one extra-dimension slice depends
on that slice of the data only -/
theorem extra_dims_pointwise {α} (ia : List Int) (vii : List Bool) (slices : List (List α)) (fill : α) (k : Nat) :
    (myIndexND ia vii slices fill)[k]? = (slices[k]?).map (fun d => myIndex ia vii d fill) := by
  simp [myIndexND]

example : myIndex (expandBlocks 2 [([true, false], [1]), ([true], [2])]) [true, false, true] [10, 20, 30] (-7) = [30, -7, -7] := by
  decide

end PyresampleModel.C05
