import PyresampleModel.Model.C05

/-
  C05 — property theorems (stub: none yet).
-/
namespace PyresampleModel.C05

end PyresampleModel.C05
