import PyresampleModel.Model.C16

/-
  C16 — property theorems on the combinatorics of the boundary ring.
-/
namespace PyresampleModel.C16

/-- a good side selection: strictly increasing pixel indices from 0 to n-1 -/
structure Good (n : Nat) (sel : List Nat) : Prop where
  first : sel.head? = some 0
  last  : sel.getLast? = some (n - 1)
  inc   : sel.Pairwise (· < ·)

theorem aux_chain_pairwise : ∀ (l : List Nat), (l.zip l.tail).all (fun p => decide (p.1 < p.2)) = true → l.Pairwise (· < ·) := by
  intro l
  induction l with
  | nil => intro _; exact List.Pairwise.nil
  | cons a as ih =>
    intro h
    cases as with
    | nil => exact List.pairwise_singleton _ _
    | cons b bs =>
      simp only [List.tail_cons, List.zip_cons_cons, List.all_cons, Bool.and_eq_true, decide_eq_true_eq] at h
      have hb := ih (by simpa using h.2)
      refine List.Pairwise.cons ?_ hb
      intro x hx
      rcases List.mem_cons.mp hx with rfl | hx
      · exact h.1
      · have := (List.pairwise_cons.mp hb).1 x hx
        omega

/-- the executable check used on the real selections implies the specification -/
theorem goodAsc_sound (n : Nat) (sel : List Nat) (h : goodAsc n sel = true) : Good n sel := by
  simp only [goodAsc, Bool.and_eq_true, beq_iff_eq] at h
  exact ⟨h.1.1, h.1.2, aux_chain_pairwise sel h.2⟩

theorem aux_good_bounds {n : Nat} {sel : List Nat} (g : Good n sel) : ∀ x ∈ sel, x ≤ n - 1 := by
  intro x hx
  obtain ⟨l, hl⟩ : ∃ l, sel.getLast? = some l := ⟨_, g.last⟩
  have hlast := g.last
  -- every element is ≤ the last one in a strictly increasing list
  have : ∀ (s : List Nat), s.Pairwise (· < ·) → ∀ m, s.getLast? = some m → ∀ y ∈ s, y ≤ m := by
    intro s
    induction s with
    | nil => intro _ m _ y hy; simp at hy
    | cons a as ih =>
      intro hp m hm y hy
      cases as with
      | nil => simp at hm hy; omega
      | cons b bs =>
        have hm' : (b :: bs).getLast? = some m := by simpa [List.getLast?_cons_cons] using hm
        rcases List.mem_cons.mp hy with rfl | hy
        · have h1 := (List.pairwise_cons.mp hp).1 b List.mem_cons_self
          have h2 := ih (List.pairwise_cons.mp hp).2 m hm' b List.mem_cons_self
          omega
        · exact ih (List.pairwise_cons.mp hp).2 m hm' y hy
  exact this sel g.inc _ hlast x hx

/-- **every boundary vertex is one of the geometry's own edge pixels** -/
theorem vertices_are_edge_pixels (H W : Nat) (selT selR selB selL : List Nat)
    (gT : Good W selT) (gR : Good H selR) (gB : Good W selB.reverse) (gL : Good H selL.reverse)
    (hH : 1 ≤ H) (hW : 1 ≤ W) :
    ∀ s ∈ sides H W selT selR selB selL, ∀ p ∈ s,
      p.1 < H ∧ p.2 < W ∧ (p.1 = 0 ∨ p.1 = H - 1 ∨ p.2 = 0 ∨ p.2 = W - 1) := by
  intro s hs p hp
  simp only [sides, List.mem_cons, List.not_mem_nil, or_false] at hs
  rcases hs with rfl | rfl | rfl | rfl
  · obtain ⟨c, hc, rfl⟩ := List.mem_map.mp hp
    have := aux_good_bounds gT c hc
    exact ⟨by omega, by omega, Or.inl rfl⟩
  · obtain ⟨r, hr, rfl⟩ := List.mem_map.mp hp
    have := aux_good_bounds gR r hr
    exact ⟨by omega, by omega, Or.inr (Or.inr (Or.inr rfl))⟩
  · obtain ⟨c, hc, rfl⟩ := List.mem_map.mp hp
    have := aux_good_bounds gB c (List.mem_reverse.mpr hc)
    exact ⟨by omega, by omega, Or.inr (Or.inl rfl)⟩
  · obtain ⟨r, hr, rfl⟩ := List.mem_map.mp hp
    have := aux_good_bounds gL r (List.mem_reverse.mpr hr)
    exact ⟨by omega, by omega, Or.inr (Or.inr (Or.inl rfl))⟩

theorem aux_rev_head {sel : List Nat} {n : Nat} (g : Good n sel.reverse) :
    sel.head? = some (n - 1) ∧ sel.getLast? = some 0 := by
  have h1 := g.first
  have h2 := g.last
  rw [List.head?_reverse] at h1
  rw [List.getLast?_reverse] at h2
  exact ⟨h2, h1⟩

/-- **each side ends where the next begins, and the ring is closed** -/
theorem sides_chain (H W : Nat) (selT selR selB selL : List Nat)
    (gT : Good W selT) (gR : Good H selR) (gB : Good W selB.reverse) (gL : Good H selL.reverse) :
    let ss := sides H W selT selR selB selL
    (ss[0]!.getLast? = ss[1]!.head? ∧ ss[1]!.getLast? = ss[2]!.head? ∧
     ss[2]!.getLast? = ss[3]!.head? ∧ ss[3]!.getLast? = ss[0]!.head?) ∧
    ss[0]!.head? = some (0, 0) := by
  obtain ⟨hB1, hB2⟩ := aux_rev_head gB
  obtain ⟨hL1, hL2⟩ := aux_rev_head gL
  simp only [sides, List.getElem!_cons_zero, List.getElem!_cons_succ, List.getLast?_map, List.head?_map,
    gT.first, gT.last, gR.first, gR.last, hB1, hB2, hL1, hL2, Option.map_some, and_self]


theorem aux_asc_nodup {l : List Nat} (h : l.Pairwise (· < ·)) : l.Nodup :=
  h.imp (fun hlt => Nat.ne_of_lt hlt)

theorem aux_asc_dropLast_lt : ∀ (l : List Nat) (m : Nat), l.Pairwise (· < ·) → l.getLast? = some m →
    ∀ x ∈ l.dropLast, x < m := by
  intro l
  induction l with
  | nil => intro m _ _ x hx; simp at hx
  | cons a as ih =>
    intro m hp hm x hx
    cases as with
    | nil => simp at hx
    | cons b bs =>
      have hm' : (b :: bs).getLast? = some m := by simpa [List.getLast?_cons_cons] using hm
      simp only [List.dropLast_cons_cons, List.mem_cons] at hx
      rcases hx with rfl | hx
      · have hmm : m ∈ (b :: bs) := List.mem_of_getLast? hm'
        exact (List.pairwise_cons.mp hp).1 m hmm
      · exact ih m (List.pairwise_cons.mp hp).2 hm' x hx

theorem aux_tail_pos : ∀ (l : List Nat), l.Pairwise (· < ·) → l.head? = some 0 → ∀ x ∈ l.tail, 0 < x := by
  intro l hp hh x hx
  cases l with
  | nil => simp at hx
  | cons a as =>
    simp at hh; subst hh
    exact (List.pairwise_cons.mp hp).1 x hx

theorem aux_desc_dropLast_pos {n : Nat} {sel : List Nat} (g : Good n sel.reverse) : ∀ x ∈ sel.dropLast, 0 < x := by
  intro x hx
  have : sel.dropLast = (sel.reverse.tail).reverse := by
    rw [List.tail_reverse, List.reverse_reverse]
  rw [this] at hx
  exact aux_tail_pos _ g.inc g.first x (List.mem_reverse.mp hx)

theorem aux_desc_nodup {n : Nat} {sel : List Nat} (g : Good n sel.reverse) : sel.Nodup := by
  have := aux_asc_nodup g.inc
  exact (List.pairwise_reverse.mp this).imp (fun h => Ne.symm h)

theorem aux_dropLast_map {α β} (f : α → β) (l : List α) : (l.map f).dropLast = l.dropLast.map f := by
  induction l with
  | nil => rfl
  | cons a as ih =>
    cases as with
    | nil => rfl
    | cons b bs => simp only [List.map_cons, List.dropLast_cons_cons] at ih ⊢; rw [ih]

/-- **no vertex is repeated within the ring** (at least 2 rows and 2 columns, good selections on
all four sides — which is what numpy delivers whenever the requested count does not exceed the side) -/
theorem contour_no_repeat (H W : Nat) (selT selR selB selL : List Nat)
    (gT : Good W selT) (gR : Good H selR) (gB : Good W selB.reverse) (gL : Good H selL.reverse)
    (hH : 2 ≤ H) (hW : 2 ≤ W) :
    (contour (sides H W selT selR selB selL)).Nodup := by
  simp only [contour, sides, List.flatMap_cons, List.flatMap_nil, List.append_nil, aux_dropLast_map]
  have nT : (selT.dropLast.map (fun c => ((0 : Nat), c))).Nodup :=
    List.Pairwise.map _ (fun a b (h : a ≠ b) => by simpa using h) ((aux_asc_nodup gT.inc).sublist (List.dropLast_sublist _))
  have nR : (selR.dropLast.map (fun r => (r, W - 1))).Nodup :=
    List.Pairwise.map _ (fun a b (h : a ≠ b) => by simpa using h) ((aux_asc_nodup gR.inc).sublist (List.dropLast_sublist _))
  have nB : (selB.dropLast.map (fun c => (H - 1, c))).Nodup :=
    List.Pairwise.map _ (fun a b (h : a ≠ b) => by simpa using h) ((aux_desc_nodup gB).sublist (List.dropLast_sublist _))
  have nL : (selL.dropLast.map (fun r => (r, (0 : Nat)))).Nodup :=
    List.Pairwise.map _ (fun a b (h : a ≠ b) => by simpa using h) ((aux_desc_nodup gL).sublist (List.dropLast_sublist _))
  have bT := aux_asc_dropLast_lt selT (W - 1) gT.inc gT.last
  have bR := aux_asc_dropLast_lt selR (H - 1) gR.inc gR.last
  have bB := aux_desc_dropLast_pos gB
  have bL := aux_desc_dropLast_pos gL
  rw [List.nodup_append]
  refine ⟨nT, ?_, ?_⟩
  · rw [List.nodup_append]
    refine ⟨nR, ?_, ?_⟩
    · rw [List.nodup_append]
      refine ⟨nB, nL, ?_⟩
      intro p hp q hq hpq
      obtain ⟨c, hc, rfl⟩ := List.mem_map.mp hp
      obtain ⟨r, hr, rfl⟩ := List.mem_map.mp hq
      simp only [Prod.mk.injEq] at hpq
      have := bB c hc; omega
    · intro p hp q hq hpq
      obtain ⟨r, hr, rfl⟩ := List.mem_map.mp hp
      have := bR r hr
      rcases List.mem_append.mp hq with hq | hq
      · obtain ⟨c, hc, rfl⟩ := List.mem_map.mp hq
        simp only [Prod.mk.injEq] at hpq; omega
      · obtain ⟨r', hr', rfl⟩ := List.mem_map.mp hq
        simp only [Prod.mk.injEq] at hpq; omega
  · intro p hp q hq hpq
    obtain ⟨c, hc, rfl⟩ := List.mem_map.mp hp
    have := bT c hc
    rcases List.mem_append.mp hq with hq | hq
    · obtain ⟨r, hr, rfl⟩ := List.mem_map.mp hq
      simp only [Prod.mk.injEq] at hpq; omega
    · rcases List.mem_append.mp hq with hq | hq
      · obtain ⟨c', hc', rfl⟩ := List.mem_map.mp hq
        simp only [Prod.mk.injEq] at hpq; omega
      · obtain ⟨r, hr, rfl⟩ := List.mem_map.mp hq
        have := bL r hr
        simp only [Prod.mk.injEq] at hpq; omega

/-- **reversal**: `_reverse_boundaries` turns the four sides into the sides of the same ring walked
the other way round: the concatenated ring of the reversed sides is the reverse of the ring -/
theorem reverse_ring (ss : List (List Px)) : (reverseSides ss).flatten = ss.flatten.reverse := by
  simp only [reverseSides]
  induction ss with
  | nil => rfl
  | cons s rest ih =>
    simp only [List.map_cons, List.reverse_cons, List.flatten_append, List.flatten_cons, List.flatten_nil,
      List.append_nil, List.reverse_append, ih]

/-- reversing twice gives the sides back -/
theorem reverse_involutive (ss : List (List Px)) : reverseSides (reverseSides ss) = ss := by
  simp only [reverseSides, List.map_reverse, List.reverse_reverse, List.map_map]
  have : (List.reverse ∘ List.reverse : List Px → List Px) = id := by funext l; simp
  rw [this, List.map_id]

/-- without a vertex limit (all pixels of each side) the selections are good: the ring is the full perimeter -/
theorem full_side_good (n : Nat) (hn : 1 ≤ n) : Good n (List.range n) := by
  refine ⟨?_, ?_, ?_⟩
  · cases n with
    | zero => omega
    | succ m => simp [List.range_succ_eq_map]
  · cases n with
    | zero => omega
    | succ m => simp [List.range_succ]
  · exact List.pairwise_lt_range

example : Good 4 [0, 1, 3] := goodAsc_sound 4 [0, 1, 3] (by decide)
example : (contour (sides 3 4 [0, 1, 3] [0, 2] [3, 2, 0] [2, 0])).Nodup := by decide


/-! ### geostationary areas: splitting the vertices of (extent ∩ disk polygon) into four sides -/

theorem aux_dropLast_take {α} (x : List α) (k : Nat) (h : k + 1 ≤ x.length) : (x.take (k + 1)).dropLast = x.take k := by
  rw [List.dropLast_eq_take, List.length_take, List.take_take]
  congr 1; omega

theorem aux_split_last' {α} (x : List α) (a : α) (h : x.getLast? = some a) : x.dropLast ++ [a] = x := by
  have hne : x ≠ [] := by intro e; simp [e] at h
  have := List.dropLast_concat_getLast hne
  rw [List.getLast?_eq_some_getLast hne] at h
  injection h with h
  rw [← h]; exact this

theorem geos_contour {α} (x : List α) (h : 4 ≤ x.length) : contourOf (geosSides x) = x := by
  have hne : x ≠ [] := by intro e; simp [e] at h
  obtain ⟨a, ha⟩ : ∃ a, x.getLast? = some a := ⟨x.getLast hne, List.getLast?_eq_some_getLast hne⟩
  obtain ⟨b, hb⟩ : ∃ b, x.head? = some b := by
    cases x with
    | nil => exact absurd rfl hne
    | cons b t => exact ⟨b, rfl⟩
  unfold contourOf geosSides
  simp only [List.flatMap_cons, List.flatMap_nil, List.append_nil, ha, hb, Option.toList_some]
  generalize hs : x.length / 2 - 1 = s
  have h1 : s + 2 ≤ x.length := by omega
  rw [aux_dropLast_take x s (by omega)]
  have e2 : ((x.drop s).take 2).dropLast = (x.drop s).take 1 := by
    have := aux_dropLast_take (x.drop s) 1 (by simp; omega)
    simpa using this
  rw [e2]
  have e3 : (x.drop (s + 1)).dropLast ++ [a] = x.drop (s + 1) := by
    apply aux_split_last'
    rw [List.getLast?_drop]; simp [ha]; omega
  have e4 : ([a] ++ [b] : List α).dropLast = [a] := rfl
  rw [e4]
  have e5 : (x.drop s).take 1 ++ x.drop (s + 1) = x.drop s := by
    have := List.take_append_drop 1 (x.drop s)
    rw [List.drop_drop] at this
    exact this
  calc x.take s ++ ((x.drop s).take 1 ++ ((x.drop (s + 1)).dropLast ++ [a]))
      = x.take s ++ ((x.drop s).take 1 ++ x.drop (s + 1)) := by rw [e3]
    _ = x.take s ++ x.drop s := by rw [e5]
    _ = x := List.take_append_drop s x
theorem geos_sides_chain {α} (x : List α) (h : 4 ≤ x.length) :
    let s := x.length / 2 - 1
    (x.take (s + 1)).getLast? = ((x.drop s).take 2).head? ∧
    ((x.drop s).take 2).getLast? = (x.drop (s + 1)).head? ∧
    (x.drop (s + 1)).getLast? = (x.getLast?.toList ++ x.head?.toList).head? ∧
    (x.getLast?.toList ++ x.head?.toList).getLast? = (x.take (s + 1)).head? := by
  intro s
  have hs : s + 2 ≤ x.length := by omega
  have hne : x ≠ [] := by intro e; simp [e] at h
  obtain ⟨a, ha⟩ : ∃ a, x.getLast? = some a := ⟨x.getLast hne, List.getLast?_eq_some_getLast hne⟩
  obtain ⟨b, hb⟩ : ∃ b, x.head? = some b := by
    cases x with
    | nil => exact absurd rfl hne
    | cons b t => exact ⟨b, rfl⟩
  refine ⟨?_, ?_, ?_, ?_⟩
  · rw [List.getLast?_take, List.head?_take, List.head?_drop]
    simp
    have : s < x.length := by omega
    rw [List.getElem?_eq_getElem this]; rfl
  · rw [List.getLast?_take, List.head?_drop]
    simp
    have : s + 1 < x.length := by omega
    rw [List.getElem?_eq_getElem this]; rfl
  · rw [List.getLast?_drop, ha, hb]; simp; omega
  · rw [ha, hb, List.head?_take]; simp [hb]

/-- non-vacuity / odd vertex counts: seven vertices -/
example : contourOf (geosSides [0, 1, 2, 3, 4, 5, 6]) = [0, 1, 2, 3, 4, 5, 6] := by decide
example : geosSides [0, 1, 2, 3, 4, 5, 6] = [[0, 1, 2], [2, 3], [3, 4, 5, 6], [6, 0]] := by decide

/-! ### the exact index selection -/

theorem aux_linsel_step (m d i : Nat) (hd : 0 < d) (hmd : d ≤ m) : i * m / d < (i + 1) * m / d := by
  have h1 : (i * m + d) / d = i * m / d + 1 := Nat.add_div_right _ hd
  have h2 : (i * m + d) / d ≤ ((i + 1) * m) / d := by
    apply Nat.div_le_div_right
    rw [Nat.add_mul, Nat.one_mul]; omega
  omega

theorem aux_linsel_mono (m d : Nat) (hd : 0 < d) (hmd : d ≤ m) : ∀ i j : Nat, i < j → i * m / d < j * m / d := by
  intro i j hij
  induction j with
  | zero => omega
  | succ j ih =>
    rcases Nat.lt_succ_iff_lt_or_eq.mp hij with h | h
    · exact Nat.lt_trans (ih h) (aux_linsel_step m d j hd hmd)
    · subst h; exact aux_linsel_step m d i hd hmd

/-- **the exact selection never repeats a vertex**: for `2 ≤ k ≤ n` the indices `⌊i (n−1)/(k−1)⌋`, `i = 0 … k−1`, start at 0,
end at `n − 1` and are strictly increasing -/
theorem linSel_good (n k : Nat) (hk : 2 ≤ k) (hkn : k ≤ n) : Good n (linSel n k) := by
  have hk1 : ¬ k ≤ 1 := by omega
  have hd : 0 < k - 1 := by omega
  simp only [linSel, hk1, if_false]
  refine ⟨?_, ?_, ?_⟩
  · cases k with
    | zero => omega
    | succ k' => simp [List.range_succ_eq_map]
  · cases k with
    | zero => omega
    | succ k' =>
      simp only [List.range_succ, List.map_append, List.map_cons, List.map_nil, List.getLast?_append, List.getLast?_singleton,
        Option.some_or, Nat.add_sub_cancel]
      rw [Nat.mul_div_cancel_left _ (by omega)]
  · apply List.Pairwise.map (R := (· < ·)) _ _ List.pairwise_lt_range
    intro a b hab
    exact aux_linsel_mono (n - 1) (k - 1) hd (by omega) a b hab

end PyresampleModel.C16
