import PyresampleModel.Model.C16

/-
  C16 — property theorems (stub: none yet).
-/
namespace PyresampleModel.C16

end PyresampleModel.C16
