import PyresampleModel.Props.C01
import PyresampleModel.Props.TieGrid

/-
  C01 — the property's own formula, TRANSFERRED TO THE TRANSLATED CODE: with the quantities `AreaDefinition.__init__`
  derives from extent and size (regenerated from /repo's current source), the regenerated conversion
  `get_projection_coordinates_from_array_coordinates` puts pixel (r, c) — also fractional — at
  x = xmin + (c + 1/2)·dx, y = ymax − (r + 1/2)·dy, and the two regenerated conversions are mutual inverses.
-/
namespace PyresampleModel.Tie
open PyresampleModel

theorem code_pixel_centre (g : Grid) (c r : Rat) :
    let d := Gen.area_init_derived (g.x0, g.y0, g.x1, g.y1) (g.x0, g.y0, g.x1, g.y1) g.w g.h
    Gen.proj_from_array c r d.1 d.2.1 d.2.2.1 =
      (g.x0 + (c + 1 / 2) * ((g.x1 - g.x0) / g.w), g.y1 - (r + 1 / 2) * ((g.y1 - g.y0) / g.h)) := by
  simp only [tie_area_init_derived, tie_proj_from_array]
  have := C01.proj_centre g c r
  rw [this.1, this.2]; rfl

theorem code_conversions_inverse (g : Grid) (hx : g.dx ≠ 0) (hy : g.dy ≠ 0) (c r x y : Rat) :
    let d := Gen.area_init_derived (g.x0, g.y0, g.x1, g.y1) (g.x0, g.y0, g.x1, g.y1) g.w g.h
    (let p := Gen.proj_from_array c r d.1 d.2.1 d.2.2.1; Gen.array_from_proj p.1 p.2 d.1 d.2.1 d.2.2.1) = (c, r) ∧
    (let a := Gen.array_from_proj x y d.1 d.2.1 d.2.2.1; Gen.proj_from_array a.1 a.2 d.1 d.2.1 d.2.2.1) = (x, y) := by
  simp only [tie_area_init_derived, tie_proj_from_array, tie_array_from_proj]
  obtain ⟨h1, h2, h3, h4⟩ := C01.arr_proj_inverse g hx hy c r x y
  exact ⟨by rw [h1, h3], by rw [h2, h4]⟩

end PyresampleModel.Tie
