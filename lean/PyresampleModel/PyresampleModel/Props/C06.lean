import PyresampleModel.Model.C06
import PyresampleModel.Model.Compact
import PyresampleModel.Proofs.Num
import Mathlib.Tactic.LinearCombination

/-
  C06 — property theorems: bilinear resampling interpolates. Convex weights whatever the solution path; the two quadratic
  branches return fractional distances whose bilinear map is the target location (so affine fields are reproduced exactly)
  whenever the root used is a root of the quadratic — the executable certificate `certified`; corner selection picks the
  nearest neighbour strictly inside each quadrant; the parallelogram branch is sound only without shear (F10).
  `np.sqrt` is a parameter: `r * r = discriminant` is assumed of the value it returns.
-/
namespace PyresampleModel.C06


/-! ### the weighted sum -/

/-- the four weights are non-negative and sum to one -/
theorem resample_weights (s t : Rat) (hs : 0 ≤ s ∧ s ≤ 1) (ht : 0 ≤ t ∧ t ≤ 1) :
    0 ≤ (1 - s) * (1 - t) ∧ 0 ≤ s * (1 - t) ∧ 0 ≤ (1 - s) * t ∧ 0 ≤ s * t ∧
    (1 - s) * (1 - t) + s * (1 - t) + (1 - s) * t + s * t = 1 := by
  refine ⟨mul_nonneg (by linarith) (by linarith), mul_nonneg hs.1 (by linarith),
    mul_nonneg (by linarith) ht.1, mul_nonneg hs.1 ht.1, by ring⟩

/-- a constant field is reproduced -/
theorem resample_const (v s t : Rat) : resample v v v v s t = v := by
  simp only [resample]; ring

/-- maximum principle: the value lies within the range of the four corner values -/
theorem resample_convex (v1 v2 v3 v4 s t lo hi : Rat) (hs : 0 ≤ s ∧ s ≤ 1) (ht : 0 ≤ t ∧ t ≤ 1)
    (h1 : lo ≤ v1 ∧ v1 ≤ hi) (h2 : lo ≤ v2 ∧ v2 ≤ hi) (h3 : lo ≤ v3 ∧ v3 ≤ hi) (h4 : lo ≤ v4 ∧ v4 ≤ hi) :
    lo ≤ resample v1 v2 v3 v4 s t ∧ resample v1 v2 v3 v4 s t ≤ hi := by
  obtain ⟨a1, a2, a3, a4, hsum⟩ := resample_weights s t hs ht
  have e : resample v1 v2 v3 v4 s t =
      (1 - s) * (1 - t) * v1 + s * (1 - t) * v2 + (1 - s) * t * v3 + s * t * v4 := by
    simp only [resample]; ring
  rw [e]
  constructor
  · nlinarith [mul_le_mul_of_nonneg_left h1.1 a1, mul_le_mul_of_nonneg_left h2.1 a2,
      mul_le_mul_of_nonneg_left h3.1 a3, mul_le_mul_of_nonneg_left h4.1 a4]
  · nlinarith [mul_le_mul_of_nonneg_left h1.2 a1, mul_le_mul_of_nonneg_left h2.2 a2,
      mul_le_mul_of_nonneg_left h3.2 a3, mul_le_mul_of_nonneg_left h4.2 a4]

/-- an affine function of the projection coordinates, sampled at the four corners, is reproduced at the image of
(s, t) under the bilinear map of the quadrilateral -/
theorem resample_affine (α β γ : Rat) (p1 p2 p3 p4 : Pt) (s t : Rat) :
    resample (α + β * p1.x + γ * p1.y) (α + β * p2.x + γ * p2.y) (α + β * p3.x + γ * p3.y) (α + β * p4.x + γ * p4.y) s t =
      α + β * (bilinMap p1 p2 p3 p4 s t).x + γ * (bilinMap p1 p2 p3 p4 s t).y := by
  simp only [resample, bilinMap]; ring

/-! ### helpers about the option plumbing -/

theorem keep01_some {o : Option Rat} {v : Rat} (h : keep01 o = some v) : o = some v ∧ 0 ≤ v ∧ v ≤ 1 := by
  cases o with
  | none => simp [keep01] at h
  | some w =>
    simp only [keep01] at h
    split at h
    · rename_i hin
      simp only [Option.some.injEq] at h; subst h
      simp only [in01, Bool.and_eq_true, decide_eq_true_eq] at hin
      exact ⟨rfl, hin.1, hin.2⟩
    · simp at h

theorem divQ_some {a b v : Rat} (h : divQ a b = some v) : b ≠ 0 ∧ v = a / b := by
  unfold divQ at h
  split at h
  · simp at h
  · rename_i hb; simp only [Option.some.injEq] at h; exact ⟨hb, h.symm⟩

theorem both_some {t s : Option Rat} {t' s' : Rat} (h : both t s = some (t', s')) :
    t = some t' ∧ s = some s' ∧ 0 ≤ t' ∧ t' ≤ 1 ∧ 0 ≤ s' ∧ s' ≤ 1 := by
  cases t with
  | none => simp [both] at h
  | some a =>
    cases s with
    | none => simp [both] at h
    | some b =>
      simp only [both] at h
      split at h
      · rename_i hin
        simp only [Option.some.injEq, Prod.mk.injEq] at h
        obtain ⟨rfl, rfl⟩ := h
        simp only [in01, Bool.and_eq_true, decide_eq_true_eq] at hin
        exact ⟨rfl, rfl, hin.1.1, hin.1.2, hin.2.1, hin.2.2⟩
      · simp at h

/-! ### the quadratic -/

/-- both candidates of the stable form are roots of the quadratic -/
theorem stableRoots_are_roots (a b c r : Rat) (hr : r * r = b * b - 4 * a * c) (v : Rat)
    (h : (stableRoots (a, b, c) r).1 = some v ∨ (stableRoots (a, b, c) r).2 = some v) :
    a * v * v + b * v + c = 0 := by
  have key : ∀ q : Rat, q = -(1/2 : Rat) * (b + (if b < 0 then -1 else 1) * r) → q * q + b * q + a * c = 0 := by
    intro q hq
    subst hq
    split <;> nlinarith [hr]
  have hQA : ∀ q : Rat, q * q + b * q + a * c = 0 → divQ q a = some v → a * v * v + b * v + c = 0 := by
    intro q hq hd
    obtain ⟨ha, rfl⟩ := divQ_some hd
    field_simp
    nlinarith [hq]
  have hCQ : ∀ q : Rat, q * q + b * q + a * c = 0 → divQ c q = some v → a * v * v + b * v + c = 0 := by
    intro q hq hd
    obtain ⟨hq0, rfl⟩ := divQ_some hd
    field_simp
    have : c * (a * c + b * q + q * q) = 0 := by rw [show a * c + b * q + q * q = q * q + b * q + a * c by ring, hq]; ring
    nlinarith [this]
  simp only [stableRoots] at h
  by_cases hb : b < 0
  · simp only [hb, if_true] at h
    have k := key _ rfl
    simp only [hb, if_true] at k
    rcases h with h | h
    · exact hQA _ k h
    · exact hCQ _ k h
  · simp only [hb, if_false] at h
    have k := key _ rfl
    simp only [hb, if_false] at k
    rcases h with h | h
    · exact hCQ _ k h
    · exact hQA _ k h

/-- what `_solve_quadratic` returns: inside [0, 1]; a root of the quadratic unless it is the linear fallback, which is
a root exactly when `a = 0` -/
theorem solveQuadratic_spec (a b c : Rat) (r : Option Rat) (hr : ∀ r', r = some r' → r' * r' = b * b - 4 * a * c)
    (v : Rat) (rt : Root) (h : solveQuadratic (a, b, c) r = some (v, rt)) :
    0 ≤ v ∧ v ≤ 1 ∧ ((rt ≠ .lin ∨ a = 0) → a * v * v + b * v + c = 0) := by
  simp only [solveQuadratic] at h
  split at h
  · rename_i w hk
    simp only [Option.some.injEq, Prod.mk.injEq] at h
    obtain ⟨rfl, rfl⟩ := h
    obtain ⟨he, h0, h1⟩ := keep01_some hk
    refine ⟨h0, h1, fun _ => ?_⟩
    cases r with
    | none => simp at he
    | some r' => exact stableRoots_are_roots a b c r' (hr r' rfl) _ (Or.inl he)
  · split at h
    · rename_i w hk
      simp only [Option.some.injEq, Prod.mk.injEq] at h
      obtain ⟨rfl, rfl⟩ := h
      obtain ⟨he, h0, h1⟩ := keep01_some hk
      refine ⟨h0, h1, fun _ => ?_⟩
      cases r with
      | none => simp at he
      | some r' => exact stableRoots_are_roots a b c r' (hr r' rfl) _ (Or.inr he)
    · split at h
      · rename_i w hk
        simp only [Option.some.injEq, Prod.mk.injEq] at h
        obtain ⟨rfl, rfl⟩ := h
        obtain ⟨he, h0, h1⟩ := keep01_some hk
        refine ⟨h0, h1, fun hcond => ?_⟩
        obtain ⟨hb, rfl⟩ := divQ_some he
        rcases hcond with hc | ha
        · exact absurd rfl hc
        · subst ha; field_simp; ring
      · simp at h

theorem solveAnother_some {f : Option Rat} {y1 y2 y3 y4 oy g : Rat} (h : solveAnother f y1 y2 y3 y4 oy = some g) :
    ∃ f', f = some f' ∧ (y3 + (y4 - y3) * f' - y1 - (y2 - y1) * f') ≠ 0 ∧
      g * (y3 + (y4 - y3) * f' - y1 - (y2 - y1) * f') = oy - y1 - (y2 - y1) * f' ∧ 0 ≤ g ∧ g ≤ 1 := by
  cases f with
  | none => simp [solveAnother] at h
  | some f' =>
    simp only [solveAnother] at h
    split at h
    · simp at h
    · obtain ⟨he, h0, h1⟩ := keep01_some h
      obtain ⟨hd, rfl⟩ := divQ_some he
      refine ⟨f', rfl, hd, ?_, h0, h1⟩
      exact div_mul_cancel₀ _ hd




/-- the quadratic of `_calc_abc` is the condition "the target lies on the line through the points at fraction `f` of the two
sides p1→p3 and p2→p4" (cross product = 0) -/
theorem calcABC_cross (p1 p2 p3 p4 : Pt) (ox oy f : Rat) :
    (calcABC p1 p2 p3 p4 oy ox).1 * f * f + (calcABC p1 p2 p3 p4 oy ox).2.1 * f + (calcABC p1 p2 p3 p4 oy ox).2.2 =
      (oy - (p1.y + f * (p3.y - p1.y))) * ((p2.x + f * (p4.x - p2.x)) - (p1.x + f * (p3.x - p1.x))) -
      (ox - (p1.x + f * (p3.x - p1.x))) * ((p2.y + f * (p4.y - p2.y)) - (p1.y + f * (p3.y - p1.y))) := by
  simp only [calcABC]; ring

/-- geometric core shared by the two quadratic branches: `f` solves the cross-product condition for sides q1→q3, q2→q4 and
`g` is the position of the target's y between the two side points: then the bilinear map of (g along q1→q2, f along q1→q3)
hits the target -/
theorem branch_core (q1 q2 q3 q4 : Pt) (ox oy f g : Rat)
    (hq : (calcABC q1 q2 q3 q4 oy ox).1 * f * f + (calcABC q1 q2 q3 q4 oy ox).2.1 * f + (calcABC q1 q2 q3 q4 oy ox).2.2 = 0)
    (hd : (q2.y + (q4.y - q2.y) * f - q1.y - (q3.y - q1.y) * f) ≠ 0)
    (hg : g * (q2.y + (q4.y - q2.y) * f - q1.y - (q3.y - q1.y) * f) = oy - q1.y - (q3.y - q1.y) * f) :
    resample q1.x q2.x q3.x q4.x g f = ox ∧ resample q1.y q2.y q3.y q4.y g f = oy := by
  rw [calcABC_cross] at hq
  have hy : resample q1.y q2.y q3.y q4.y g f = oy := by
    simp only [resample]; linear_combination hg
  refine ⟨?_, hy⟩
  have : (resample q1.x q2.x q3.x q4.x g f - ox) * (q2.y + (q4.y - q2.y) * f - q1.y - (q3.y - q1.y) * f) = 0 := by
    simp only [resample]
    linear_combination hq + ((q2.x + f * (q4.x - q2.x)) - (q1.x + f * (q3.x - q1.x))) * hg
  rcases mul_eq_zero.mp this with h | h
  · linarith
  · exact absurd h hd

/-- **the general (irregular) branch is sound**: if it returns (t, s) and the root it used is a root of the quadratic — always
the case unless the linear fallback `-c / b` was taken with `a ≠ 0` — the bilinear map of the quadrilateral sends (s, t) to
the target location -/
theorem irregular_sound (p1 p2 p3 p4 : Pt) (ox oy : Rat) (r : Option Rat)
    (hr : ∀ r', r = some r' → r' * r' = disc (calcABC p1 p2 p3 p4 oy ox))
    (t s : Rat) (h : irregular p1 p2 p3 p4 ox oy r = some (t, s)) :
    ∃ rt, irregularRoot p1 p2 p3 p4 ox oy r = some (t, rt) ∧
      ((rt ≠ .lin ∨ (calcABC p1 p2 p3 p4 oy ox).1 = 0) → bilinMap p1 p2 p3 p4 s t = ⟨ox, oy⟩) := by
  simp only [irregular] at h
  obtain ⟨ht, hs, -, -, -, -⟩ := both_some h
  cases hroot : irregularRoot p1 p2 p3 p4 ox oy r with
  | none => rw [hroot] at ht; simp at ht
  | some vr =>
    obtain ⟨v, rt⟩ := vr
    rw [hroot] at ht
    simp only [Option.map_some, Option.some.injEq] at ht
    subst ht
    refine ⟨rt, rfl, fun hcond => ?_⟩
    rw [hroot] at hs
    simp only [Option.map_some] at hs
    obtain ⟨f', hf, hd, hg, -, -⟩ := solveAnother_some hs
    simp only [Option.some.injEq] at hf
    subst hf
    simp only [irregularRoot] at hroot
    have hspec := solveQuadratic_spec _ _ _ r (by simpa [disc] using hr) v rt (by simpa using hroot)
    have hq := hspec.2.2 hcond
    obtain ⟨hx, hy⟩ := branch_core p1 p2 p3 p4 ox oy v s hq hd hg
    simp only [bilinMap, hx, hy]

/-- **the uprights-parallel branch is sound** (same statement with the roles of the two pairs of sides exchanged) -/
theorem uprights_sound (p1 p2 p3 p4 : Pt) (ox oy : Rat) (r : Option Rat)
    (hr : ∀ r', r = some r' → r' * r' = disc (calcABC p1 p3 p2 p4 oy ox))
    (t s : Rat) (h : uprights p1 p2 p3 p4 ox oy r = some (t, s)) :
    ∃ rt, uprightsRoot p1 p2 p3 p4 ox oy r = some (s, rt) ∧
      ((rt ≠ .lin ∨ (calcABC p1 p3 p2 p4 oy ox).1 = 0) → bilinMap p1 p2 p3 p4 s t = ⟨ox, oy⟩) := by
  simp only [uprights] at h
  obtain ⟨ht, hs, -, -, -, -⟩ := both_some h
  cases hroot : uprightsRoot p1 p2 p3 p4 ox oy r with
  | none => rw [hroot] at hs; simp at hs
  | some vr =>
    obtain ⟨v, rt⟩ := vr
    rw [hroot] at hs
    simp only [Option.map_some, Option.some.injEq] at hs
    subst hs
    refine ⟨rt, rfl, fun hcond => ?_⟩
    rw [hroot] at ht
    simp only [Option.map_some] at ht
    obtain ⟨f', hf, hd, hg, -, -⟩ := solveAnother_some ht
    simp only [Option.some.injEq] at hf
    subst hf
    simp only [uprightsRoot] at hroot
    have hspec := solveQuadratic_spec _ _ _ r (by simpa [disc] using hr) v rt (by simpa using hroot)
    have hq := hspec.2.2 hcond
    obtain ⟨hx, hy⟩ := branch_core p1 p3 p2 p4 ox oy v t hq hd hg
    simp only [bilinMap]
    have ex : resample p1.x p2.x p3.x p4.x v t = resample p1.x p3.x p2.x p4.x t v := by simp only [resample]; ring
    have ey : resample p1.y p2.y p3.y p4.y v t = resample p1.y p3.y p2.y p4.y t v := by simp only [resample]; ring
    rw [ex, ey, hx, hy]



/-- **weights are always convex**: whatever branch produced them, the fractional distances lie in [0, 1] -/
theorem fractional_range (p1 p2 p3 p4 : Pt) (ox oy : Rat) (r1 r2 : Option Rat) (t s : Rat) (b : Branch)
    (h : fractional p1 p2 p3 p4 ox oy r1 r2 = some (t, s, b)) : 0 ≤ t ∧ t ≤ 1 ∧ 0 ≤ s ∧ s ≤ 1 := by
  simp only [fractional] at h
  split at h
  · rename_i t' s' hi
    simp only [Option.some.injEq, Prod.mk.injEq] at h
    obtain ⟨rfl, rfl, -⟩ := h
    simp only [irregular] at hi
    obtain ⟨-, -, a, b', c, d⟩ := both_some hi
    exact ⟨a, b', c, d⟩
  · split at h
    · rename_i t' s' hu
      simp only [Option.some.injEq, Prod.mk.injEq] at h
      obtain ⟨rfl, rfl, -⟩ := h
      simp only [uprights] at hu
      obtain ⟨-, -, a, b', c, d⟩ := both_some hu
      exact ⟨a, b', c, d⟩
    · split at h
      · rename_i t' s' hp
        simp only [Option.some.injEq, Prod.mk.injEq] at h
        obtain ⟨rfl, rfl, -⟩ := h
        simp only [parallelogram] at hp
        obtain ⟨-, -, a, b', c, d⟩ := both_some hp
        exact ⟨a, b', c, d⟩
      · simp at h

/-- a value is produced only when all four corners exist -/
theorem fractionalOpt_needs_four (c1 c2 c3 c4 : Option Pt) (ox oy : Rat) (r1 r2 : Option Rat) (v : Rat × Rat × Branch)
    (h : fractionalOpt c1 c2 c3 c4 ox oy r1 r2 = some v) :
    ∃ p1 p2 p3 p4, c1 = some p1 ∧ c2 = some p2 ∧ c3 = some p3 ∧ c4 = some p4 ∧ fractional p1 p2 p3 p4 ox oy r1 r2 = some v := by
  cases c1 <;> cases c2 <;> cases c3 <;> cases c4 <;> simp [fractionalOpt] at h ⊢
  exact h

/-- **certified results are exact**: with exact square roots, a certified solution path returns (t, s) whose bilinear map is the
target location -/
theorem certified_map (p1 p2 p3 p4 : Pt) (ox oy : Rat) (r1 r2 : Option Rat)
    (hr1 : ∀ r', r1 = some r' → r' * r' = disc (calcABC p1 p2 p3 p4 oy ox))
    (hr2 : ∀ r', r2 = some r' → r' * r' = disc (calcABC p1 p3 p2 p4 oy ox))
    (t s : Rat) (b : Branch) (h : fractional p1 p2 p3 p4 ox oy r1 r2 = some (t, s, b))
    (hc : certified p1 p2 p3 p4 ox oy r1 r2 = true) : bilinMap p1 p2 p3 p4 s t = ⟨ox, oy⟩ := by
  simp only [fractional] at h
  simp only [certified] at hc
  split at h
  · rename_i t' s' hi
    simp only [Option.some.injEq, Prod.mk.injEq] at h
    obtain ⟨rfl, rfl, -⟩ := h
    obtain ⟨rt, hroot, himp⟩ := irregular_sound p1 p2 p3 p4 ox oy r1 hr1 _ _ hi
    rw [hi, hroot] at hc
    simp only [Bool.or_eq_true, bne_iff_ne, ne_eq, beq_iff_eq] at hc
    exact himp hc
  · rename_i hi
    rw [hi] at hc
    split at h
    · rename_i t' s' hu
      simp only [Option.some.injEq, Prod.mk.injEq] at h
      obtain ⟨rfl, rfl, -⟩ := h
      obtain ⟨rt, hroot, himp⟩ := uprights_sound p1 p2 p3 p4 ox oy r2 hr2 _ _ hu
      rw [hu, hroot] at hc
      simp only [Bool.or_eq_true, bne_iff_ne, ne_eq, beq_iff_eq] at hc
      exact himp hc
    · rename_i hu
      rw [hu] at hc
      simp at hc

/-- **affine fields are reproduced exactly** on certified paths -/
theorem certified_exact (p1 p2 p3 p4 : Pt) (ox oy : Rat) (r1 r2 : Option Rat)
    (hr1 : ∀ r', r1 = some r' → r' * r' = disc (calcABC p1 p2 p3 p4 oy ox))
    (hr2 : ∀ r', r2 = some r' → r' * r' = disc (calcABC p1 p3 p2 p4 oy ox))
    (t s : Rat) (b : Branch) (h : fractional p1 p2 p3 p4 ox oy r1 r2 = some (t, s, b))
    (hc : certified p1 p2 p3 p4 ox oy r1 r2 = true) (α β γ : Rat) :
    resample (α + β * p1.x + γ * p1.y) (α + β * p2.x + γ * p2.y) (α + β * p3.x + γ * p3.y) (α + β * p4.x + γ * p4.y) s t =
      α + β * ox + γ * oy := by
  rw [resample_affine, certified_map p1 p2 p3 p4 ox oy r1 r2 hr1 hr2 t s b h hc]

/-! ### corner selection -/

/-- the chosen corner is the first neighbour (kd-tree order = nearest first) lying strictly inside the quadrant -/
theorem pickCorner_spec (q : Nat) (ox oy : Rat) (nb : List (Option Pt)) (i : Nat) (h : pickCorner q ox oy nb = some i) :
    ∃ p, nb[i]? = some (some p) ∧ inQuadrant q ox oy p = true ∧
      ∀ j, j < i → ∀ p', nb[j]? = some (some p') → inQuadrant q ox oy p' = false := by
  simp only [pickCorner] at h
  rw [List.findIdx?_eq_some_iff_getElem] at h
  obtain ⟨hi, hp, hbefore⟩ := h
  cases hn : nb[i] with
  | none => rw [hn] at hp; simp at hp
  | some p =>
    rw [hn] at hp
    refine ⟨p, ?_, hp, ?_⟩
    · rw [List.getElem?_eq_getElem hi, hn]
    · intro j hj p' hp'
      have hjl : j < nb.length := by omega
      have := hbefore j hj
      rw [List.getElem?_eq_getElem hjl] at hp'
      simp only [Option.some.injEq] at hp'
      rw [hp'] at this
      simpa using this

/-- the four quadrants: upper left, upper right, lower left, lower right of the target location — the chosen pixels surround it -/
theorem inQuadrant_geometry (ox oy : Rat) (p : Pt) :
    (inQuadrant 0 ox oy p = true ↔ p.x < ox ∧ oy < p.y) ∧ (inQuadrant 1 ox oy p = true ↔ ox < p.x ∧ oy < p.y) ∧
    (inQuadrant 2 ox oy p = true ↔ p.x < ox ∧ p.y < oy) ∧ (inQuadrant 3 ox oy p = true ↔ ox < p.x ∧ p.y < oy) := by
  simp only [inQuadrant, Bool.and_eq_true, decide_eq_true_eq]
  refine ⟨?_, ?_, ?_, ?_⟩ <;> constructor <;> rintro ⟨a, b⟩ <;> constructor <;> linarith

/-! ### the parallelogram branch -/

/-- the branch never looks at the fourth corner. If the quadrilateral really is a parallelogram and its uprights have no
x-component (`x_31 = 0`, e.g. an axis-aligned rectangle) the branch is sound … -/
theorem parallelogram_sound_partial (p1 p2 p3 p4 : Pt) (ox oy t s : Rat)
    (hpar : p4.x = p2.x + p3.x - p1.x ∧ p4.y = p2.y + p3.y - p1.y) (hx : p3.x = p1.x)
    (h : parallelogram p1 p2 p3 ox oy = some (t, s)) : bilinMap p1 p2 p3 p4 s t = ⟨ox, oy⟩ := by
  simp only [parallelogram] at h
  obtain ⟨ht, hs, -, -, -, -⟩ := both_some h
  obtain ⟨ht', -, -⟩ := keep01_some ht
  obtain ⟨hden, htv⟩ := divQ_some ht'
  rw [ht] at hs
  simp only at hs
  obtain ⟨hs', -, -⟩ := keep01_some hs
  obtain ⟨hx21, hsv⟩ := divQ_some hs'
  have e31 : p3.x - p1.x = 0 := by linarith
  rw [e31] at hden htv hsv
  simp only [mul_zero, sub_zero, zero_mul, add_zero] at hden htv hsv
  have hy31 : p3.y - p1.y ≠ 0 := by
    intro h0; apply hden; rw [h0]; ring
  have hS : s * (p2.x - p1.x) = ox - p1.x := by rw [hsv]; field_simp
  have hT : t * ((p2.x - p1.x) * (p3.y - p1.y)) = (p2.x - p1.x) * (oy - p1.y) - (p2.y - p1.y) * (ox - p1.x) := by
    rw [htv]; field_simp
  simp only [bilinMap, resample, Pt.mk.injEq]
  rw [hpar.1, hpar.2]
  constructor
  · linear_combination hS + t * e31
  · have : (p1.y * (1 - s) * (1 - t) + p2.y * s * (1 - t) + p3.y * (1 - s) * t + (p2.y + p3.y - p1.y) * s * t - oy) * (p2.x - p1.x) = 0 := by
      linear_combination hT + (p2.y - p1.y) * hS
    rcases mul_eq_zero.mp this with h' | h'
    · linarith
    · exact absurd h' hx21

/-- … but for a sheared parallelogram the sign of the `x_31·t` term is wrong: the branch returns fractional distances whose
bilinear map is NOT the target location (known finding F10) -/
theorem parallelogram_sign_defect :
    ∃ (p1 p2 p3 p4 : Pt) (ox oy t s : Rat), (p4.x = p2.x + p3.x - p1.x ∧ p4.y = p2.y + p3.y - p1.y) ∧
      parallelogram p1 p2 p3 ox oy = some (t, s) ∧ bilinMap p1 p2 p3 p4 s t ≠ ⟨ox, oy⟩ :=
  ⟨⟨-1, 1⟩, ⟨1, 1⟩, ⟨-2, -1⟩, ⟨0, -1⟩, -1/2, 0, 1/2, 0, by decide +kernel⟩


/-! ### look-up tables into the compacted source -/


theorem compact_map {α β} (f : α → β) : ∀ (xs : List α) (fs : List Bool), compact (xs.map f) fs = (compact xs fs).map f := by
  intro xs
  induction xs with
  | nil => intro fs; cases fs <;> simp [compact]
  | cons x xs ih =>
    intro fs
    cases fs with
    | nil => simp [compact]
    | cons b fs => cases b <;> simp [compact, ih]

/-- **the row / column look-up tables address the right pixel**: for a source of `N = H·W` raveled pixels of which `valid` are kept,
the `k`-th kept pixel's value is the 2-D data at (row, column) = the `k`-th entries of the compacted line and column tables
(`_get_slices`: `lines, cols = meshgrid…; [valid_input_index]; [index_array]`) -/
theorem lut_gather {β} (W N : Nat) (data : Nat → β) (valid : List Bool) (k : Nat) :
    (compact ((List.range N).map data) valid)[k]? =
      ((compact ((List.range N).map (· / W)) valid)[k]?).bind (fun r =>
        ((compact ((List.range N).map (· % W)) valid)[k]?).map (fun c => data (r * W + c))) := by
  rw [compact_map, compact_map, compact_map]
  simp only [List.getElem?_map]
  cases (compact (List.range N) valid)[k]? with
  | none => simp
  | some i => simp [Nat.div_add_mod']


/-! ### non-vacuity -/

/-- the irregular quadrilateral of the repository's own unit test: t = 3/8, s = 1/2, certified, and exact -/
example : fractional ⟨-1, 1⟩ ⟨1, 2⟩ ⟨-2, -1⟩ ⟨2, -4⟩ 0 0 (sqrtQ (disc (calcABC ⟨-1, 1⟩ ⟨1, 2⟩ ⟨-2, -1⟩ ⟨2, -4⟩ 0 0)))
    (sqrtQ (disc (calcABC ⟨-1, 1⟩ ⟨-2, -1⟩ ⟨1, 2⟩ ⟨2, -4⟩ 0 0))) = some (3/8, 1/2, .irr) := by decide +kernel
example : certified ⟨-1, 1⟩ ⟨1, 2⟩ ⟨-2, -1⟩ ⟨2, -4⟩ 0 0 (sqrtQ (disc (calcABC ⟨-1, 1⟩ ⟨1, 2⟩ ⟨-2, -1⟩ ⟨2, -4⟩ 0 0)))
    (sqrtQ (disc (calcABC ⟨-1, 1⟩ ⟨-2, -1⟩ ⟨1, 2⟩ ⟨2, -4⟩ 0 0))) = true := by decide +kernel
example : bilinMap ⟨-1, 1⟩ ⟨1, 2⟩ ⟨-2, -1⟩ ⟨2, -4⟩ (1/2) (3/8) = ⟨0, 0⟩ := by decide +kernel
/-- an axis-aligned rectangle goes through the second branch (the first is ill-conditioned there) -/
example : fractional ⟨-1, 1⟩ ⟨1, 1⟩ ⟨-1, -1⟩ ⟨1, -1⟩ 0 0 (sqrtQ (disc (calcABC ⟨-1, 1⟩ ⟨1, 1⟩ ⟨-1, -1⟩ ⟨1, -1⟩ 0 0)))
    (sqrtQ (disc (calcABC ⟨-1, 1⟩ ⟨-1, -1⟩ ⟨1, 1⟩ ⟨1, -1⟩ 0 0))) = some (1/2, 1/2, .upr) := by decide +kernel

end PyresampleModel.C06
