import PyresampleModel.Model.C06

/-
  C06 — property theorems (stub: none yet).
-/
namespace PyresampleModel.C06

end PyresampleModel.C06
