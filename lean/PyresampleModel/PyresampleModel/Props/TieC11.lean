import PyresampleModel.Gen.Src
import PyresampleModel.Model.C11
import PyresampleModel.Proofs.Num

/-
  Tie theorems, C11: the definitions generated from /repo's current `_get_slice_starts_stops`,
  `AreaSlicer._create_slices_from_bounds`, `expand_slice`, `check_slice_orientation`, `_ensure_integer_slice`
  equal the hand-written model of `Model/C11.lean` (or, for the last two, satisfy their specification outright).
-/
namespace PyresampleModel.Tie
open PyresampleModel

theorem pyMaxI_eq (a b : Int) : Gen.pyMaxI a b = C11.maxI a b := by
  simp only [Gen.pyMaxI, C11.maxI]; split <;> split <;> omega

theorem pyMinI_eq (a b : Int) : Gen.pyMinI a b = C11.minI a b := by
  simp only [Gen.pyMinI, C11.minI]

/-- `expand_slice` as translated = one more pixel on each side, clamped at 0, step kept -/
theorem tie_expand_slice (a b : Int) (st : Option Int) :
    Gen.expand_slice ⟨a, b, st⟩ = ⟨C11.maxI (a - 1) 0, b + 1, st⟩ := by
  simp only [Gen.expand_slice, pyMaxI_eq]

/-- the statements of `_get_slice_starts_stops` after the coordinate conversion, as translated, are the model's
`startStopX` / `startStopY` with the model's orientation flags (`x`, `y` = array coordinates of the target's corners;
`e` = the source extent; `w`, `h` = source width and height) -/
theorem tie_get_slice_starts_stops (llx lly urx ury x0 x1 y0 y1 e0 e1 e2 e3 : Rat) (w h : Nat) :
    Gen.get_slice_starts_stops llx lly urx ury (x0, x1) (y0, y1) (e0, e1, e2, e3) w h =
      (let fx := (decide (e0 > e2)) != (decide (llx > urx))
       let fy := (decide (e1 > e3)) != (decide (lly > ury))
       let sx := C11.startStopX w x0 x1 fx
       let sy := C11.startStopY h y0 y1 fy
       (sx.1, sx.2, sy.1, sy.2)) := by
  simp only [Gen.get_slice_starts_stops, C11.startStopX, C11.startStopY, pyMaxI_eq, pyMinI_eq]
  by_cases h1 : e0 > e2 <;> by_cases h2 : llx > urx <;> by_cases h3 : e1 > e3 <;> by_cases h4 : lly > ury <;>
    simp [h1, h2, h3, h4]

/-- `_create_slices_from_bounds` (with `expand_slice` inlined) as translated = the model's `boundsSlice` per axis,
applied to the smaller and the larger of the two bounds -/
theorem tie_create_slices_from_bounds (a b c d : Rat) :
    Gen.create_slices_from_bounds ((a, b), (c, d)) =
      (let sx := C11.boundsSlice (Gen.pyMinQ a b) (Gen.pyMaxQ a b)
       let sy := C11.boundsSlice (Gen.pyMinQ c d) (Gen.pyMaxQ c d)
       (⟨sx.1, sx.2, none⟩, ⟨sy.1, sy.2, none⟩)) := by
  simp only [Gen.create_slices_from_bounds, Gen.expand_slice, C11.boundsSlice, pyMaxI_eq]
  have key : ∀ q : Rat, Gen.pyMaxQ q 0 = (if q < 0 then 0 else q) := by
    intro q; simp only [Gen.pyMaxQ]; by_cases hq : q < 0
    · simp [hq, not_le.mpr hq]
    · simp [hq, not_lt.mp hq]
  simp [key]

/-- `check_slice_orientation` as translated: a slice running backwards (start > stop) whose step is missing or
positive gets the negated step (−1 when missing); every other slice is returned unchanged -/
theorem tie_check_slice_orientation (a b : Int) (st : Option Int) :
    Gen.check_slice_orientation ⟨a, b, st⟩ =
      (if a > b then
        (match st with
         | none => ⟨a, b, some (-1)⟩
         | some s => if s > 0 then ⟨a, b, some (-s)⟩ else ⟨a, b, some s⟩)
       else ⟨a, b, st⟩) := by
  simp only [Gen.check_slice_orientation]
  by_cases h : a > b
  · cases st with
    | none => simp [h]
    | some s =>
      by_cases hs : s > 0
      · have : s ≠ 0 := by omega
        simp [h, hs, this]
      · simp [h, hs]
  · simp [h]

/-- `_ensure_integer_slice` as translated: floor of the start, ceiling of the stop, floor of the step, `None` kept;
hence the integer slice contains the fractional one -/
theorem tie_ensure_integer_slice (a b s : Option Rat) :
    Gen.ensure_integer_slice ⟨a, b, s⟩ = ⟨a.map pyFloor, b.map pyCeil, s.map pyFloor⟩ := by
  cases a <;> cases b <;> cases s <;> simp [Gen.ensure_integer_slice]

theorem ensure_integer_slice_contains (a b : Rat) (s : Option Rat) :
    let r := Gen.ensure_integer_slice ⟨some a, some b, s⟩
    (∃ i j : Int, r.start = some i ∧ r.stop = some j ∧ (i : Rat) ≤ a ∧ b ≤ (j : Rat)) := by
  rw [tie_ensure_integer_slice]
  exact ⟨pyFloor a, pyCeil b, rfl, rfl, pyFloor_le a, le_pyCeil b⟩

end PyresampleModel.Tie
