import PyresampleModel.Gen.Src
import PyresampleModel.Model.C20
import PyresampleModel.Proofs.Num

/-
  Tie theorems, C20: the spacing / sign arithmetic of `_load_cf_axis_info`, `_get_area_extent_from_cf_axis` and the
  `bounds` tuple of `to_cartopy_crs`, as translated from /repo's current source, equal the model's `axisInfo`,
  `cfExtent`, `cartopyBounds`.
-/
namespace PyresampleModel.Tie
open PyresampleModel

theorem pyAbsQ_eq20 (q : Rat) : Gen.pyAbsQ q = C20.absQ q := by
  simp only [Gen.pyAbsQ, C20.absQ]
  by_cases h : q < 0
  · simp [h, not_le.mpr h]
  · simp [h, not_lt.mp h]

/-- for a stored coordinate vector the model's `axisInfo` has exactly the spacing and sign the translated statements
compute from its first element, last element and length -/
theorem tie_cf_axis_info (v : List Rat) (a : C20.Axis) (h : C20.axisInfo v = some a) :
    Gen.cf_axis_info a.first a.last (a.nb : Int) =
      ((a.last - a.first) / ((a.nb : Rat) - 1), a.spacing, a.sign) := by
  unfold C20.axisInfo at h
  split at h
  · rename_i f l hf hl
    split at h
    · cases h
    · simp only at h
      split at h
      · cases h
      · cases h
        simp [Gen.cf_axis_info, pyAbsQ_eq20]
  · cases h

theorem tie_cf_extent (x y : C20.Axis) :
    Gen.cf_extent x.first x.last x.sign x.spacing y.first y.last y.sign y.spacing = C20.cfExtent x y := by
  have half : mkRat 1 2 = (1 / 2 : Rat) := by decide +kernel
  simp [Gen.cf_extent, C20.cfExtent, half]

theorem tie_cartopy_bounds (g : Grid) :
    Gen.cartopy_bounds (g.x0, g.y0, g.x1, g.y1) = C20.cartopyBounds g := by
  simp [Gen.cartopy_bounds, C20.cartopyBounds]

/-- `_convert_XY_CF_to_Proj` as translated from /repo's current source (`crs.to_cf()` is required verbatim; its two entries
are parameters): for a geostationary grid mapping whose x/y are scanning angles (unit absent, empty or `radians` — the unit is
`None` after `_load_cf_axis_info` for every `rad…` / `deg…` spelling) first, last and spacing are multiplied by the satellite
height, which is the model's `scaleAxis`; `nb` and `sign` are not touched; every other axis is returned as it came -/
theorem tie_cf_geos_convert (a : C20.Axis) (unit : Option String) (gm : String) (h : Rat) :
    Gen.cf_geos_convert unit gm h a.first a.last a.spacing =
      (let scanning := decide (gm = "geostationary") && (unit = none || unit = some "" || unit = some "radians")
       let b := if scanning then C20.scaleAxis h a else a
       (b.first, b.last, b.spacing)) := by
  rcases unit with _ | u
  · by_cases hg : gm = "geostationary" <;> simp [Gen.cf_geos_convert, C20.scaleAxis, hg, mul_comm]
  · by_cases hg : gm = "geostationary" <;> by_cases hu : u = "" <;> by_cases hr : u = "radians" <;>
      simp [Gen.cf_geos_convert, C20.scaleAxis, hg, hu, hr, mul_comm]

/-- metres (any unit text other than radians) are never rescaled, whatever the grid mapping -/
theorem code_cf_metres_untouched (gm u : String) (h f l s : Rat) (hu : u ≠ "") (hr : u ≠ "radians") :
    Gen.cf_geos_convert (some u) gm h f l s = (f, l, s) := by
  simp [Gen.cf_geos_convert, hu, hr]

example : Gen.cf_geos_convert none "geostationary" 35786023 (-1/10) (1/10) (1/100) = (-35786023/10, 35786023/10, 35786023/100) := by
  decide +kernel

end PyresampleModel.Tie
