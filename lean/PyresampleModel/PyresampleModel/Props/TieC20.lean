import PyresampleModel.Gen.Src
import PyresampleModel.Model.C20
import PyresampleModel.Proofs.Num

/-
  Tie theorems, C20: the spacing / sign arithmetic of `_load_cf_axis_info`, `_get_area_extent_from_cf_axis` and the
  `bounds` tuple of `to_cartopy_crs`, as translated from /repo's current source, equal the model's `axisInfo`,
  `cfExtent`, `cartopyBounds`.
-/
namespace PyresampleModel.Tie
open PyresampleModel

theorem pyAbsQ_eq20 (q : Rat) : Gen.pyAbsQ q = C20.absQ q := by
  simp only [Gen.pyAbsQ, C20.absQ]
  by_cases h : q < 0
  · simp [h, not_le.mpr h]
  · simp [h, not_lt.mp h]

/-- for a stored coordinate vector the model's `axisInfo` has exactly the spacing and sign the translated statements
compute from its first element, last element and length -/
theorem tie_cf_axis_info (v : List Rat) (a : C20.Axis) (h : C20.axisInfo v = some a) :
    Gen.cf_axis_info a.first a.last (a.nb : Int) =
      ((a.last - a.first) / ((a.nb : Rat) - 1), a.spacing, a.sign) := by
  unfold C20.axisInfo at h
  split at h
  · rename_i f l hf hl
    split at h
    · cases h
    · simp only at h
      split at h
      · cases h
      · cases h
        simp [Gen.cf_axis_info, pyAbsQ_eq20]
  · cases h

theorem tie_cf_extent (x y : C20.Axis) :
    Gen.cf_extent x.first x.last x.sign x.spacing y.first y.last y.sign y.spacing = C20.cfExtent x y := by
  have half : mkRat 1 2 = (1 / 2 : Rat) := by decide +kernel
  simp [Gen.cf_extent, C20.cfExtent, half]

theorem tie_cartopy_bounds (g : Grid) :
    Gen.cartopy_bounds (g.x0, g.y0, g.x1, g.y1) = C20.cartopyBounds g := by
  simp [Gen.cartopy_bounds, C20.cartopyBounds]

end PyresampleModel.Tie
