import PyresampleModel.Gen.Src
import PyresampleModel.Props.C17

/-
  Tie theorem, C17: the last statement of `SphPolygon.area` — `(sum(alpha) - (len(self.lon) - 2) * np.pi) * self.radius ** 2`,
  the two statements before it (angle difference, `+ 2π` where negative) being required verbatim — as translated from
  /repo's current source, is the model's `areaFromAngles` for the list of interior angles: the `(n − 2)·π` term and the
  radius² factor that the area laws of `Props/C17.lean` (cyclic invariance, R² scaling, complement = 4πR², additivity) rest on.
-/
namespace PyresampleModel.Tie
open PyresampleModel

theorem tie_sph_area_tail (pi r : Rat) (angles : List Rat) :
    Gen.sph_area_tail angles.sum (angles.length : Int) pi r = C17.areaFromAngles pi r angles := by
  simp [Gen.sph_area_tail, C17.areaFromAngles]

end PyresampleModel.Tie
