import PyresampleModel.Gen.Src
import PyresampleModel.Props.C17

/-
  Tie theorem, C17: the last statement of `SphPolygon.area` — `(sum(alpha) - (len(self.lon) - 2) * np.pi) * self.radius ** 2`,
  the two statements before it (angle difference, `+ 2π` where negative) being required verbatim — as translated from
  /repo's current source, is the model's `areaFromAngles` for the list of interior angles: the `(n − 2)·π` term and the
  radius² factor that the area laws of `Props/C17.lean` (cyclic invariance, R² scaling, complement = 4πR², additivity) rest on.
-/
namespace PyresampleModel.Tie
open PyresampleModel

theorem tie_sph_area_tail (pi r : Rat) (angles : List Rat) :
    Gen.sph_area_tail angles.sum (angles.length : Int) pi r = C17.areaFromAngles pi r angles := by
  simp [Gen.sph_area_tail, C17.areaFromAngles]

/-- how the code names the model's picks: `self` is 1, `other` is 2 in `polys = [0, self, other]`, `None` is none -/
def pickCode : C17.Pick → Option Int
  | .self => some 1
  | .other => some 2
  | .none => none

/-- the body of `if inter is None:` in `_bool_oper` (the two `_is_inside` calls are Boolean parameters), as translated from
/repo's current source, is the model's `dispatch`: `sign = 1` is the union, `sign = -1` the intersection -/
theorem tie_bool_oper_dispatch (union a b : Bool) :
    Gen.bool_oper_dispatch (if union then 1 else -1) 1 2 a b = pickCode (C17.dispatch union a b) := by
  cases union <;> cases a <;> cases b <;> decide

/-- **the regenerated code**: for non-crossing outlines the union of nested polygons is the outer one, their intersection the
inner one, and disjoint polygons give `None` — whichever of the two is `self` -/
theorem code_dispatch_spec :
    Gen.bool_oper_dispatch 1 1 2 true false = some 2 ∧ Gen.bool_oper_dispatch 1 1 2 false true = some 1 ∧
    Gen.bool_oper_dispatch (-1) 1 2 true false = some 1 ∧ Gen.bool_oper_dispatch (-1) 1 2 false true = some 2 ∧
    (∀ s, Gen.bool_oper_dispatch s 1 2 false false = none) := by
  refine ⟨by decide, by decide, by decide, by decide, fun s => rfl⟩

end PyresampleModel.Tie
