import PyresampleModel.Gen.Src
import PyresampleModel.Props.C16

/-
  Tie theorems, C16: the number of vertices per side that `BaseDefinition._get_bbox_slices` asks `np.linspace` for, as
  translated from /repo's current source (the four `linspace` statements themselves are required verbatim by the
  translator: which side gets which axis, start, end and count), and the consequence for the ring: with the exact index
  selection the contour of the four sides never repeats a pixel, whatever `vertices_per_side` is.
-/
namespace PyresampleModel.Tie
open PyresampleModel

theorem tie_bbox_counts (H W : Int) (k : Option Int) :
    Gen.bbox_counts (H, W) k = (match k with | some k => (min k H, min k W) | none => (H, W)) := by
  cases k with
  | none => rfl
  | some k =>
    simp only [Gen.bbox_counts, Gen.pyMinI]
    congr 1 <;> (split <;> omega)

/-- **no side ever asks for more vertices than it has pixels** (the repair of finding F5, as the code stands now) -/
theorem code_bbox_counts_le (H W : Nat) (k : Option Int) :
    (Gen.bbox_counts ((H : Int), (W : Int)) k).1 ≤ H ∧ (Gen.bbox_counts ((H : Int), (W : Int)) k).2 ≤ W := by
  rw [tie_bbox_counts]
  cases k with
  | none => simp
  | some v => exact ⟨Int.min_le_right _ _, Int.min_le_right _ _⟩

/-- **the ring never repeats a pixel**: for a geometry of at least 2 × 2 pixels and any requested `vertices_per_side ≥ 2`
(or `None`: the full sides), the side lengths computed by the current code, fed to the exact selection
`⌊i (n−1)/(count−1)⌋`, give four sides whose contour has no repeated pixel -/
theorem code_ring_no_repeat (H W : Nat) (hH : 2 ≤ H) (hW : 2 ≤ W) (k : Option Nat) (hk : ∀ v, k = some v → 2 ≤ v) :
    let n := Gen.bbox_counts ((H : Int), (W : Int)) (k.map (fun v => (v : Int)))
    let selR := C16.linSel H n.1.toNat
    let selC := C16.linSel W n.2.toNat
    (C16.contour (C16.sides H W selC selR selC.reverse selR.reverse)).Nodup := by
  intro n selR selC
  have hn : n = (match k with | some v => (((min v H : Nat) : Int), ((min v W : Nat) : Int)) | none => ((H : Int), (W : Int))) := by
    show Gen.bbox_counts _ _ = _
    rw [tie_bbox_counts]
    cases k with
    | none => rfl
    | some v => simp only [Option.map_some]; exact Prod.ext (by simp; omega) (by simp; omega)
  have gR : C16.Good H selR := by
    show C16.Good H (C16.linSel H n.1.toNat)
    rw [hn]
    cases k with
    | none => simpa using C16.linSel_good H H hH (Nat.le_refl _)
    | some v =>
      have := hk v rfl
      simpa using C16.linSel_good H (min v H) (by omega) (Nat.min_le_right _ _)
  have gC : C16.Good W selC := by
    show C16.Good W (C16.linSel W n.2.toNat)
    rw [hn]
    cases k with
    | none => simpa using C16.linSel_good W W hW (Nat.le_refl _)
    | some v =>
      have := hk v rfl
      simpa using C16.linSel_good W (min v W) (by omega) (Nat.min_le_right _ _)
  exact C16.contour_no_repeat H W selC selR selC.reverse selR.reverse gC gR (by simpa using gC) (by simpa using gR) hH hW

end PyresampleModel.Tie
