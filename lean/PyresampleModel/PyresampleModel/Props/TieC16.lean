import PyresampleModel.Gen.Src
import PyresampleModel.Props.C16
import PyresampleModel.Proofs.Num

/-
  Tie theorems, C16: the number of vertices per side that `BaseDefinition._get_bbox_slices` asks `np.linspace` for, as
  translated from /repo's current source (the four `linspace` statements themselves are required verbatim by the
  translator: which side gets which axis, start, end and count), and the consequence for the ring: with the exact index
  selection the contour of the four sides never repeats a pixel, whatever `vertices_per_side` is.
-/
namespace PyresampleModel.Tie
open PyresampleModel

theorem tie_bbox_counts (H W : Int) (k : Option Int) :
    Gen.bbox_counts (H, W) k = (match k with | some k => (min k H, min k W) | none => (H, W)) := by
  cases k with
  | none => rfl
  | some k =>
    simp only [Gen.bbox_counts, Gen.pyMinI]
    congr 1 <;> (split <;> omega)

/-- **no side ever asks for more vertices than it has pixels** (the repair of finding F5, as the code stands now) -/
theorem code_bbox_counts_le (H W : Nat) (k : Option Int) :
    (Gen.bbox_counts ((H : Int), (W : Int)) k).1 ≤ H ∧ (Gen.bbox_counts ((H : Int), (W : Int)) k).2 ≤ W := by
  rw [tie_bbox_counts]
  cases k with
  | none => simp
  | some v => exact ⟨Int.min_le_right _ _, Int.min_le_right _ _⟩

/-- **the ring never repeats a pixel**: for a geometry of at least 2 × 2 pixels and any requested `vertices_per_side ≥ 2`
(or `None`: the full sides), the side lengths computed by the current code, fed to the exact selection
`⌊i (n−1)/(count−1)⌋`, give four sides whose contour has no repeated pixel -/
theorem code_ring_no_repeat (H W : Nat) (hH : 2 ≤ H) (hW : 2 ≤ W) (k : Option Int) (hk : ∀ v, k = some v → 2 ≤ v) :
    let n := Gen.bbox_counts ((H : Int), (W : Int)) k
    let selR := C16.linSel H n.1.toNat
    let selC := C16.linSel W n.2.toNat
    (C16.contour (C16.sides H W selC selR selC.reverse selR.reverse)).Nodup := by
  intro n selR selC
  have e1 : n.1.toNat = (match k with | some v => min v.toNat H | none => H) := by
    show (Gen.bbox_counts _ _).1.toNat = _
    rw [tie_bbox_counts]
    cases k with
    | none => simp
    | some v => have := hk v rfl; simp only; omega
  have e2 : n.2.toNat = (match k with | some v => min v.toNat W | none => W) := by
    show (Gen.bbox_counts _ _).2.toNat = _
    rw [tie_bbox_counts]
    cases k with
    | none => simp
    | some v => have := hk v rfl; simp only; omega
  have gR : C16.Good H selR := by
    show C16.Good H (C16.linSel H n.1.toNat)
    rw [e1]
    cases k with
    | none => exact C16.linSel_good H H hH (Nat.le_refl _)
    | some v =>
      have := hk v rfl
      exact C16.linSel_good H (min v.toNat H) (by omega) (Nat.min_le_right _ _)
  have gC : C16.Good W selC := by
    show C16.Good W (C16.linSel W n.2.toNat)
    rw [e2]
    cases k with
    | none => exact C16.linSel_good W W hW (Nat.le_refl _)
    | some v =>
      have := hk v rfl
      exact C16.linSel_good W (min v.toNat W) (by omega) (Nat.min_le_right _ _)
  exact C16.contour_no_repeat H W selC selR selC.reverse selR.reverse gC gR (by simpa using gC) (by simpa using gR) hH hW

/-- geostationary areas: the number of disk-polygon points asked for is at least 4, even, and at least what was requested
(`None` ⇒ 50) -/
theorem code_geos_nb_points (k : Option Int) :
    let n := Gen.geos_nb_points k
    4 ≤ n ∧ n % 2 = 0 ∧ (∀ v, k = some v → v ≤ n ∧ n ≤ max v 4 + 1) ∧ (k = none → n = 50) := by
  cases k with
  | none => simp [Gen.geos_nb_points]
  | some v =>
    have hf : Int.fmod v 2 = v % 2 := Int.fmod_eq_emod_of_nonneg _ (by omega)
    simp only [Gen.geos_nb_points, hf]
    by_cases h4 : v < 4
    · simp [h4]; omega
    · by_cases hodd : v % 2 ≠ 0
      · simp [h4, hodd]; omega
      · simp [h4, hodd]; omega

/-- the split point of the four geostationary sides is `len(x) // 2 - 1`, the `s` of the model's `geosSides`
(whose theorems `geos_contour`, `geos_sides_chain` say that no vertex is lost or repeated for any number ≥ 4 of vertices) -/
theorem tie_geos_side_step (n : Nat) : Gen.geos_side_step (n : Int) = ((n / 2 : Nat) : Int) - 1 := by
  simp only [Gen.geos_side_step]
  have h : (((n : Int) : Rat) / ((2 : Int) : Rat)) = ((n : Rat) / 2) := by push_cast; rfl
  rw [h, pyTrunc_of_nonneg (by positivity), pyFloor_eq]
  have : ⌊((n : Rat) / 2)⌋ = ((n / 2 : Nat) : Int) := by
    have := Rat.floor_natCast_div_natCast n 2
    push_cast at this ⊢
    exact this
  rw [this]

end PyresampleModel.Tie
