import PyresampleModel.Props.C18
import PyresampleModel.Props.TieC18

/-
  C18 — "every module assigns a point to the same cell, or to none", TRANSFERRED TO THE TRANSLATED CODE: the Lean
  definitions regenerated from /repo's current `grid.get_linesample`, `GridFilter.get_valid_index`,
  `BucketResampler._get_indices` and the area's own coordinate conversion all place a projected point (x, y) in
  `cellOf g x y` — the cell whose extent contains it — or nowhere.
-/
namespace PyresampleModel.Tie
open PyresampleModel

/-- quick grid sampling: the (row, col) that `get_linesample` computes, after the validity masks of
`get_image_from_linesample`, is the containing cell -/
theorem code_linesample_cell (g : Grid) (x y : Rat) :
    (let p := Gen.linesample x y g.offx g.offy g.dx g.dy; C18.validCell g p.1 p.2) = Grid.cellOf g x y := by
  rw [tie_linesample]; exact C18.linesample_eq_cellOf g x y

/-- `GridFilter`: index and validity flags together select the containing cell -/
theorem code_gridfilter_cell (g : Grid) (x y : Rat) :
    (let r := Gen.gridfilter_index x y g.offx g.offy g.dx g.dy g.w g.h
     if r.2.2.1 && r.2.2.2 then some (r.2.1.toNat, r.1.toNat) else none) = Grid.cellOf g x y := by
  rw [tie_gridfilter_index]; exact C18.gridFilter_eq_cellOf g x y

/-- bucket resampler: `(y_idxs, x_idxs)` is the containing cell, `(-1, -1)` exactly when there is none, and the raveled
index is `row * width + col` of that cell -/
theorem code_bucket_cell (g : Grid) (x y : Rat) :
    (let r := Gen.bucket_indices x y (g.dx, g.dy) (g.x0, g.y0, g.x1, g.y1) g.w g.h ((g.h : Int), (g.w : Int))
     if r.1 < 0 then none else some (r.1.toNat, r.2.1.toNat)) = Grid.cellOf g x y := by
  rw [tie_bucket_indices]; exact C18.bucket_eq_cellOf g x y

/-- the area's own conversion gives the fractional index `(x - xmin)/dx - 1/2`, `(ymax - y)/dy - 1/2`: pixel (r, c)
covers `[c - 1/2, c + 1/2] × [r - 1/2, r + 1/2]` in these coordinates -/
theorem code_array_coordinates (g : Grid) (hg : C18.WF g) (x y : Rat) :
    Gen.array_from_proj x y g.dx g.dy (g.uplx, g.uply) = ((x - g.x0) / g.dx - 1 / 2, (g.y1 - y) / g.dy - 1 / 2) := by
  rw [tie_array_from_proj, C18.arrX_form hg, C18.arrY_form hg]

/-- … and that also with the resolution read through the (translated) `resolution` property of the area, from the
quantities the (translated) `__init__` derives: the bucket indices are the containing cell on every orientation of the axes -/
theorem code_bucket_cell_via_property (g : Grid) (x y : Rat) :
    (let d := Gen.area_init_derived (g.x0, g.y0, g.x1, g.y1) (g.x0, g.y0, g.x1, g.y1) g.w g.h
     let r := Gen.bucket_indices x y (Gen.area_resolution d.1 d.2.1) (g.x0, g.y0, g.x1, g.y1) g.w g.h ((g.h : Int), (g.w : Int))
     if r.1 < 0 then none else some (r.1.toNat, r.2.1.toNat)) = Grid.cellOf g x y := by
  simp only [tie_area_init_derived, tie_area_resolution]
  exact code_bucket_cell g x y

end PyresampleModel.Tie
