import PyresampleModel.Gen.Src
import PyresampleModel.Model.C18
import PyresampleModel.Model.C07
import PyresampleModel.Proofs.Num
import PyresampleModel.Props.TieGrid

/-
  Tie theorems, C18 / C07: the cell-assignment arithmetic of `grid.get_linesample`, `GridFilter.get_valid_index` and
  `BucketResampler._get_indices`, as translated from /repo's current source (elementwise reading of the numpy / dask
  expressions; `.astype(<int type>)` of a floored value is the integer itself), equals the formulas of `Model/C18.lean`
  and `Model/C07.lean` that the "same cell or none" theorems are about.  (The area's own look-up goes through
  `get_array_coordinates_from_projection_coordinates`, tied in `TieGrid`.)
-/
namespace PyresampleModel.Tie
open PyresampleModel

theorem tie_linesample (g : Grid) (x y : Rat) :
    Gen.linesample x y g.offx g.offy g.dx g.dy = C18.linesample g x y := by
  simp [Gen.linesample, C18.linesample]

theorem tie_gridfilter_index (g : Grid) (x y : Rat) :
    (let r := Gen.gridfilter_index x y g.offx g.offy g.dx g.dy g.w g.h
     if r.2.2.1 && r.2.2.2 then some (r.2.1.toNat, r.1.toNat) else none) = C18.gridFilterCell g x y := by
  simp only [Gen.gridfilter_index, C18.gridFilterCell, C18.validCell]
  by_cases h1 : 0 ≤ pyFloor (x / g.dx + g.offx) <;> by_cases h2 : pyFloor (x / g.dx + g.offx) < (g.w : Int) <;>
  by_cases h3 : 0 ≤ pyFloor (g.offy - y / g.dy) <;> by_cases h4 : pyFloor (g.offy - y / g.dy) < (g.h : Int) <;>
  simp [h1, h2, h3, h4]

theorem tie_bucket_indices (g : Grid) (x y : Rat) :
    Gen.bucket_indices x y (g.dx, g.dy) (g.x0, g.y0, g.x1, g.y1) g.w g.h ((g.h : Int), (g.w : Int)) =
      ((C18.bucketIdx g x y).1, (C18.bucketIdx g x y).2, C07.ravelIdx g x y) := by
  simp only [Gen.bucket_indices, C18.bucketIdx, C07.ravelIdx]
  by_cases h1 : 0 ≤ pyFloor ((x - g.x0) / g.dx) <;> by_cases h2 : pyFloor ((x - g.x0) / g.dx) < (g.w : Int) <;>
  by_cases h3 : 0 ≤ pyFloor ((g.y1 - y) / g.dy) <;> by_cases h4 : pyFloor ((g.y1 - y) / g.dy) < (g.h : Int) <;>
  simp [h1, h2, h3, h4]

end PyresampleModel.Tie
