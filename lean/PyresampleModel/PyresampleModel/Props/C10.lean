import PyresampleModel.Model.C10
import PyresampleModel.Props.C18

/-
  C10 — property theorems: slicing commutes with coordinates, composes, records its offset;
  split ∘ concat = id in both member orders.
-/
namespace PyresampleModel.C10
open PyresampleModel.Grid PyresampleModel.C18

theorem aux_indices_le (s : PySlice) (n : Nat) : (s.indices n).1 ≤ n ∧ (s.indices n).2 ≤ n := by
  unfold PySlice.indices adjustIndex
  constructor
  · cases s.start with
    | none => simp
    | some i => simp only; split_ifs <;> omega
  · cases s.stop with
    | none => simp
    | some i => simp only; split_ifs <;> omega

/-- what `__getitem__` returns, spelled out -/
theorem sliceArea_some {a a' : Area} {ys xs : PySlice} (h : sliceArea a ys xs = some a') :
    (ys.indices a.g.h).1 < (ys.indices a.g.h).2 ∧ (xs.indices a.g.w).1 < (xs.indices a.g.w).2 ∧
    a'.g.w = (xs.indices a.g.w).2 - (xs.indices a.g.w).1 ∧
    a'.g.h = (ys.indices a.g.h).2 - (ys.indices a.g.h).1 ∧
    a'.off = (a.off.1 + (ys.indices a.g.h).1, a.off.2 + (xs.indices a.g.w).1) ∧
    a'.g.x0 = a.g.uplx + (((xs.indices a.g.w).1 : Rat) - 1/2) * a.g.dx ∧
    a'.g.x1 = a.g.uplx + (((xs.indices a.g.w).2 : Rat) - 1/2) * a.g.dx ∧
    a'.g.y0 = a.g.uply - (((ys.indices a.g.h).2 : Rat) - 1/2) * a.g.dy ∧
    a'.g.y1 = a.g.uply - (((ys.indices a.g.h).1 : Rat) - 1/2) * a.g.dy := by
  unfold sliceArea at h
  simp only at h
  split at h
  · rename_i hv
    simp only [Option.some.injEq] at h
    subst h
    exact ⟨hv.1, hv.2, rfl, rfl, rfl, rfl, rfl, rfl, rfl⟩
  · simp at h

/-- **shape equals numpy's** -/
theorem slice_shape {a a' : Area} {ys xs : PySlice} (h : sliceArea a ys xs = some a') :
    a'.g.w = xs.len a.g.w ∧ a'.g.h = ys.len a.g.h := by
  obtain ⟨_, _, hw, hh, _⟩ := sliceArea_some h
  simp only [PySlice.len]
  exact ⟨hw, hh⟩

/-- pixel sizes are unchanged by slicing -/
theorem slice_dx {a a' : Area} {ys xs : PySlice} (h : sliceArea a ys xs = some a') :
    a'.g.dx = a.g.dx ∧ a'.g.dy = a.g.dy := by
  obtain ⟨hy, hx, hw, hh, _, h0, h1, h2, h3⟩ := sliceArea_some h
  have hwq : ((a'.g.w : Nat) : Rat) = ((xs.indices a.g.w).2 : Rat) - ((xs.indices a.g.w).1 : Rat) := by
    rw [hw, Nat.cast_sub hx.le]
  have hhq : ((a'.g.h : Nat) : Rat) = ((ys.indices a.g.h).2 : Rat) - ((ys.indices a.g.h).1 : Rat) := by
    rw [hh, Nat.cast_sub hy.le]
  have hxpos : (0 : Rat) < ((xs.indices a.g.w).2 : Rat) - ((xs.indices a.g.w).1 : Rat) := by
    have : ((xs.indices a.g.w).1 : Rat) < ((xs.indices a.g.w).2 : Rat) := by exact_mod_cast hx
    linarith
  have hypos : (0 : Rat) < ((ys.indices a.g.h).2 : Rat) - ((ys.indices a.g.h).1 : Rat) := by
    have : ((ys.indices a.g.h).1 : Rat) < ((ys.indices a.g.h).2 : Rat) := by exact_mod_cast hy
    linarith
  constructor
  · show (a'.g.x1 - a'.g.x0) / a'.g.w = a.g.dx
    rw [h0, h1, hwq]; field_simp; ring
  · show (a'.g.y1 - a'.g.y0) / a'.g.h = a.g.dy
    rw [h2, h3, hhq]; field_simp; ring

/-- **coordinates commute with slicing**: pixel (i, j) of `area[ys, xs]` sits where pixel
(lo_y + i, lo_x + j) of `area` sits -/
theorem slice_coords {a a' : Area} {ys xs : PySlice} (h : sliceArea a ys xs = some a') (i j : Rat) :
    a'.g.projX j = a.g.projX ((xs.indices a.g.w).1 + j) ∧
    a'.g.projY i = a.g.projY ((ys.indices a.g.h).1 + i) := by
  obtain ⟨hdx, hdy⟩ := slice_dx h
  obtain ⟨_, _, _, _, _, h0, _, _, h3⟩ := sliceArea_some h
  constructor
  · simp only [Grid.projX, Grid.uplx, hdx, h0]; ring
  · simp only [Grid.projY, Grid.uply, hdy, h3]; ring


/-- **the coordinate vectors of the sliced area are the same slice of the parent's vectors** -/
theorem slice_xvec {a a' : Area} {ys xs : PySlice} (h : sliceArea a ys xs = some a') :
    xvec a'.g = xs.apply (xvec a.g) ∧ yvec a'.g = ys.apply (yvec a.g) := by
  obtain ⟨hy, hx, hw, hh, _⟩ := sliceArea_some h
  have hbx := aux_indices_le xs a.g.w
  have hby := aux_indices_le ys a.g.h
  constructor
  · apply List.ext_getElem?
    intro k
    simp only [xvec, PySlice.apply, List.length_map, List.length_range, List.getElem?_map, List.getElem?_take,
      List.getElem?_drop]
    by_cases hk : k < a'.g.w
    · have h1 : k < (xs.indices a.g.w).2 - (xs.indices a.g.w).1 := by omega
      have h2 : (xs.indices a.g.w).1 + k < a.g.w := by omega
      rw [List.getElem?_range hk, if_pos h1, List.getElem?_range h2]
      simp only [Option.map_some]
      rw [(slice_coords h 0 k).1]; push_cast; rfl
    · have h1 : ¬ k < (xs.indices a.g.w).2 - (xs.indices a.g.w).1 := by omega
      rw [List.getElem?_eq_none (by simp; omega), if_neg h1]; rfl
  · apply List.ext_getElem?
    intro k
    simp only [yvec, PySlice.apply, List.length_map, List.length_range, List.getElem?_map, List.getElem?_take,
      List.getElem?_drop]
    by_cases hk : k < a'.g.h
    · have h1 : k < (ys.indices a.g.h).2 - (ys.indices a.g.h).1 := by omega
      have h2 : (ys.indices a.g.h).1 + k < a.g.h := by omega
      rw [List.getElem?_range hk, if_pos h1, List.getElem?_range h2]
      simp only [Option.map_some]
      rw [(slice_coords h k 0).2]; push_cast; rfl
    · have h1 : ¬ k < (ys.indices a.g.h).2 - (ys.indices a.g.h).1 := by omega
      rw [List.getElem?_eq_none (by simp; omega), if_neg h1]; rfl

/-- apply a chain of successive slices -/
def sliceChain (a : Area) (chain : List (PySlice × PySlice)) : Option Area :=
  chain.foldl (fun (acc : Option Area) p => acc.bind (fun a => sliceArea a p.1 p.2)) (some a)

theorem aux_foldl_none (chain : List (PySlice × PySlice)) :
    chain.foldl (fun (acc : Option Area) p => acc.bind (fun a => sliceArea a p.1 p.2)) none = none := by
  induction chain with
  | nil => rfl
  | cons p ps ih => simpa using ih

/-- **crop_offset records the cumulative offset; slicing composes like array slicing**: after any
chain of successive slices starting from an area with `crop_offset = (0, 0)`, pixel (i, j) of the
result sits where pixel (crop_offset + (i, j)) of the original area sits, the result stays inside
the original, and its coordinate vectors are the successive slices of the original vectors. -/
theorem chain_origin (g : Grid) : ∀ (chain : List (PySlice × PySlice)) (a a' : Area),
    (∀ (i j : Rat), a.g.projX j = g.projX (a.off.2 + j) ∧ a.g.projY i = g.projY (a.off.1 + i)) →
    a.off.1 + a.g.h ≤ g.h → a.off.2 + a.g.w ≤ g.w →
    sliceChain a chain = some a' →
    (∀ (i j : Rat), a'.g.projX j = g.projX (a'.off.2 + j) ∧ a'.g.projY i = g.projY (a'.off.1 + i)) ∧
    a'.off.1 + a'.g.h ≤ g.h ∧ a'.off.2 + a'.g.w ≤ g.w ∧
    xvec a'.g = chain.foldl (fun v p => p.2.apply v) (xvec a.g) ∧
    yvec a'.g = chain.foldl (fun v p => p.1.apply v) (yvec a.g) := by
  intro chain
  induction chain with
  | nil =>
    intro a a' hinv h1 h2 h
    simp only [sliceChain, List.foldl_nil, Option.some.injEq] at h
    subst h
    exact ⟨hinv, h1, h2, rfl, rfl⟩
  | cons p ps ih =>
    intro a a' hinv h1 h2 h
    simp only [sliceChain, List.foldl_cons, Option.bind_some] at h
    cases hs : sliceArea a p.1 p.2 with
    | none => rw [hs, aux_foldl_none] at h; cases h
    | some b =>
      rw [hs] at h
      obtain ⟨hy, hx, hw, hh, hoff, _⟩ := sliceArea_some hs
      have hbx := aux_indices_le p.2 a.g.w
      have hby := aux_indices_le p.1 a.g.h
      have hvec := slice_xvec hs
      have := ih b a' (by
          intro i j
          obtain ⟨c1, c2⟩ := slice_coords hs i j
          rw [c1, c2, (hinv i _).1, (hinv _ j).2, hoff]
          push_cast
          constructor <;> congr 1 <;> ring)
        (by rw [hoff, hh]; simp only; omega) (by rw [hoff, hw]; simp only; omega) h
      obtain ⟨r1, r2, r3, r4, r5⟩ := this
      refine ⟨r1, r2, r3, ?_, ?_⟩
      · rw [r4, hvec.1]; rfl
      · rw [r5, hvec.2]; rfl


def fullSlice : PySlice := ⟨none, none⟩

theorem aux_absQ_nonneg (q : Rat) : 0 ≤ absQ q := by
  unfold absQ; split <;> linarith

theorem aux_absQ_of_nonneg {q : Rat} (h : 0 ≤ q) : absQ q = q := by simp [absQ, h]

theorem aux_absQ_sub_comm (a b : Rat) : absQ (a - b) = absQ (b - a) := by
  unfold absQ
  by_cases h1 : 0 ≤ a - b <;> by_cases h2 : 0 ≤ b - a <;> simp [h1, h2] <;> linarith

theorem dbl1em6_pos : 0 < dbl1em6 := by unfold dbl1em6; decide +kernel
theorem dbl1em6_le : dbl1em6 ≤ 1 / 1000000 := by unfold dbl1em6; decide +kernel

theorem aux_seamTol_nonneg (a b : Grid) : 0 ≤ seamTol a b := by
  unfold seamTol minQ
  have h1 := aux_absQ_nonneg (a.y1 - a.y0)
  have h2 := aux_absQ_nonneg (b.y1 - b.y0)
  have h3 := dbl1em6_pos.le
  split <;> exact mul_nonneg h3 (by assumption)

/-- **split ∘ concat = id**, in both member orders: cutting a well-formed area after row `k`
(`0 < k < height`) and concatenating the two parts gives back the original extent and shape. -/
theorem split_concat_id {g : Grid} (hg : WF g) (k : Nat) (hk0 : 0 < k) (hk : k < g.h)
    (top bot : Area)
    (ht : sliceArea ⟨g, (0, 0)⟩ ⟨some 0, some (k : Int)⟩ fullSlice = some top)
    (hb : sliceArea ⟨g, (0, 0)⟩ ⟨some (k : Int), none⟩ fullSlice = some bot) :
    concatAreas top.g bot.g = some g ∧ concatAreas bot.g top.g = some g := by
  have hdx := dx_pos hg
  have hdy := dy_pos hg
  have hw := w_dx hg
  have hh := h_dy hg
  obtain ⟨_, _, tw, th, _, tx0, tx1, ty0, ty1⟩ := sliceArea_some ht
  obtain ⟨_, _, bw, bh, _, bx0, bx1, by0, by1⟩ := sliceArea_some hb
  -- the slice indices
  have i1 : (PySlice.indices ⟨some 0, some (k : Int)⟩ g.h) = (0, k) := by
    simp only [PySlice.indices, adjustIndex]
    have : ¬ ((k : Int) < 0) := by omega
    have h2 : ¬ ((k : Int) ≥ g.h) := by omega
    simp [this, h2]
  have i2 : (PySlice.indices ⟨some (k : Int), none⟩ g.h) = (k, g.h) := by
    simp only [PySlice.indices, adjustIndex]
    have : ¬ ((k : Int) < 0) := by omega
    have h2 : ¬ ((k : Int) ≥ g.h) := by omega
    simp [this, h2]
  have i3 : (PySlice.indices fullSlice g.w) = (0, g.w) := by simp [PySlice.indices, fullSlice]
  simp only [i1, i2, i3] at tw th tx0 tx1 ty0 ty1 bw bh bx0 bx1 by0 by1
  have hkq : (0 : Rat) < k := by exact_mod_cast hk0
  have hkh : (k : Rat) < g.h := by exact_mod_cast hk
  -- extents of the two parts in terms of the original
  have ex0 : top.g.x0 = g.x0 := by rw [tx0]; simp only [Grid.uplx]; push_cast; ring
  have ex1 : top.g.x1 = g.x1 := by rw [tx1]; simp only [Grid.uplx]; linarith
  have ey1 : top.g.y1 = g.y1 := by rw [ty1]; simp only [Grid.uply]; push_cast; ring
  have ey0 : top.g.y0 = g.y1 - k * g.dy := by rw [ty0]; simp only [Grid.uply]; ring
  have fx0 : bot.g.x0 = g.x0 := by rw [bx0]; simp only [Grid.uplx]; push_cast; ring
  have fx1 : bot.g.x1 = g.x1 := by rw [bx1]; simp only [Grid.uplx]; linarith
  have fy1 : bot.g.y1 = g.y1 - k * g.dy := by rw [by1]; simp only [Grid.uply]; ring
  have fy0 : bot.g.y0 = g.y0 := by rw [by0]; simp only [Grid.uply]; linarith
  have hth : top.g.h = k := by omega
  have hbh : bot.g.h = g.h - k := by omega
  have htol := aux_seamTol_nonneg top.g bot.g
  have htol' := aux_seamTol_nonneg bot.g top.g
  constructor
  · -- (top, bottom): the first test succeeds
    unfold concatAreas
    rw [if_neg (by omega), if_pos ⟨by rw [ex0, fx0], by rw [ex1, fx1]⟩]
    have : isclose top.g.y0 bot.g.y1 (seamTol top.g bot.g) = true := by
      simp only [isclose, decide_eq_true_eq, ey0, fy1, sub_self]
      simpa [absQ] using htol
    rw [if_pos this]
    congr 1
    cases hgg : g
    cases htt : top.g
    simp only [hgg, htt] at *
    simp only [Grid.mk.injEq]
    refine ⟨ex0, fy0, ex1, ey1, by omega, by omega⟩
  · -- (bottom, top): the first test must fail, the second succeeds
    unfold concatAreas
    rw [if_neg (by omega), if_pos ⟨by rw [ex0, fx0], by rw [ex1, fx1]⟩]
    have hbig : isclose bot.g.y0 top.g.y1 (seamTol bot.g top.g) = false := by
      simp only [isclose, decide_eq_false_iff_not, not_le, fy0, ey1]
      have h1 : absQ (g.y0 - g.y1) = g.y1 - g.y0 := by
        rw [aux_absQ_sub_comm]; exact aux_absQ_of_nonneg (by linarith [hg.ypos])
      rw [h1]
      have h2 : seamTol bot.g top.g ≤ 1 / 1000000 * (k * g.dy) := by
        unfold seamTol minQ
        have e : absQ (top.g.y1 - top.g.y0) = k * g.dy := by
          rw [ey1, ey0]
          have : g.y1 - (g.y1 - k * g.dy) = k * g.dy := by ring
          rw [this]; exact aux_absQ_of_nonneg (by positivity)
        rw [e]
        have hp := dbl1em6_pos
        have hl := dbl1em6_le
        have hk' : 0 ≤ (k : Rat) * g.dy := by positivity
        split
        · rename_i hle
          have hn := aux_absQ_nonneg (bot.g.y1 - bot.g.y0)
          calc dbl1em6 * absQ (bot.g.y1 - bot.g.y0) ≤ dbl1em6 * (k * g.dy) := mul_le_mul_of_nonneg_left hle hp.le
            _ ≤ 1 / 1000000 * (k * g.dy) := mul_le_mul_of_nonneg_right hl hk'
        · exact mul_le_mul_of_nonneg_right hl hk'
      have h3 : (k : Rat) * g.dy < g.y1 - g.y0 := by rw [← hh]; nlinarith
      have h4 : 0 < (k : Rat) * g.dy := by positivity
      nlinarith
    have hclose : isclose bot.g.y1 top.g.y0 (seamTol bot.g top.g) = true := by
      simp only [isclose, decide_eq_true_eq, ey0, fy1, sub_self]
      simpa [absQ] using htol'
    rw [hbig, hclose]
    simp only [Bool.false_eq_true, if_false, if_true]
    congr 1
    cases hgg : g
    cases hbb : bot.g
    simp only [hgg, hbb] at *
    simp only [Grid.mk.injEq]
    refine ⟨fx0, fy0, fx1, ey1, by omega, by omega⟩

/-- the defect repaired by the `fix:` commit: with numpy's default relative tolerance the two outer
edges of a small area far from the origin count as "adjacent": a 6×4 area of 10 m pixels at
northing 5 000 000, split after row 2 and concatenated bottom-first, came out with zero height. -/
theorem concatOld_defect :
    ∃ (g : Grid) (top bot : Area), WF g ∧
      sliceArea ⟨g, (0, 0)⟩ ⟨some 0, some 2⟩ fullSlice = some top ∧
      sliceArea ⟨g, (0, 0)⟩ ⟨some 2, none⟩ fullSlice = some bot ∧
      concatAreasOld bot.g top.g ≠ some g := by
  refine ⟨⟨500000, 5000000, 500060, 5000040, 6, 4⟩, _, _, ⟨by decide, by decide, by decide +kernel, by decide +kernel⟩,
    rfl, rfl, by decide +kernel⟩

end PyresampleModel.C10
