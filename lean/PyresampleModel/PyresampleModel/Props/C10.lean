import PyresampleModel.Model.C10

/-
  C10 — property theorems (stub: none yet).
-/
namespace PyresampleModel.C10

end PyresampleModel.C10
