import PyresampleModel.Props.C10
import PyresampleModel.Props.TieC10

/-
  C10 — "slicing commutes with the coordinates", TRANSFERRED TO THE TRANSLATED CODE: for the extent, size and crop
  offset that the arithmetic of `AreaDefinition.__getitem__` (regenerated from /repo's current source) produces, and the
  grid quantities `__init__` (also regenerated) derives from them, pixel (i, j) of the slice lies where pixel
  (lo_y + i, lo_x + j) of the parent lies; the shape is numpy's; the crop offset accumulates.
-/
namespace PyresampleModel.Tie
open PyresampleModel

theorem code_getitem_coords (a b : C10.Area) (ys xs : PySlice) (h : C10.sliceArea a ys xs = some b) (i j : Rat) :
    let r := Gen.area_getitem (((ys.indices a.g.h).1 : Int), ((ys.indices a.g.h).2 : Int), 1)
        (((xs.indices a.g.w).1 : Int), ((xs.indices a.g.w).2 : Int), 1)
        a.g.h a.g.w (a.g.uplx, a.g.uply) a.g.dx a.g.dy (a.g.x0, a.g.y0, a.g.x1, a.g.y1) ((a.off.1 : Int), (a.off.2 : Int))
    -- the new area as the constructor builds it from (extent, width, height)
    let g' : Grid := { x0 := r.2.2.1.1, y0 := r.2.2.1.2.1, x1 := r.2.2.1.2.2.1, y1 := r.2.2.1.2.2.2, w := r.1.toNat, h := r.2.1.toNat }
    let d := Gen.area_init_derived (g'.x0, g'.y0, g'.x1, g'.y1) (g'.x0, g'.y0, g'.x1, g'.y1) g'.w g'.h
    -- shape = numpy's, crop offset cumulative
    r.1 = (((xs.indices a.g.w).2 - (xs.indices a.g.w).1 : Nat) : Int) ∧
    r.2.1 = (((ys.indices a.g.h).2 - (ys.indices a.g.h).1 : Nat) : Int) ∧
    r.2.2.2 = (((a.off.1 + (ys.indices a.g.h).1 : Nat) : Int), ((a.off.2 + (xs.indices a.g.w).1 : Nat) : Int)) ∧
    -- coordinates of pixel (i, j) of the slice, through the regenerated conversion
    Gen.proj_from_array j i d.1 d.2.1 d.2.2.1 =
      Gen.proj_from_array (((xs.indices a.g.w).1 : Rat) + j) (((ys.indices a.g.h).1 : Rat) + i) a.g.dx a.g.dy (a.g.uplx, a.g.uply) := by
  have t := tie_area_getitem a b ys xs h
  have co := C10.slice_coords h i j
  obtain ⟨_, _, hw', hh', hoff, _, _, _, _⟩ := C10.sliceArea_some h
  simp only [t, Int.toNat_natCast]
  have e : ({ x0 := b.g.x0, y0 := b.g.y0, x1 := b.g.x1, y1 := b.g.y1, w := b.g.w, h := b.g.h } : Grid) = b.g := by cases b.g; rfl
  rw [e, tie_area_init_derived]
  simp only [tie_proj_from_array]
  refine ⟨?_, ?_, ?_, ?_⟩
  · rw [hw']
  · rw [hh']
  · rw [hoff]
  · rw [co.1, co.2]

/-- **split then concatenate, through the regenerated code**: cut a well-formed area after row `k` with the regenerated `__getitem__`
(twice), hand the two results — sizes and extents exactly as `__getitem__` computed them — to the regenerated
`concatenate_area_defs`: the original width, height and extent come back, in either member order -/
theorem code_split_concat {g : Grid} (hg : C18.WF g) (k : Nat) (hk0 : 0 < k) (hk : k < g.h) (top bot : C10.Area)
    (ht : C10.sliceArea ⟨g, (0, 0)⟩ ⟨some 0, some (k : Int)⟩ C10.fullSlice = some top)
    (hb : C10.sliceArea ⟨g, (0, 0)⟩ ⟨some (k : Int), none⟩ C10.fullSlice = some bot) :
    let a : C10.Area := ⟨g, (0, 0)⟩
    let item := fun (ys : PySlice) =>
      Gen.area_getitem (((ys.indices g.h).1 : Int), ((ys.indices g.h).2 : Int), 1)
        (((C10.fullSlice.indices g.w).1 : Int), ((C10.fullSlice.indices g.w).2 : Int), 1)
        g.h g.w (g.uplx, g.uply) g.dx g.dy (g.x0, g.y0, g.x1, g.y1) ((a.off.1 : Int), (a.off.2 : Int))
    let rt := item ⟨some 0, some (k : Int)⟩
    let rb := item ⟨some (k : Int), none⟩
    Gen.concatenate_area_defs 0 true rt.1 rb.1 rt.2.1 rb.2.1 rt.2.2.1 rb.2.2.1 = some ((g.w : Int), (g.h : Int), (g.x0, g.y0, g.x1, g.y1)) ∧
    Gen.concatenate_area_defs 0 true rb.1 rt.1 rb.2.1 rt.2.1 rb.2.2.1 rt.2.2.1 = some ((g.w : Int), (g.h : Int), (g.x0, g.y0, g.x1, g.y1)) := by
  intro a item rt rb
  have e1 : rt = _ := tie_area_getitem a top _ _ ht
  have e2 : rb = _ := tie_area_getitem a bot _ _ hb
  obtain ⟨c1, c2⟩ := C10.split_concat_id hg k hk0 hk top bot ht hb
  rw [e1, e2]
  simp only
  rw [tie_concatenate_area_defs top.g bot.g, tie_concatenate_area_defs bot.g top.g, c1, c2]
  simp

end PyresampleModel.Tie
