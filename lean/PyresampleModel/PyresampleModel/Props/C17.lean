import PyresampleModel.Model.C17

/-
  C17 — property theorems (stub: none yet).
-/
namespace PyresampleModel.C17

end PyresampleModel.C17
