import PyresampleModel.Model.C17
import Mathlib.Algebra.BigOperators.Fin
import Mathlib.Algebra.BigOperators.Intervals
import Mathlib.Data.ZMod.Defs
import Mathlib.Tactic.Ring
import Mathlib.Tactic.Linarith
import Mathlib.Tactic.LinearCombination

/-
  C17 — property theorems on the combinatorial skeleton of the spherical-polygon area and of the no-crossing decision of the
  boolean operations.  The angle function is a parameter: the geometric facts (invariance under rotations of the sphere, the
  angle seen from the other side is 2 pi minus the angle, angles add up at a diagonal) are HYPOTHESES, checked numerically on the
  real code by the harness.  The identities are polynomial, so they hold verbatim over the reals.
-/
namespace PyresampleModel.C17

open Finset

theorem sum_range_eq (f : Nat → Rat) (n : Nat) : ((List.range n).map f).sum = ∑ i ∈ range n, f i := by
  induction n with
  | zero => simp
  | succ n ih => rw [List.range_succ, List.map_append, List.sum_append, ih, Finset.sum_range_succ]; simp

/-- a sum over one period does not depend on where the period starts -/
theorem cyc_shift (n : Nat) (hn : 0 < n) (g : Nat → Rat) (k : Nat) :
    ∑ i ∈ range n, g ((i + k) % n) = ∑ i ∈ range n, g i := by
  have : NeZero n := ⟨Nat.pos_iff_ne_zero.mp hn⟩
  rw [← Fin.sum_univ_eq_sum_range (fun i => g ((i + k) % n)) n, ← Fin.sum_univ_eq_sum_range g n]
  let e : Fin n ≃ Fin n := Equiv.addRight (Fin.ofNat n k)
  apply Fintype.sum_equiv e
  intro i
  show g ((i.val + k) % n) = g (e i).val
  congr 1
  simp only [e, Equiv.coe_addRight, Fin.val_add, Fin.val_ofNat, Nat.add_mod_mod]

/-- reflection of the summation index -/
theorem cyc_reflect (n : Nat) (hn : 0 < n) (g : Nat → Rat) (c : Nat) :
    ∑ i ∈ range n, g ((c + (n - 1 - i)) % n) = ∑ i ∈ range n, g i := by
  rw [Finset.sum_range_reflect (fun j => g ((c + j) % n)) n]
  have := cyc_shift n hn g c
  simpa [Nat.add_comm] using this

variable {α : Type}

/-- **cyclic relabelling**: starting the vertex list at another vertex does not change the area -/
theorem area_cyclic (ang : α → α → α → Rat) (pi r : Rat) (n : Nat) (hn : 0 < n) (v : Nat → α) (k : Nat) :
    areaFn ang pi r n (fun j => v ((j + k) % n)) = areaFn ang pi r n v := by
  unfold areaFn angleSumFn
  rw [sum_range_eq, sum_range_eq]
  have h := cyc_shift n hn (fun i => ang (v (i % n)) (v ((i + 1) % n)) (v ((i + 2) % n))) k
  have e1 : ∀ i ∈ range n, ang (v ((i + k) % n)) (v (((i + 1) % n + k) % n)) (v (((i + 2) % n + k) % n)) =
      ang (v ((i + k) % n % n)) (v (((i + k) % n + 1) % n)) (v (((i + k) % n + 2) % n)) := by
    intro i _
    congr 2
    · rw [Nat.mod_mod]
    · rw [Nat.mod_add_mod, Nat.mod_add_mod]; congr 1; omega
    · rw [Nat.mod_add_mod, Nat.mod_add_mod]; congr 1; omega
  have e2 : ∀ i ∈ range n, ang (v (i % n)) (v ((i + 1) % n)) (v ((i + 2) % n)) = ang (v i) (v ((i + 1) % n)) (v ((i + 2) % n)) := by
    intro i hi
    rw [Nat.mod_eq_of_lt (mem_range.mp hi)]
  rw [Finset.sum_congr rfl e1, h, Finset.sum_congr rfl e2]

/-- **radius**: the area scales with the square of the radius -/
theorem area_radius (ang : α → α → α → Rat) (pi r : Rat) (n : Nat) (v : Nat → α) :
    areaFn ang pi r n v = r * r * areaFn ang pi 1 n v := by
  unfold areaFn; ring

/-- **rotation of the sphere**: if the angle function is invariant under a map `g` of the vertices, so is the area -/
theorem area_rotation (ang : α → α → α → Rat) (g : α → α) (hg : ∀ a p b, ang (g a) (g p) (g b) = ang a p b)
    (pi r : Rat) (n : Nat) (v : Nat → α) : areaFn ang pi r n (fun j => g (v j)) = areaFn ang pi r n v := by
  unfold areaFn angleSumFn
  simp only [hg]

/-- **inverse**: traversing the vertices in the opposite order gives the complement, provided the angle seen from the other side is
`2·pi` minus the angle (`ang b p a = 2 pi - ang a p b`) -/
theorem area_inverse (ang : α → α → α → Rat) (pi r : Rat) (n : Nat) (hn : 3 ≤ n) (v : Nat → α)
    (hflip : ∀ a p b, ang b p a = 2 * pi - ang a p b) :
    areaFn ang pi r n v + areaFn ang pi r n (fun j => v (n - 1 - j)) = 4 * pi * (r * r) := by
  unfold areaFn angleSumFn
  rw [sum_range_eq, sum_range_eq]
  -- the reversed polygon's triple i is the flipped triple n-3-i (mod n) of the original
  have key : ∑ i ∈ range n, ang (v (n - 1 - i)) (v (n - 1 - (i + 1) % n)) (v (n - 1 - (i + 2) % n)) =
      ∑ i ∈ range n, (2 * pi - ang (v i) (v ((i + 1) % n)) (v ((i + 2) % n))) := by
    have hr := cyc_reflect n (by omega) (fun j => 2 * pi - ang (v (j % n)) (v ((j + 1) % n)) (v ((j + 2) % n))) (n - 2)
    have e2 : ∀ i ∈ range n, (2 * pi - ang (v (i % n)) (v ((i + 1) % n)) (v ((i + 2) % n))) = (2 * pi - ang (v i) (v ((i + 1) % n)) (v ((i + 2) % n))) := by
      intro i hi; rw [Nat.mod_eq_of_lt (mem_range.mp hi)]
    rw [Finset.sum_congr rfl e2] at hr
    rw [← hr]
    apply Finset.sum_congr rfl
    intro i hi
    have hi' := mem_range.mp hi
    rw [hflip]
    congr 2
    -- j = (n - 2 + (n - 1 - i)) % n ; need v (j % n) = v (n - 1 - (i+2)%n), v ((j+1)%n) = v (n-1-(i+1)%n), v ((j+2)%n) = v (n-1-i)
    · congr 1
      rw [Nat.mod_mod]
      by_cases h2 : i + 2 < n
      · rw [Nat.mod_eq_of_lt h2]
        have : n - 2 + (n - 1 - i) = n + (n - 1 - (i + 2)) := by omega
        rw [this, Nat.add_mod_left, Nat.mod_eq_of_lt (by omega)]
      · have : (i + 2) % n = i + 2 - n := by
          rw [Nat.mod_eq_sub_mod (by omega), Nat.mod_eq_of_lt (by omega)]
        rw [this, Nat.mod_eq_of_lt (by omega)]; omega
    · congr 1
      rw [Nat.mod_add_mod]
      by_cases h1 : i + 1 < n
      · rw [Nat.mod_eq_of_lt h1]
        have : n - 2 + (n - 1 - i) + 1 = n + (n - 1 - (i + 1)) := by omega
        rw [this, Nat.add_mod_left, Nat.mod_eq_of_lt (by omega)]
      · have : (i + 1) % n = i + 1 - n := by
          rw [Nat.mod_eq_sub_mod (by omega), Nat.mod_eq_of_lt (by omega)]
        rw [this, Nat.mod_eq_of_lt (by omega)]; omega
    · congr 1
      rw [Nat.mod_add_mod]
      have : n - 2 + (n - 1 - i) + 2 = n + (n - 1 - i) := by omega
      rw [this, Nat.add_mod_left, Nat.mod_eq_of_lt (by omega)]
  rw [key, Finset.sum_sub_distrib]
  simp only [Finset.sum_const, card_range, nsmul_eq_mul]
  ring

/-- the same skeleton from the list of angles -/
theorem areaFn_eq_fromAngles (ang : α → α → α → Rat) (pi r : Rat) (n : Nat) (v : Nat → α) :
    areaFn ang pi r n v = areaFromAngles pi r ((List.range n).map (fun i => ang (v i) (v ((i + 1) % n)) (v ((i + 2) % n)))) := by
  unfold areaFn areaFromAngles angleSumFn
  simp

/-! ### the no-crossing decision of `_bool_oper` -/

/-- a polygon contained in another is its own intersection with it, and the union is the containing one; polygons that neither
cross nor contain each other have no intersection (and, by the library's convention, no union) -/
theorem dispatch_spec :
    dispatch false true false = .self ∧ dispatch false false true = .other ∧
    dispatch true true false = .other ∧ dispatch true false true = .self ∧
    (∀ u, dispatch u false false = .none) := by
  refine ⟨rfl, rfl, rfl, rfl, fun u => by cases u <;> rfl⟩

/-- the decision is symmetric: exchanging the two polygons picks the same geometric polygon -/
theorem dispatch_comm (u a b : Bool) (hab : ¬ (a = true ∧ b = true)) :
    dispatch u a b = (match dispatch u b a with | .self => .other | .other => .self | .none => .none) := by
  cases u <;> cases a <;> cases b <;> simp_all [dispatch]



/-- **additivity**: splitting a polygon of `n = m + q + 4` vertices along the diagonal from vertex `0` to vertex `k = m + 2` gives
the polygons `v 0 … v k` and `v k … v (n-1), v 0`; if the two angles cut by the diagonal add up, the areas add up -/
theorem area_split (ang : α → α → α → Rat) (pi r : Rat) (m q : Nat) (v : Nat → α)
    (h0 : ang (v (m + q + 3)) (v 0) (v 1) = ang (v (m + q + 3)) (v 0) (v (m + 2)) + ang (v (m + 2)) (v 0) (v 1))
    (hk : ang (v (m + 1)) (v (m + 2)) (v (m + 3)) = ang (v (m + 1)) (v (m + 2)) (v 0) + ang (v 0) (v (m + 2)) (v (m + 3))) :
    areaFn ang pi r (m + q + 4) v =
      areaFn ang pi r (m + 3) v + areaFn ang pi r (q + 3) (fun j => v ((m + 2 + j) % (m + q + 4))) := by
  unfold areaFn angleSumFn
  rw [sum_range_eq, sum_range_eq, sum_range_eq]
  -- the big polygon
  have hS : ∑ i ∈ range (m + q + 4), ang (v i) (v ((i + 1) % (m + q + 4))) (v ((i + 2) % (m + q + 4))) =
      (∑ i ∈ range (m + 1), ang (v i) (v (i + 1)) (v (i + 2))) + ang (v (m + 1)) (v (m + 2)) (v (m + 3)) +
      (∑ j ∈ range (q + 1), ang (v (m + 2 + j)) (v (m + 2 + j + 1)) (v ((m + 2 + j + 2) % (m + q + 4)))) +
      ang (v (m + q + 3)) (v 0) (v 1) := by
    have e : m + q + 4 = (m + 1) + 1 + (q + 1) + 1 := by ring
    rw [e, Finset.sum_range_succ, Finset.sum_range_add, Finset.sum_range_succ]
    have a1 : ∀ i ∈ range (m + 1), ang (v i) (v ((i + 1) % (m + 1 + 1 + (q + 1) + 1))) (v ((i + 2) % (m + 1 + 1 + (q + 1) + 1))) = ang (v i) (v (i + 1)) (v (i + 2)) := by
      intro i hi
      have := mem_range.mp hi
      rw [Nat.mod_eq_of_lt (by omega), Nat.mod_eq_of_lt (by omega)]
    rw [Finset.sum_congr rfl a1]
    have a2 : ∀ j ∈ range (q + 1), ang (v (m + 1 + 1 + j)) (v ((m + 1 + 1 + j + 1) % (m + 1 + 1 + (q + 1) + 1))) (v ((m + 1 + 1 + j + 2) % (m + 1 + 1 + (q + 1) + 1))) =
        ang (v (m + 2 + j)) (v (m + 2 + j + 1)) (v ((m + 2 + j + 2) % (m + 1 + 1 + (q + 1) + 1))) := by
      intro j hj
      have := mem_range.mp hj
      rw [Nat.mod_eq_of_lt (by omega : m + 1 + 1 + j + 1 < m + 1 + 1 + (q + 1) + 1)]
    rw [Finset.sum_congr rfl a2]
    have b1 : (m + 1 + 1) % (m + 1 + 1 + (q + 1) + 1) = m + 2 := Nat.mod_eq_of_lt (by omega)
    have b2 : (m + 1 + 2) % (m + 1 + 1 + (q + 1) + 1) = m + 3 := Nat.mod_eq_of_lt (by omega)
    have b3 : (m + 1 + 1 + (q + 1) + 1) % (m + 1 + 1 + (q + 1) + 1) = 0 := Nat.mod_self _
    have b4 : (m + 1 + 1 + (q + 1) + 2) % (m + 1 + 1 + (q + 1) + 1) = 1 := by
      rw [show m + 1 + 1 + (q + 1) + 2 = (m + 1 + 1 + (q + 1) + 1) + 1 by ring, Nat.add_mod_left, Nat.mod_eq_of_lt (by omega)]
    rw [b1, b2, b3, b4]
    have c1 : m + 1 + 1 + (q + 1) = m + q + 3 := by ring
    rw [c1]
  have modn : ∀ a n b : Nat, (a = n + b ∨ a = b) → b < n → a % n = b := by
    intro a n b h hb
    rcases h with h | h
    · rw [h, Nat.add_mod_left, Nat.mod_eq_of_lt hb]
    · rw [h, Nat.mod_eq_of_lt hb]
  have t : ∀ a b c a' b' c', a = a' → b = b' → c = c' → ang (v a) (v b) (v c) = ang (v a') (v b') (v c') := by
    intros; subst_vars; rfl
  -- the first part
  have hS1 : ∑ i ∈ range (m + 3), ang (v i) (v ((i + 1) % (m + 3))) (v ((i + 2) % (m + 3))) =
      (∑ i ∈ range (m + 1), ang (v i) (v (i + 1)) (v (i + 2))) + ang (v (m + 1)) (v (m + 2)) (v 0) + ang (v (m + 2)) (v 0) (v 1) := by
    rw [show m + 3 = (m + 1) + 1 + 1 by ring, Finset.sum_range_succ, Finset.sum_range_succ]
    have a1 : ∀ i ∈ range (m + 1), ang (v i) (v ((i + 1) % (m + 1 + 1 + 1))) (v ((i + 2) % (m + 1 + 1 + 1))) = ang (v i) (v (i + 1)) (v (i + 2)) := by
      intro i hi
      have := mem_range.mp hi
      rw [Nat.mod_eq_of_lt (by omega), Nat.mod_eq_of_lt (by omega)]
    rw [Finset.sum_congr rfl a1]
    congr 1
    · congr 1
      apply t
      · rfl
      · exact modn _ _ _ (by omega) (by omega)
      · exact modn _ _ _ (by omega) (by omega)
    · apply t
      · rfl
      · exact modn _ _ _ (by omega) (by omega)
      · exact modn _ _ _ (by omega) (by omega)
  -- the second part
  have hS2 : ∑ j ∈ range (q + 3), ang (v ((m + 2 + j) % (m + q + 4))) (v ((m + 2 + (j + 1) % (q + 3)) % (m + q + 4))) (v ((m + 2 + (j + 2) % (q + 3)) % (m + q + 4))) =
      (∑ j ∈ range (q + 1), ang (v (m + 2 + j)) (v (m + 2 + j + 1)) (v ((m + 2 + j + 2) % (m + q + 4)))) +
      ang (v (m + q + 3)) (v 0) (v (m + 2)) + ang (v 0) (v (m + 2)) (v (m + 3)) := by
    rw [show q + 3 = (q + 1) + 1 + 1 by ring, Finset.sum_range_succ, Finset.sum_range_succ]
    have a1 : ∀ j ∈ range (q + 1), ang (v ((m + 2 + j) % (m + q + 4))) (v ((m + 2 + (j + 1) % (q + 1 + 1 + 1)) % (m + q + 4))) (v ((m + 2 + (j + 2) % (q + 1 + 1 + 1)) % (m + q + 4))) =
        ang (v (m + 2 + j)) (v (m + 2 + j + 1)) (v ((m + 2 + j + 2) % (m + q + 4))) := by
      intro j hj
      have := mem_range.mp hj
      apply t
      · exact modn _ _ _ (by omega) (by omega)
      · rw [modn ((j + 1)) (q + 1 + 1 + 1) (j + 1) (by omega) (by omega)]
        exact modn _ _ _ (by omega) (by omega)
      · rw [modn ((j + 2)) (q + 1 + 1 + 1) (j + 2) (by omega) (by omega), show m + 2 + (j + 2) = m + 2 + j + 2 by ring]
    rw [Finset.sum_congr rfl a1]
    congr 1
    · congr 1
      apply t
      · exact modn _ _ _ (by omega) (by omega)
      · rw [modn (q + 1 + 1) (q + 1 + 1 + 1) (q + 2) (by omega) (by omega)]
        exact modn _ _ _ (by omega) (by omega)
      · rw [modn (q + 1 + 2) (q + 1 + 1 + 1) 0 (by omega) (by omega)]
        exact modn _ _ _ (by omega) (by omega)
    · apply t
      · exact modn _ _ _ (by omega) (by omega)
      · rw [modn (q + 1 + 1 + 1) (q + 1 + 1 + 1) 0 (by omega) (by omega)]
        exact modn _ _ _ (by omega) (by omega)
      · rw [modn (q + 1 + 1 + 2) (q + 1 + 1 + 1) 1 (by omega) (by omega)]
        exact modn _ _ _ (by omega) (by omega)
  rw [hS, hS1, hS2, h0, hk]
  push_cast
  ring


/-! ### non-vacuity -/

/-- a "square" with four right angles (pi = 22/7 as a rational stand-in): excess zero; an octant triangle has three right angles -/
example : areaFromAngles (22/7) 1 [11/7, 11/7, 11/7] = 11/7 := by decide +kernel
example : areaFn (fun (_ _ _ : Nat) => (11/7 : Rat)) (22/7) 2 3 id = 4 * (11/7) := by decide +kernel

end PyresampleModel.C17
