import PyresampleModel.Model.C15

/-
  C15 — property theorems (stub: none yet).
-/
namespace PyresampleModel.C15

end PyresampleModel.C15
