import PyresampleModel.Model.C15

/-
  C15 — property theorems: for every schedule (arbitrary list of worker ids), every n, worker
  count, chunk and schedule kind.
-/
namespace PyresampleModel.C15

/-- consecutive non-empty half-open intervals from `a` to `b` -/
def Chain : Nat → Nat → List (Nat × Nat) → Prop
  | a, b, [] => a = b
  | a, b, (s, e) :: rest => s = a ∧ a < e ∧ Chain e b rest

theorem aux_chain_append : ∀ (l : List (Nat × Nat)) (a b e : Nat), Chain a b l → b < e →
    Chain a e (l ++ [(b, e)]) := by
  intro l
  induction l with
  | nil => intro a b e h hlt; simp [Chain] at *; subst h; exact ⟨rfl, hlt⟩
  | cons p ps ih =>
    intro a b e h hlt
    obtain ⟨s, t⟩ := p
    simp only [Chain, List.cons_append] at *
    exact ⟨h.1, h.2.1, ih _ _ _ h.2.2 hlt⟩

theorem aux_chain_le : ∀ (l : List (Nat × Nat)) (a b : Nat), Chain a b l → a ≤ b := by
  intro l
  induction l with
  | nil => intro a b h; simp [Chain] at h; omega
  | cons p ps ih =>
    intro a b h
    obtain ⟨s, t⟩ := p
    simp only [Chain] at h
    have := ih _ _ h.2.2
    omega

theorem aux_chain_mem : ∀ (l : List (Nat × Nat)) (a b : Nat), Chain a b l →
    ∀ p ∈ l, a ≤ p.1 ∧ p.1 < p.2 ∧ p.2 ≤ b := by
  intro l
  induction l with
  | nil => intro a b _ p hp; simp at hp
  | cons q qs ih =>
    intro a b h p hp
    obtain ⟨s, t⟩ := q
    simp only [Chain] at h
    rcases List.mem_cons.mp hp with rfl | hp
    · have := aux_chain_le _ _ _ h.2.2
      simp; omega
    · have := ih _ _ h.2.2 p hp
      omega

theorem aux_chain_pairwise : ∀ (l : List (Nat × Nat)) (a b : Nat), Chain a b l →
    l.Pairwise (fun p q => p.2 ≤ q.1) := by
  intro l
  induction l with
  | nil => intro _ _ _; exact List.Pairwise.nil
  | cons q qs ih =>
    intro a b h
    obtain ⟨s, t⟩ := q
    simp only [Chain] at h
    refine List.Pairwise.cons ?_ (ih _ _ h.2.2)
    intro p hp
    have := aux_chain_mem _ _ _ h.2.2 p hp
    simp; omega

theorem aux_chain_cover : ∀ (l : List (Nat × Nat)) (a b : Nat), Chain a b l →
    ∀ i, a ≤ i → i < b → ∃ p ∈ l, p.1 ≤ i ∧ i < p.2 := by
  intro l
  induction l with
  | nil => intro a b h i h1 h2; simp [Chain] at h; omega
  | cons q qs ih =>
    intro a b h i h1 h2
    obtain ⟨s, t⟩ := q
    simp only [Chain] at h
    by_cases hi : i < t
    · exact ⟨(s, t), List.mem_cons_self, by simp; omega, by simpa using hi⟩
    · obtain ⟨p, hp, hp2⟩ := ih _ _ h.2.2 i (by omega) h2
      exact ⟨p, List.mem_cons_of_mem _ hp, hp2⟩

/-! ### bookkeeping over the list of program counters -/

/-- inside the critical section (between `acquire` and `release`) -/
def inCS : Pc → Bool
  | .locked | .readN _ | .readS _ _ | .wroteN _ _ | .relY _ _ => true
  | _ => false

/-- slice decided but not yet yielded -/
def pend : Pc → Option (Nat × Nat)
  | .wroteN a b | .relY a b | .yielding a b => some (a, b)
  | _ => none

theorem aux_fm_same : ∀ (pcs : List Pc) (w : Nat) (pc pc' : Pc), pcs[w]? = some pc → pend pc = pend pc' →
    (pcs.set w pc').filterMap pend = pcs.filterMap pend := by
  intro pcs
  induction pcs with
  | nil => intro w pc pc' h; simp at h
  | cons q qs ih =>
    intro w pc pc' h hp
    cases w with
    | zero =>
      simp at h; subst h
      simp [List.filterMap_cons, hp]
    | succ k =>
      simp at h
      simp [List.filterMap_cons, ih k pc pc' h hp]

theorem aux_fm_add : ∀ (pcs : List Pc) (w : Nat) (pc pc' : Pc) (x : Nat × Nat), pcs[w]? = some pc →
    pend pc = none → pend pc' = some x →
    List.Perm ((pcs.set w pc').filterMap pend) (x :: pcs.filterMap pend) := by
  intro pcs
  induction pcs with
  | nil => intro w pc pc' x h; simp at h
  | cons q qs ih =>
    intro w pc pc' x h hn hs
    cases w with
    | zero =>
      simp at h; subst h
      simp [hn, hs]
    | succ k =>
      simp at h
      have := ih k pc pc' x h hn hs
      simp only [List.set_cons_succ, List.filterMap_cons]
      cases hq : pend q with
      | none => simpa using this
      | some y =>
        simp only
        exact (List.Perm.cons y this).trans (List.Perm.swap x y _)

theorem aux_fm_remove : ∀ (pcs : List Pc) (w : Nat) (pc pc' : Pc) (x : Nat × Nat), pcs[w]? = some pc →
    pend pc = some x → pend pc' = none →
    List.Perm (x :: (pcs.set w pc').filterMap pend) (pcs.filterMap pend) := by
  intro pcs
  induction pcs with
  | nil => intro w pc pc' x h; simp at h
  | cons q qs ih =>
    intro w pc pc' x h hs hn
    cases w with
    | zero =>
      simp at h; subst h
      simp [hn, hs]
    | succ k =>
      simp at h
      have := ih k pc pc' x h hs hn
      simp only [List.set_cons_succ, List.filterMap_cons]
      cases hq : pend q with
      | none => simpa using this
      | some y =>
        simp only
        exact (List.Perm.swap y x _).trans (List.Perm.cons y this)

/-- has left the loop (saw `_ndata == 0`) -/
def isFin : Pc → Bool
  | .retg | .done => true
  | _ => false

/-- `_start` as it will be once the lock holder's pending write has happened -/
def effStart (s : St) : Nat :=
  match s.lock with
  | some w =>
    match s.pcs[w]? with
    | some (.wroteN _ b) => b
    | _ => s.start
  | none => s.start

def slicesOf (ys : List (Nat × Nat × Nat)) : List (Nat × Nat) := ys.map (fun e => (e.2.1, e.2.2))

/-- the invariant of the protocol -/
structure Inv (n : Nat) (s : St) : Prop where
  holder : ∀ (w : Nat), s.lock = some w → ∃ pc, s.pcs[w]? = some pc
  mutex  : ∀ (w : Nat) (pc : Pc), s.pcs[w]? = some pc → (inCS pc = true ↔ s.lock = some w)
  readsN : ∀ (w nd : Nat), s.pcs[w]? = some (Pc.readN nd) → nd = s.ndata
  readsS : ∀ (w nd st : Nat), s.pcs[w]? = some (Pc.readS nd st) → nd = s.ndata ∧ st = s.start
  chain  : Chain 0 (if s.ndata = 0 then n else effStart s) s.log
  total  : s.ndata ≠ 0 → effStart s + s.ndata = n
  perm   : List.Perm (slicesOf s.yielded ++ s.pcs.filterMap pend) s.log
  fin    : ∀ (w : Nat) (pc : Pc), s.pcs[w]? = some pc → isFin pc = true → s.ndata = 0

theorem init_inv (n workers : Nat) : Inv n (init n workers) := by
  refine ⟨?_, ?_, ?_, ?_, ?_, ?_, ?_, ?_⟩
  · intro w h; simp [init] at h
  · intro w pc h
    simp only [init, List.getElem?_replicate] at h
    split at h
    · simp at h; subst h; simp [inCS, init]
    · simp at h
  · intro w nd h
    simp only [init, List.getElem?_replicate] at h
    split at h <;> simp at h
  · intro w nd st h
    simp only [init, List.getElem?_replicate] at h
    split at h <;> simp at h
  · simp only [init, effStart]
    by_cases h : n = 0 <;> simp [h, Chain]
  · intro _; simp [init, effStart]
  · have : (List.replicate workers Pc.idle).filterMap pend = [] := by
      induction workers with
      | zero => rfl
      | succ k ih => simp [List.replicate_succ, List.filterMap_cons, pend, ih]
    simp [init, slicesOf, this]
  · intro w pc h hf
    simp only [init, List.getElem?_replicate] at h
    split at h
    · simp at h; subst h; simp [isFin] at hf
    · simp at h

theorem aux_get_set (pcs : List Pc) (w v : Nat) (pc q : Pc) (h : (pcs.set w pc)[v]? = some q) :
    (v = w ∧ q = pc ∧ w < pcs.length) ∨ (v ≠ w ∧ pcs[v]? = some q) := by
  by_cases hv : w = v
  · subst hv
    by_cases hl : w < pcs.length
    · simp [hl] at h; left; exact ⟨rfl, h.symm, hl⟩
    · simp [List.getElem?_set, hl] at h
  · rw [List.getElem?_set_ne hv] at h
    right; exact ⟨fun e => hv e.symm, h⟩

def effOf (pc : Pc) (st : Nat) : Nat := match pc with | .wroteN _ b => b | _ => st

theorem aux_effStart_holder (s : St) (w : Nat) (pc : Pc) (hl : s.lock = some w) (hw : s.pcs[w]? = some pc) :
    effStart s = effOf pc s.start := by
  simp only [effStart, hl, hw, effOf]
  cases pc <;> rfl

theorem aux_effStart_none (s : St) (hl : s.lock = none) : effStart s = s.start := by
  simp [effStart, hl]

/-- `effStart` only looks at the lock, `_start` and the holder's pc -/
theorem aux_effStart_congr (s s' : St) (hl : s'.lock = s.lock) (hst : s'.start = s.start)
    (hp : ∀ v, s.lock = some v → s'.pcs[v]? = s.pcs[v]?) : effStart s' = effStart s := by
  unfold effStart
  rw [hl, hst]
  cases h : s.lock with
  | none => rfl
  | some v => simp only; rw [hp v h]

theorem aux_chunk_pos (c : Cfg) (nd : Nat) (hc : 1 ≤ c.chunk) : 1 ≤ chunkOf c nd := by
  unfold chunkOf
  cases c.kind <;> simp <;> omega


theorem aux_mutex_set (pcs : List Pc) (lock lock' : Option Nat) (w : Nat) (q : Pc)
    (hM : ∀ (v : Nat) (p : Pc), pcs[v]? = some p → (inCS p = true ↔ lock = some v))
    (hq : inCS q = true ↔ lock' = some w)
    (ho : ∀ v, v ≠ w → (lock' = some v ↔ lock = some v)) :
    ∀ (v : Nat) (p : Pc), (pcs.set w q)[v]? = some p → (inCS p = true ↔ lock' = some v) := by
  intro v p hp
  rcases aux_get_set _ _ _ _ _ hp with ⟨rfl, rfl, _⟩ | ⟨hne, hp'⟩
  · exact hq
  · exact (hM v p hp').trans (ho v hne).symm

theorem aux_readsN_set (pcs : List Pc) (w : Nat) (q : Pc) (nd0 : Nat)
    (hR : ∀ (v nd : Nat), v ≠ w → pcs[v]? = some (Pc.readN nd) → nd = nd0)
    (hq : ∀ nd, q = Pc.readN nd → nd = nd0) :
    ∀ (v nd : Nat), (pcs.set w q)[v]? = some (Pc.readN nd) → nd = nd0 := by
  intro v nd hp
  rcases aux_get_set _ _ _ _ _ hp with ⟨rfl, h2, _⟩ | ⟨hne, hp'⟩
  · exact hq nd h2.symm
  · exact hR v nd hne hp'

theorem aux_readsS_set (pcs : List Pc) (w : Nat) (q : Pc) (nd0 st0 : Nat)
    (hR : ∀ (v nd st : Nat), v ≠ w → pcs[v]? = some (Pc.readS nd st) → nd = nd0 ∧ st = st0)
    (hq : ∀ nd st, q = Pc.readS nd st → nd = nd0 ∧ st = st0) :
    ∀ (v nd st : Nat), (pcs.set w q)[v]? = some (Pc.readS nd st) → nd = nd0 ∧ st = st0 := by
  intro v nd st hp
  rcases aux_get_set _ _ _ _ _ hp with ⟨rfl, h2, _⟩ | ⟨hne, hp'⟩
  · exact hq nd st h2.symm
  · exact hR v nd st hne hp'

theorem aux_fin_set (pcs : List Pc) (w : Nat) (q : Pc) (nd0 : Nat)
    (hF : ∀ (v : Nat) (p : Pc), v ≠ w → pcs[v]? = some p → isFin p = true → nd0 = 0)
    (hq : isFin q = true → nd0 = 0) :
    ∀ (v : Nat) (p : Pc), (pcs.set w q)[v]? = some p → isFin p = true → nd0 = 0 := by
  intro v p hp hf
  rcases aux_get_set _ _ _ _ _ hp with ⟨rfl, rfl, _⟩ | ⟨hne, hp'⟩
  · exact hq hf
  · exact hF v p hne hp' hf

theorem step_inv (c : Cfg) (n : Nat) (s s' : St) (w : Nat) (e : Ev) (hc : 1 ≤ c.chunk)
    (hI : Inv n s) (hs : step c s w = some (s', e)) : Inv n s' := by
  obtain ⟨hH, hM, hRN, hRS, hCh, hT, hP, hF⟩ := hI
  unfold step at hs
  cases hw : s.pcs[w]? with
  | none => simp [hw] at hs
  | some pc =>
    have hlen : w < s.pcs.length := by
      rcases Nat.lt_or_ge w s.pcs.length with h | h
      · exact h
      · rw [List.getElem?_eq_none h] at hw; simp at hw
    have hself : ∀ q, (s.pcs.set w q)[w]? = some q := by intro q; simp [hlen]
    have hMw := hM w _ hw
    rw [hw] at hs
    -- while `w` holds the lock nobody else is inside the critical section
    have hexcl : s.lock = some w → ∀ (v : Nat) (p : Pc), v ≠ w → s.pcs[v]? = some p → inCS p = false := by
      intro hl v p hv hp
      cases hin : inCS p with
      | false => rfl
      | true => have := (hM v p hp).mp hin; rw [hl] at this; cases this; exact absurd rfl hv
    have hholder : ∀ (q : Pc) (l : Option Nat), (∀ v, l = some v → s.lock = some v ∨ v = w) →
        ∀ v, l = some v → ∃ p, (s.pcs.set w q)[v]? = some p := by
      intro q l hl v hv
      by_cases hvw : v = w
      · subst hvw; exact ⟨_, hself q⟩
      · rcases hl v hv with h | h
        · obtain ⟨p, hp⟩ := hH v h
          exact ⟨p, by rw [List.getElem?_set_ne (fun e => hvw e.symm)]; exact hp⟩
        · exact absurd h hvw
    cases pc with
    | idle =>
      simp only at hs
      split at hs
      · rename_i hl
        simp at hs; obtain ⟨rfl, rfl⟩ := hs
        refine ⟨?_, ?_, ?_, ?_, ?_, ?_, ?_, ?_⟩
        · exact hholder _ _ (by intro v hv; simp at hv; right; exact hv.symm)
        · exact aux_mutex_set _ s.lock _ _ _ hM (by simp [inCS]) (by intro v hv; simp [hl]; omega)
        · exact aux_readsN_set _ _ _ _ (fun v nd _ h => hRN v nd h) (by intro nd h; cases h)
        · exact aux_readsS_set _ _ _ _ _ (fun v nd st _ h => hRS v nd st h) (by intro nd st h; cases h)
        · simp only [effStart, hself]
          simpa [effStart, hl] using hCh
        · simp only [effStart, hself]
          simpa [effStart, hl] using hT
        · simp only; rw [aux_fm_same _ _ _ _ hw (by simp [pend])]; exact hP
        · exact aux_fin_set _ _ _ _ (fun v p _ h hf => hF v p h hf) (by simp [isFin])
      · simp at hs
    | locked =>
      simp at hs; obtain ⟨rfl, rfl⟩ := hs
      have hl : s.lock = some w := hMw.mp rfl
      have hE : effStart { s with pcs := s.pcs.set w (Pc.readN s.ndata) } = effStart s := by
        rw [aux_effStart_holder { s with pcs := s.pcs.set w (Pc.readN s.ndata) } w _ hl (hself _),
          aux_effStart_holder s w _ hl hw]; rfl
      refine ⟨?_, ?_, ?_, ?_, ?_, ?_, ?_, ?_⟩
      · exact hholder _ _ (by intro v hv; left; exact hv)
      · exact aux_mutex_set _ s.lock _ _ _ hM (by simp [inCS, hl]) (by intro v hv; rfl)
      · exact aux_readsN_set _ _ _ _ (fun v nd _ h => hRN v nd h) (by intro nd h; cases h; rfl)
      · exact aux_readsS_set _ _ _ _ _ (fun v nd st _ h => hRS v nd st h) (by intro nd st h; cases h)
      · rw [hE]; exact hCh
      · rw [hE]; exact hT
      · simp only; rw [aux_fm_same _ _ _ _ hw (by simp [pend])]; exact hP
      · exact aux_fin_set _ _ _ _ (fun v p _ h hf => hF v p h hf) (by simp [isFin])
    | readN nd =>
      simp at hs; obtain ⟨rfl, rfl⟩ := hs
      have hl : s.lock = some w := hMw.mp rfl
      have hE : effStart { s with pcs := s.pcs.set w (Pc.readS nd s.start) } = effStart s := by
        rw [aux_effStart_holder { s with pcs := s.pcs.set w (Pc.readS nd s.start) } w _ hl (hself _),
          aux_effStart_holder s w _ hl hw]; rfl
      refine ⟨?_, ?_, ?_, ?_, ?_, ?_, ?_, ?_⟩
      · exact hholder _ _ (by intro v hv; left; exact hv)
      · exact aux_mutex_set _ s.lock _ _ _ hM (by simp [inCS, hl]) (by intro v hv; rfl)
      · exact aux_readsN_set _ _ _ _ (fun v nd _ h => hRN v nd h) (by intro nd h; cases h)
      · exact aux_readsS_set _ _ _ _ _ (fun v nd st _ h => hRS v nd st h)
          (by intro nd' st h; cases h; exact ⟨hRN w _ hw, rfl⟩)
      · rw [hE]; exact hCh
      · rw [hE]; exact hT
      · simp only; rw [aux_fm_same _ _ _ _ hw (by simp [pend])]; exact hP
      · exact aux_fin_set _ _ _ _ (fun v p _ h hf => hF v p h hf) (by simp [isFin])
    | readS nd st =>
      have hl : s.lock = some w := hMw.mp rfl
      obtain ⟨hnd, hst⟩ := hRS w nd st hw
      have hEold : effStart s = st := by rw [aux_effStart_holder s w _ hl hw, hst]; rfl
      have hnoN : ∀ (v nd' : Nat), v ≠ w → s.pcs[v]? = some (Pc.readN nd') → nd' = (0:Nat) ∧ False := by
        intro v nd' hv hp; have := hexcl hl v _ hv hp; simp [inCS] at this
      have hnoS : ∀ (v nd' st' : Nat), v ≠ w → s.pcs[v]? = some (Pc.readS nd' st') → False := by
        intro v nd' st' hv hp; have := hexcl hl v _ hv hp; simp [inCS] at this
      simp only at hs
      split at hs
      · rename_i hnz
        have hpos := aux_chunk_pos c nd hc
        split at hs
        · rename_i hgt
          simp at hs; obtain ⟨rfl, rfl⟩ := hs
          refine ⟨?_, ?_, ?_, ?_, ?_, ?_, ?_, ?_⟩
          · exact hholder _ _ (by intro v hv; left; exact hv)
          · exact aux_mutex_set _ s.lock _ _ _ hM (by simp [inCS, hl]) (by intro v hv; rfl)
          · exact aux_readsN_set _ _ _ _ (fun v nd' hv h => ((hnoN v nd' hv h).2).elim) (by intro nd h; cases h)
          · exact aux_readsS_set _ _ _ _ _ (fun v nd' st' hv h => (hnoS v nd' st' hv h).elim) (by intro nd st h; cases h)
          · simp only [if_true]
            have h1 : Chain 0 st s.log := by
              have := hCh; rw [if_neg (by omega), hEold] at this; exact this
            have h2 : st + nd = n := by have := hT (by omega); rw [hEold] at this; omega
            rw [← h2]; exact aux_chain_append _ _ _ _ h1 (by omega)
          · intro h; exact absurd rfl h
          · simp only
            have := aux_fm_add s.pcs w _ (Pc.relY st (st + nd)) (st, st + nd) hw (by simp [pend]) (by simp [pend])
            exact ((List.Perm.append_left _ this).trans List.perm_middle).trans
              ((List.Perm.cons _ hP).trans (List.perm_append_singleton _ _).symm)
          · intro v p _ _; rfl
        · rename_i hle
          simp at hs; obtain ⟨rfl, rfl⟩ := hs
          have hEnew : effStart { s with ndata := nd - chunkOf c nd, pcs := s.pcs.set w (Pc.wroteN st (st + chunkOf c nd)), log := s.log ++ [(st, st + chunkOf c nd)] } = st + chunkOf c nd := by
            rw [aux_effStart_holder { s with ndata := nd - chunkOf c nd, pcs := s.pcs.set w (Pc.wroteN st (st + chunkOf c nd)), log := s.log ++ [(st, st + chunkOf c nd)] } w _ hl (hself _)]; rfl
          have h1 : Chain 0 st s.log := by
            have := hCh; rw [if_neg (by omega), hEold] at this; exact this
          have h2 : st + nd = n := by have := hT (by omega); rw [hEold] at this; omega
          refine ⟨?_, ?_, ?_, ?_, ?_, ?_, ?_, ?_⟩
          · exact hholder _ _ (by intro v hv; left; exact hv)
          · exact aux_mutex_set _ s.lock _ _ _ hM (by simp [inCS, hl]) (by intro v hv; rfl)
          · exact aux_readsN_set _ _ _ _ (fun v nd' hv h => ((hnoN v nd' hv h).2).elim) (by intro nd h; cases h)
          · exact aux_readsS_set _ _ _ _ _ (fun v nd' st' hv h => (hnoS v nd' st' hv h).elim) (by intro nd st h; cases h)
          · rw [hEnew]
            simp only
            have h3 := aux_chain_append _ _ _ _ h1 (show st < st + chunkOf c nd by omega)
            by_cases hz : nd - chunkOf c nd = 0
            · rw [if_pos hz]
              have : st + chunkOf c nd = n := by omega
              rw [← this]; exact h3
            · rw [if_neg hz]; exact h3
          · intro hz; rw [hEnew]; simp only at hz ⊢; omega
          · simp only
            have := aux_fm_add s.pcs w _ (Pc.wroteN st (st + chunkOf c nd)) (st, st + chunkOf c nd) hw
              (by simp [pend]) (by simp [pend])
            exact ((List.Perm.append_left _ this).trans List.perm_middle).trans
              ((List.Perm.cons _ hP).trans (List.perm_append_singleton _ _).symm)
          · exact aux_fin_set _ _ _ _ (fun v p _ h hf => by have := hF v p h hf; omega) (by simp [isFin])
      · rename_i hz
        have hz : nd = 0 := by omega
        simp at hs; obtain ⟨rfl, rfl⟩ := hs
        refine ⟨?_, ?_, ?_, ?_, ?_, ?_, ?_, ?_⟩
        · intro v hv; simp at hv
        · exact aux_mutex_set _ s.lock _ _ _ hM (by simp [inCS])
            (by intro v hv; simp [hl]; omega)
        · exact aux_readsN_set _ _ _ _ (fun v nd _ h => hRN v nd h) (by intro nd h; cases h)
        · exact aux_readsS_set _ _ _ _ _ (fun v nd st _ h => hRS v nd st h) (by intro nd st h; cases h)
        · simp only; rw [if_pos (by omega)]
          have := hCh; rw [if_pos (by omega)] at this; exact this
        · intro h; simp only at h; omega
        · simp only; rw [aux_fm_same _ _ _ _ hw (by simp [pend])]; exact hP
        · exact aux_fin_set _ _ _ _ (fun v p _ h hf => hF v p h hf) (by intro _; show s.ndata = 0; omega)
    | wroteN a b =>
      simp at hs; obtain ⟨rfl, rfl⟩ := hs
      have hl : s.lock = some w := hMw.mp rfl
      have hE : effStart { s with start := b, pcs := s.pcs.set w (Pc.relY a b) } = effStart s := by
        rw [aux_effStart_holder { s with start := b, pcs := s.pcs.set w (Pc.relY a b) } w _ hl (hself _),
          aux_effStart_holder s w _ hl hw]; rfl
      refine ⟨?_, ?_, ?_, ?_, ?_, ?_, ?_, ?_⟩
      · exact hholder _ _ (by intro v hv; left; exact hv)
      · exact aux_mutex_set _ s.lock _ _ _ hM (by simp [inCS, hl]) (by intro v hv; rfl)
      · exact aux_readsN_set _ _ _ _ (fun v nd _ h => hRN v nd h) (by intro nd h; cases h)
      · exact aux_readsS_set _ _ _ _ _
          (fun v nd st hv h => by have := hexcl hl v _ hv h; simp [inCS] at this)
          (by intro nd st h; cases h)
      · rw [hE]; exact hCh
      · rw [hE]; exact hT
      · simp only; rw [aux_fm_same _ _ _ _ hw (by simp [pend])]; exact hP
      · exact aux_fin_set _ _ _ _ (fun v p _ h hf => hF v p h hf) (by simp [isFin])
    | relY a b =>
      simp at hs; obtain ⟨rfl, rfl⟩ := hs
      have hl : s.lock = some w := hMw.mp rfl
      have hE : effStart { s with lock := none, pcs := s.pcs.set w (Pc.yielding a b) } = effStart s := by
        rw [aux_effStart_none _ rfl, aux_effStart_holder s w _ hl hw]; rfl
      refine ⟨?_, ?_, ?_, ?_, ?_, ?_, ?_, ?_⟩
      · intro v hv; simp at hv
      · exact aux_mutex_set _ s.lock _ _ _ hM (by simp [inCS]) (by intro v hv; simp [hl]; omega)
      · exact aux_readsN_set _ _ _ _ (fun v nd _ h => hRN v nd h) (by intro nd h; cases h)
      · exact aux_readsS_set _ _ _ _ _ (fun v nd st _ h => hRS v nd st h) (by intro nd st h; cases h)
      · rw [hE]; exact hCh
      · rw [hE]; exact hT
      · simp only; rw [aux_fm_same _ _ _ _ hw (by simp [pend])]; exact hP
      · exact aux_fin_set _ _ _ _ (fun v p _ h hf => hF v p h hf) (by simp [isFin])
    | yielding a b =>
      simp at hs; obtain ⟨rfl, rfl⟩ := hs
      have hnl : s.lock ≠ some w := by intro h; have := hMw.mpr h; simp [inCS] at this
      have hE : effStart { s with yielded := s.yielded ++ [(w, a, b)], pcs := s.pcs.set w Pc.idle } = effStart s :=
        aux_effStart_congr s _ rfl rfl (by
          intro v hv; exact List.getElem?_set_ne (by intro e; subst e; exact hnl hv))
      refine ⟨?_, ?_, ?_, ?_, ?_, ?_, ?_, ?_⟩
      · exact hholder _ _ (by intro v hv; left; exact hv)
      · exact aux_mutex_set _ s.lock _ _ _ hM (by simp [inCS]; exact hnl) (by intro v hv; rfl)
      · exact aux_readsN_set _ _ _ _ (fun v nd _ h => hRN v nd h) (by intro nd h; cases h)
      · exact aux_readsS_set _ _ _ _ _ (fun v nd st _ h => hRS v nd st h) (by intro nd st h; cases h)
      · rw [hE]; exact hCh
      · rw [hE]; exact hT
      · simp only [slicesOf, List.map_append, List.map_cons, List.map_nil, List.append_assoc, List.singleton_append]
        have := aux_fm_remove s.pcs w _ Pc.idle (a, b) hw (by simp [pend]) (by simp [pend])
        exact (List.Perm.append_left _ this).trans hP
      · exact aux_fin_set _ _ _ _ (fun v p _ h hf => hF v p h hf) (by simp [isFin])
    | retg =>
      simp at hs; obtain ⟨rfl, rfl⟩ := hs
      have hnl : s.lock ≠ some w := by intro h; have := hMw.mpr h; simp [inCS] at this
      have hE : effStart { s with pcs := s.pcs.set w Pc.done } = effStart s :=
        aux_effStart_congr s _ rfl rfl (by
          intro v hv; exact List.getElem?_set_ne (by intro e; subst e; exact hnl hv))
      refine ⟨?_, ?_, ?_, ?_, ?_, ?_, ?_, ?_⟩
      · exact hholder _ _ (by intro v hv; left; exact hv)
      · exact aux_mutex_set _ s.lock _ _ _ hM (by simp [inCS]; exact hnl) (by intro v hv; rfl)
      · exact aux_readsN_set _ _ _ _ (fun v nd _ h => hRN v nd h) (by intro nd h; cases h)
      · exact aux_readsS_set _ _ _ _ _ (fun v nd st _ h => hRS v nd st h) (by intro nd st h; cases h)
      · rw [hE]; exact hCh
      · rw [hE]; exact hT
      · simp only; rw [aux_fm_same _ _ _ _ hw (by simp [pend])]; exact hP
      · exact aux_fin_set _ _ _ _ (fun v p _ h hf => hF v p h hf) (by intro _; exact hF w _ hw rfl)
    | done => simp at hs


theorem run_inv (c : Cfg) (n : Nat) (hc : 1 ≤ c.chunk) :
    ∀ (sched : List Nat) (s : St), Inv n s → Inv n (run c s sched) := by
  intro sched
  induction sched with
  | nil => intro s h; exact h
  | cons w ws ih =>
    intro s h
    unfold run
    cases hs : step c s w with
    | none => exact ih s h
    | some p => obtain ⟨s', e⟩ := p; exact ih s' (step_inv c n s s' w e hc h hs)

/-- **safety**: the invariant holds in every state reachable under any schedule -/
theorem safety (c : Cfg) (n workers : Nat) (hc : 1 ≤ c.chunk) (sched : List Nat) :
    Inv n (run c (init n workers) sched) :=
  run_inv c n hc sched _ (init_inv n workers)

theorem aux_end_le {n : Nat} {s : St} (hI : Inv n s) : (if s.ndata = 0 then n else effStart s) ≤ n := by
  by_cases h : s.ndata = 0
  · simp [h]
  · have := hI.total h; simp [h]; omega

theorem aux_yielded_mem_log {n : Nat} {s : St} (hI : Inv n s) (p : Nat × Nat) (hp : p ∈ slicesOf s.yielded) :
    p ∈ s.log := hI.perm.subset (List.mem_append_left _ hp)

/-- every slice handed out is non-empty and lies inside `[0, n)` -/
theorem inv_yielded_in_range {n : Nat} {s : St} (hI : Inv n s) :
    ∀ e ∈ s.yielded, e.2.1 < e.2.2 ∧ e.2.2 ≤ n := by
  intro e he
  have hm : (e.2.1, e.2.2) ∈ slicesOf s.yielded := List.mem_map.mpr ⟨e, he, rfl⟩
  have := aux_chain_mem _ _ _ hI.chain _ (aux_yielded_mem_log hI _ hm)
  have hle := aux_end_le hI
  simp at this; omega

/-- the slices handed out so far are pairwise disjoint -/
theorem inv_yielded_disjoint {n : Nat} {s : St} (hI : Inv n s) :
    (slicesOf s.yielded).Pairwise (fun p q => p.2 ≤ q.1 ∨ q.2 ≤ p.1) := by
  have h1 : s.log.Pairwise (fun p q => p.2 ≤ q.1 ∨ q.2 ≤ p.1) :=
    (aux_chain_pairwise _ _ _ hI.chain).imp (fun h => Or.inl h)
  have h2 := (hI.perm.pairwise_iff (fun {a b} (h : a.2 ≤ b.1 ∨ b.2 ≤ a.1) => h.symm)).mpr h1
  exact (List.pairwise_append.mp h2).1

/-- when every worker has returned, the slices handed out are exactly a partition of `[0, n)` -/
theorem inv_cover_at_end {n : Nat} {s : St} (hI : Inv n s) (hne : s.pcs ≠ [])
    (hdone : ∀ pc ∈ s.pcs, pc = Pc.done) :
    List.Perm (slicesOf s.yielded) s.log ∧ Chain 0 n s.log ∧
    ∀ i, i < n → ∃ e ∈ s.yielded, e.2.1 ≤ i ∧ i < e.2.2 := by
  have hnd : s.ndata = 0 := by
    cases hp : s.pcs with
    | nil => exact absurd hp hne
    | cons q qs =>
      have hq : s.pcs[0]? = some q := by simp [hp]
      have : q = Pc.done := hdone q (by simp [hp])
      exact hI.fin 0 q hq (by simp [this, isFin])
  have hfm : s.pcs.filterMap pend = [] := by
    apply List.filterMap_eq_nil_iff.mpr
    intro a ha; rw [hdone a ha]; rfl
  have hperm : List.Perm (slicesOf s.yielded) s.log := by
    have := hI.perm; rw [hfm, List.append_nil] at this; exact this
  have hch : Chain 0 n s.log := by have := hI.chain; rw [if_pos hnd] at this; exact this
  refine ⟨hperm, hch, ?_⟩
  intro i hi
  obtain ⟨p, hp, hp2⟩ := aux_chain_cover _ _ _ hch i (Nat.zero_le _) hi
  have : p ∈ slicesOf s.yielded := hperm.symm.subset hp
  obtain ⟨e, he, rfl⟩ := List.mem_map.mp this
  exact ⟨e, he, hp2⟩



/-- no deadlock: unless every worker has returned, some worker can move -/
theorem inv_no_deadlock (c : Cfg) {n : Nat} {s : St} (hI : Inv n s)
    (hnd : ∃ pc ∈ s.pcs, pc ≠ Pc.done) : ∃ w, (step c s w).isSome = true := by
  cases hl : s.lock with
  | some w =>
    obtain ⟨pc, hpc⟩ := hI.holder w hl
    have hcs := (hI.mutex w pc hpc).mpr hl
    refine ⟨w, ?_⟩
    unfold step
    rw [hpc]
    cases pc <;> simp [inCS] at hcs ⊢
    all_goals (repeat' split) <;> simp
  | none =>
    obtain ⟨pc, hmem, hne⟩ := hnd
    obtain ⟨w, hw, hget⟩ := List.getElem_of_mem hmem
    have hpc : s.pcs[w]? = some pc := by rw [List.getElem?_eq_getElem hw, hget]
    have hcs : inCS pc = false := by
      cases h : inCS pc with
      | false => rfl
      | true => have := (hI.mutex w pc hpc).mp h; rw [hl] at this; cases this
    refine ⟨w, ?_⟩
    unfold step
    rw [hpc]
    cases pc <;> simp [inCS] at hcs hne ⊢
    · exact hl



def rank : Pc → Nat
  | .done => 0 | .retg => 1 | .readS _ _ => 2 | .readN _ => 3 | .locked => 4 | .idle => 5
  | .yielding _ _ => 6 | .relY _ _ => 7 | .wroteN _ _ => 8

/-- termination measure: every event strictly decreases it -/
def measure (s : St) : Nat := 10 * s.ndata + (s.pcs.map rank).sum

theorem aux_sum_set : ∀ (pcs : List Pc) (w : Nat) (pc q : Pc), pcs[w]? = some pc →
    ((pcs.set w q).map rank).sum + rank pc = (pcs.map rank).sum + rank q := by
  intro pcs
  induction pcs with
  | nil => intro w pc q h; simp at h
  | cons p ps ih =>
    intro w pc q h
    cases w with
    | zero => simp at h; subst h; simp; omega
    | succ k =>
      simp at h
      have := ih k pc q h
      simp only [List.set_cons_succ, List.map_cons, List.sum_cons]
      omega

theorem step_measure (c : Cfg) (n : Nat) (s s' : St) (w : Nat) (e : Ev) (hc : 1 ≤ c.chunk)
    (hI : Inv n s) (hs : step c s w = some (s', e)) : measure s' < measure s := by
  unfold step at hs
  cases hw : s.pcs[w]? with
  | none => simp [hw] at hs
  | some pc =>
    rw [hw] at hs
    have hsum := fun q => aux_sum_set s.pcs w pc q hw
    cases pc with
    | idle =>
      simp only at hs
      split at hs
      · simp at hs; obtain ⟨rfl, rfl⟩ := hs
        have := hsum Pc.locked; simp [measure, rank] at this ⊢; omega
      · simp at hs
    | locked =>
      simp at hs; obtain ⟨rfl, rfl⟩ := hs
      have := hsum (Pc.readN s.ndata); simp [measure, rank] at this ⊢; omega
    | readN nd =>
      simp at hs; obtain ⟨rfl, rfl⟩ := hs
      have := hsum (Pc.readS nd s.start); simp [measure, rank] at this ⊢; omega
    | readS nd st =>
      obtain ⟨hnd, _⟩ := hI.readsS w nd st hw
      have hpos := aux_chunk_pos c nd hc
      simp only at hs
      split at hs
      · split at hs
        · simp at hs; obtain ⟨rfl, rfl⟩ := hs
          have := hsum (Pc.relY st (st + nd)); simp [measure, rank] at this ⊢; omega
        · simp at hs; obtain ⟨rfl, rfl⟩ := hs
          have := hsum (Pc.wroteN st (st + chunkOf c nd)); simp [measure, rank] at this ⊢; omega
      · simp at hs; obtain ⟨rfl, rfl⟩ := hs
        have := hsum Pc.retg; simp [measure, rank] at this ⊢; omega
    | wroteN a b =>
      simp at hs; obtain ⟨rfl, rfl⟩ := hs
      have := hsum (Pc.relY a b); simp [measure, rank] at this ⊢; omega
    | relY a b =>
      simp at hs; obtain ⟨rfl, rfl⟩ := hs
      have := hsum (Pc.yielding a b); simp [measure, rank] at this ⊢; omega
    | yielding a b =>
      simp at hs; obtain ⟨rfl, rfl⟩ := hs
      have := hsum Pc.idle; simp [measure, rank] at this ⊢; omega
    | retg =>
      simp at hs; obtain ⟨rfl, rfl⟩ := hs
      have := hsum Pc.done; simp [measure, rank] at this ⊢; omega
    | done => simp at hs

/-- number of events that actually happen along a schedule -/
def enabledCount (c : Cfg) (s : St) : List Nat → Nat
  | [] => 0
  | w :: ws =>
    match step c s w with
    | none => enabledCount c s ws
    | some (s', _) => enabledCount c s' ws + 1

theorem aux_count_le (c : Cfg) (n : Nat) (hc : 1 ≤ c.chunk) :
    ∀ (sched : List Nat) (s : St), Inv n s → enabledCount c s sched ≤ measure s := by
  intro sched
  induction sched with
  | nil => intro s _; simp [enabledCount]
  | cons w ws ih =>
    intro s h
    unfold enabledCount
    cases hs : step c s w with
    | none => exact ih s h
    | some p =>
      obtain ⟨s', e⟩ := p
      have h1 := ih s' (step_inv c n s s' w e hc h hs)
      have h2 := step_measure c n s s' w e hc h hs
      simp only; omega

theorem aux_measure_init (n workers : Nat) : measure (init n workers) = 10 * n + 5 * workers := by
  have : ((List.replicate workers Pc.idle).map rank).sum = 5 * workers := by
    induction workers with
    | zero => rfl
    | succ k ih => simp only [List.replicate_succ, List.map_cons, List.sum_cons, ih, rank]; omega
  simp only [measure, init, this]

/-- **bounded progress**: under any schedule at most `10 n + 5 W` events ever happen, so every
worker's iteration terminates (together with `inv_no_deadlock`: every maximal execution ends
with all workers returned). -/
theorem steps_bounded (c : Cfg) (n workers : Nat) (hc : 1 ≤ c.chunk) (sched : List Nat) :
    enabledCount c (init n workers) sched ≤ 10 * n + 5 * workers := by
  have := aux_count_le c n hc sched _ (init_inv n workers)
  rw [aux_measure_init] at this; exact this

/-- `Scheduler.__init__` always stores a chunk ≥ 1 -/
theorem initChunk_pos (k : Kind) (ndata nprocs : Nat) (ca : Int) : 1 ≤ initChunk k ndata nprocs ca := by
  unfold initChunk
  cases k <;> simp <;> omega



theorem aux_writeAt_length {β} (res : List β) (a : Nat) (vals : List β) (h : a + vals.length ≤ res.length) :
    (writeAt res a vals).length = res.length := by
  simp [writeAt]; omega

theorem aux_writeAt_get {β} (res : List β) (a : Nat) (vals : List β) (i : Nat)
    (h : a + vals.length ≤ res.length) :
    (writeAt res a vals)[i]? = if a ≤ i ∧ i < a + vals.length then vals[i - a]? else res[i]? := by
  unfold writeAt
  have hlt : (res.take a).length = a := by simp; omega
  by_cases h1 : i < a
  · rw [List.append_assoc, List.getElem?_append_left (by omega)]
    simp [h1]; omega
  · rw [List.append_assoc, List.getElem?_append_right (by omega), hlt]
    by_cases h2 : i < a + vals.length
    · rw [List.getElem?_append_left (by omega)]
      simp [h2]; omega
    · rw [List.getElem?_append_right (by omega)]
      simp [List.getElem?_drop, h2]
      congr 1; omega

theorem aux_vals_get {α β} (f : α → β) (x : List α) (a b i : Nat) (_hb : b ≤ x.length) (h1 : a ≤ i) (h2 : i < b) :
    (((x.drop a).take (b - a)).map f)[i - a]? = (x.map f)[i]? := by
  simp [List.getElem?_map, List.getElem?_take, List.getElem?_drop]
  have : i - a < b - a := by omega
  simp [this]
  congr 2; omega

theorem aux_assemble {α β} (f : α → β) (x : List α) (n : Nat) (hx : x.length = n) :
    ∀ (slices : List (Nat × Nat)) (res : List β) (good : Nat → Prop), res.length = n →
      (∀ p ∈ slices, p.1 ≤ p.2 ∧ p.2 ≤ n) → (∀ i, good i → res[i]? = (x.map f)[i]?) →
      (assemble f x slices res).length = n ∧
      ∀ i, (good i ∨ ∃ p ∈ slices, p.1 ≤ i ∧ i < p.2) → (assemble f x slices res)[i]? = (x.map f)[i]? := by
  intro slices
  induction slices with
  | nil =>
    intro res good hr _ hg
    refine ⟨hr, ?_⟩
    intro i hi
    rcases hi with hi | ⟨p, hp, _⟩
    · exact hg i hi
    · simp at hp
  | cons p ps ih =>
    intro res good hr hs hg
    have hp := hs p List.mem_cons_self
    have hvl : (((x.drop p.1).take (p.2 - p.1)).map f).length = p.2 - p.1 := by
      simp; omega
    have hfit : p.1 + (((x.drop p.1).take (p.2 - p.1)).map f).length ≤ res.length := by rw [hvl]; omega
    have := ih (writeAt res p.1 (((x.drop p.1).take (p.2 - p.1)).map f))
      (fun i => good i ∨ (p.1 ≤ i ∧ i < p.2))
      (by rw [aux_writeAt_length _ _ _ hfit]; exact hr)
      (fun q hq => hs q (List.mem_cons_of_mem _ hq))
      (by
        intro i hi
        rw [aux_writeAt_get _ _ _ _ hfit, hvl]
        by_cases hin : p.1 ≤ i ∧ i < p.1 + (p.2 - p.1)
        · rw [if_pos hin]; exact aux_vals_get f x p.1 p.2 i (by omega) hin.1 (by omega)
        · rw [if_neg hin]
          rcases hi with hi | hi
          · exact hg i hi
          · exact absurd ⟨hi.1, by omega⟩ hin)
    refine ⟨this.1, ?_⟩
    intro i hi
    apply this.2
    rcases hi with hi | ⟨q, hq, hq2⟩
    · exact Or.inl (Or.inl hi)
    · rcases List.mem_cons.mp hq with rfl | hq
      · exact Or.inl (Or.inr hq2)
      · exact Or.inr ⟨q, hq, hq2⟩

/-- **result assembly**: if the slices handed out (in any order) are a permutation of a partition
of `[0, n)`, then writing `f(x[s])` into `res[s]` for each of them yields `map f x`, whatever the
previous content of `res`. -/
theorem mp_assemble {α β} (f : α → β) (x : List α) (res : List β) (slices log : List (Nat × Nat))
    (hr : res.length = x.length) (hperm : List.Perm slices log) (hch : Chain 0 x.length log) :
    assemble f x slices res = x.map f := by
  have hs : ∀ p ∈ slices, p.1 ≤ p.2 ∧ p.2 ≤ x.length := by
    intro p hp
    have := aux_chain_mem _ _ _ hch p (hperm.subset hp)
    omega
  obtain ⟨hl, hget⟩ := aux_assemble f x x.length rfl slices res (fun _ => False) hr hs (by intro i h; exact h.elim)
  apply List.ext_getElem?
  intro i
  by_cases hi : i < x.length
  · obtain ⟨p, hp, hp2⟩ := aux_chain_cover _ _ _ hch i (Nat.zero_le _) hi
    exact hget i (Or.inr ⟨p, hperm.symm.subset hp, hp2⟩)
  · rw [List.getElem?_eq_none (by omega), List.getElem?_eq_none (by simp; omega)]

/-- **C15, summary**: for every `n`, worker count `W ≥ 1`, chunk ≥ 1, schedule kind and every
interleaving: once all workers have returned, the slices they were handed are non-empty, inside
`[0, n)`, pairwise disjoint, cover `[0, n)`, and assembling per-slice results gives the
single-process result. -/
theorem scheduler_exact_cover {α β} (c : Cfg) (n workers : Nat) (hc : 1 ≤ c.chunk) (hW : 0 < workers)
    (sched : List Nat) (hdone : ∀ pc ∈ (run c (init n workers) sched).pcs, pc = Pc.done)
    (f : α → β) (x : List α) (hx : x.length = n) (res : List β) (hr : res.length = n) :
    let s := run c (init n workers) sched
    (∀ e ∈ s.yielded, e.2.1 < e.2.2 ∧ e.2.2 ≤ n) ∧
    (slicesOf s.yielded).Pairwise (fun p q => p.2 ≤ q.1 ∨ q.2 ≤ p.1) ∧
    (∀ i, i < n → ∃ e ∈ s.yielded, e.2.1 ≤ i ∧ i < e.2.2) ∧
    assemble f x (slicesOf s.yielded) res = x.map f := by
  intro s
  have hI : Inv n s := safety c n workers hc sched
  have hlen : ∀ (sched : List Nat) (s0 : St), (run c s0 sched).pcs.length = s0.pcs.length := by
    intro sched
    induction sched with
    | nil => intro s0; rfl
    | cons w ws ih =>
      intro s0
      unfold run
      cases hs : step c s0 w with
      | none => exact ih s0
      | some p =>
        obtain ⟨s1, e⟩ := p
        simp only
        rw [ih s1]
        unfold step at hs
        cases hw : s0.pcs[w]? with
        | none => simp [hw] at hs
        | some pc =>
          rw [hw] at hs
          cases pc <;> simp only at hs <;> (repeat' split at hs) <;> simp at hs <;>
            (obtain ⟨rfl, _⟩ := hs; simp)
  have hne : s.pcs ≠ [] := by
    intro h
    have := hlen sched (init n workers)
    rw [show (run c (init n workers) sched) = s from rfl, h] at this
    simp [init] at this; omega
  obtain ⟨hperm, hch, hcov⟩ := inv_cover_at_end hI hne hdone
  refine ⟨inv_yielded_in_range hI, inv_yielded_disjoint hI, hcov, ?_⟩
  subst hx
  exact mp_assemble f x res _ _ hr hperm hch


/-! ### non-vacuity: a concrete interleaving of two workers that runs to completion -/

def demoSched : List Nat := (List.range 90).map (· % 2)

example : ∀ pc ∈ (run ⟨.dynamic, 2, 2⟩ (init 5 2) demoSched).pcs, pc = Pc.done := by decide

example : slicesOf (run ⟨.dynamic, 2, 2⟩ (init 5 2) demoSched).yielded = [(0, 2), (2, 4), (4, 5)] := by decide

example : 1 ≤ (⟨.dynamic, 2, 2⟩ : Cfg).chunk := by decide

end PyresampleModel.C15
