import PyresampleModel.Model.C01

/-
  C01 — property theorems (stub: none yet).
-/
namespace PyresampleModel.C01

end PyresampleModel.C01
