import PyresampleModel.Model.C01
import PyresampleModel.Props.C18

/-
  C01 — property theorems: one grid map behind every accessor.
-/
namespace PyresampleModel.C01
open PyresampleModel.Grid PyresampleModel.C18

/-- **the grid**: column `c` is centred at `xmin + (c + 1/2)·dx`, row `r` at `ymax - (r + 1/2)·dy`
(also for fractional array coordinates) -/
theorem proj_centre (g : Grid) (c r : Rat) :
    g.projX c = g.x0 + (c + 1/2) * g.dx ∧ g.projY r = g.y1 - (r + 1/2) * g.dy := by
  constructor
  · simp only [Grid.projX, Grid.uplx]; ring
  · simp only [Grid.projY, Grid.uply]; ring

/-- **array ↔ projection conversions are mutual inverses** (non-degenerate pixel sizes) -/
theorem arr_proj_inverse (g : Grid) (hx : g.dx ≠ 0) (hy : g.dy ≠ 0) (c r x y : Rat) :
    g.arrX (g.projX c) = c ∧ g.projX (g.arrX x) = x ∧ g.arrY (g.projY r) = r ∧ g.projY (g.arrY y) = y := by
  refine ⟨?_, ?_, ?_, ?_⟩
  · simp only [Grid.arrX, Grid.projX]; field_simp; ring
  · simp only [Grid.arrX, Grid.projX]; field_simp; ring
  · simp only [Grid.arrY, Grid.projY]; field_simp; ring
  · simp only [Grid.arrY, Grid.projY]; field_simp; ring

/-- the 1-D vectors hold the centre coordinates of every column / row -/
theorem vectors_get (g : Grid) (c r : Nat) (hc : c < g.w) (hr : r < g.h) :
    (xvec g)[c]? = some (g.x0 + ((c : Rat) + 1/2) * g.dx) ∧ (yvec g)[r]? = some (g.y1 - ((r : Rat) + 1/2) * g.dy) := by
  simp only [xvec, yvec, List.getElem?_map, List.getElem?_range hc, List.getElem?_range hr, Option.map_some,
    (proj_centre g c r).1, (proj_centre g c r).2, and_self]

/-- **all pixel → lon/lat accessors are the same map**, whatever the inverse projection is -/
theorem lonlat_accessors_agree {β} (inv : Rat × Rat → β) (g : Grid) (r c : Nat) (hc : c < g.w) (hr : r < g.h) :
    getLonlat inv g r c = inv (g.x0 + ((c : Rat) + 1/2) * g.dx, g.y1 - ((r : Rat) + 1/2) * g.dy) ∧
    colrow2lonlat inv g c r = some (getLonlat inv g r c) ∧
    lonlatFromArrayCoords inv g c r = getLonlat inv g r c := by
  obtain ⟨hx, hy⟩ := vectors_get g c r hc hr
  refine ⟨?_, ?_, rfl⟩
  · simp only [getLonlat, (proj_centre g c r).1, (proj_centre g c r).2]
  · simp only [colrow2lonlat, hx, hy, getLonlat, (proj_centre g c r).1, (proj_centre g c r).2]

/-! ### dask blocks -/

theorem aux_axis_flat : ∀ (chunks : List Nat) (off : Nat),
    (axisSlices chunks off).flatMap (fun s => List.range' s.1 (s.2 - s.1)) = List.range' off chunks.sum := by
  intro chunks
  induction chunks with
  | nil => intro off; simp [axisSlices]
  | cons c cs ih =>
    intro off
    simp only [axisSlices, List.flatMap_cons, ih, List.sum_cons]
    have : off + c - off = c := by omega
    rw [this, ← List.range'_append_1]

theorem aux_hstack_row (g : Grid) (r0 r1 : Nat) (colSl : List (Nat × Nat)) :
    hstack (r1 - r0) (colSl.map (fun cs => genBlock g r0 r1 cs.1 cs.2)) =
      (List.range' r0 (r1 - r0)).map (fun (r : Nat) =>
        (colSl.flatMap (fun cs => List.range' cs.1 (cs.2 - cs.1))).map (fun (c : Nat) => (g.projX (c : Rat), g.projY (r : Rat)))) := by
  apply List.ext_getElem?
  intro i
  simp only [hstack, List.getElem?_map, List.flatMap_map]
  by_cases hi : i < r1 - r0
  · rw [List.getElem?_range hi, List.getElem?_range' hi]
    simp only [Option.map_some, Option.some.injEq, List.map_flatMap]
    apply List.flatMap_congr
    intro cs _
    simp only [genBlock, List.getD_eq_getElem?_getD, List.getElem?_map, List.getElem?_range' hi, Option.map_some,
      Option.getD_some]
  · rw [List.getElem?_eq_none (by simp; omega), List.getElem?_eq_none (by simp; omega)]; rfl

/-- **chunking is invisible**: for every partition of the rows and of the columns into dask chunks
(any number, any sizes, ragged or single-element), the per-block generated coordinates assembled in
order equal the coordinates of the whole area -/
theorem blocks_assemble (g : Grid) (rowChunks colChunks : List Nat)
    (hr : rowChunks.sum = g.h) (hc : colChunks.sum = g.w) :
    assembleBlocks g rowChunks colChunks = coords2d g := by
  simp only [assembleBlocks, aux_hstack_row, aux_axis_flat colChunks 0, hc]
  have : ∀ (f : Nat → List (Rat × Rat)),
      (axisSlices rowChunks 0).flatMap (fun rs => (List.range' rs.1 (rs.2 - rs.1)).map f) =
        (List.range' 0 rowChunks.sum).map f := by
    intro f
    rw [← aux_axis_flat rowChunks 0, List.map_flatMap]
  rw [this, hr]
  simp only [coords2d, xvec, yvec, List.map_map, List.range_eq_range']
  rfl

/-- **data_slice commutes**: coordinates computed for a slice are that slice of the whole array -/
theorem slice_commutes (g : Grid) (ys xs : PySlice) :
    coordsSliced g ys xs = (ys.apply (coords2d g)).map (fun row => xs.apply row) := by
  simp only [coordsSliced, coords2d, PySlice.apply, List.length_map, List.map_drop, List.map_take, List.map_map]
  congr 2
  apply List.map_congr_left
  intro y _
  simp [Function.comp]

/-! ### integer index lookups (shared with C18) -/

/-- the returned pixel contains the point (points inside the closed extent) -/
theorem index_contains {g : Grid} (hg : WF g) (x y : Rat) (r c : Nat)
    (hx0 : g.x0 ≤ x) (hx1 : x ≤ g.x1) (hy0 : g.y0 ≤ y) (hy1 : y ≤ g.y1)
    (h : areaCell g x y = some (r, c)) :
    c < g.w ∧ r < g.h ∧ g.x0 + c * g.dx ≤ x ∧ x ≤ g.x0 + (c + 1) * g.dx ∧
    g.y1 - (r + 1) * g.dy ≤ y ∧ y ≤ g.y1 - r * g.dy :=
  area_some_contains hg x y r c hx0 hx1 hy0 hy1 h

/-- arrays mask, scalars reject, every point beyond the documented 0.02-pixel edge tolerance -/
theorem outside_masked_and_rejected {g : Grid} (hg : WF g) (x y : Rat)
    (h : x < g.x0 - 2/100 * g.dx ∨ g.x1 + 2/100 * g.dx < x ∨ y < g.y0 - 2/100 * g.dy ∨ g.y1 + 2/100 * g.dy < y) :
    areaCell g x y = none ∧ scalarLookup g x y = none := by
  have h1 := area_none_outside hg x y h
  refine ⟨h1, ?_⟩
  rw [areaCell_def] at h1
  simp only [scalarLookup]
  by_cases hm : ((maskedInt (g.arrY y) g.h).1 || (maskedInt (g.arrX x) g.w).1) = true
  · have : ((maskedInt (g.arrX x) g.w).1 || (maskedInt (g.arrY y) g.h).1) = true := by
      rw [Bool.or_comm]; exact hm
    rw [if_pos this]
  · rw [if_neg hm] at h1; cases h1

/-- the scalar lookup rejects exactly when the array lookup masks -/
theorem scalar_rejects_iff_masked (g : Grid) (x y : Rat) :
    scalarLookup g x y = none ↔ areaCell g x y = none := by
  rw [areaCell_def]
  simp only [scalarLookup]
  rw [Bool.or_comm]
  by_cases hm : ((maskedInt (g.arrY y) g.h).1 || (maskedInt (g.arrX x) g.w).1) = true
  · simp [hm]
  · simp [hm]

example : assembleBlocks ⟨0, 0, 4, 2, 4, 2⟩ [1, 1] [3, 1] = coords2d ⟨0, 0, 4, 2, 4, 2⟩ := by decide +kernel

end PyresampleModel.C01
