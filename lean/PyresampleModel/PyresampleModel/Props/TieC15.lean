import PyresampleModel.Gen.Src
import PyresampleModel.Model.C15
import PyresampleModel.Proofs.Num

/-
  Tie theorems, C15: `Scheduler.__init__` (the value stored in `self._chunk`) and one pass of the `while True` body of
  `Scheduler.__iter__` (from after `acquire` to the `yield` / `return`; reads and writes of `_ndata.value` /
  `_start.value` as variables), both as translated from /repo's current source, equal what the hand-written small-step
  model does: `initChunk`, and the decision `critical` that the model's `step` function realises between taking and
  releasing the lock (`critical_steps`).  The ORDER of the lock operations relative to the reads, writes and the yield
  is not in the translation (calls on `self._lock` are skipped); it is checked on the real code's event trace by the
  thread controller of the C15 harness.
-/
namespace PyresampleModel.Tie
open PyresampleModel

def kindStr : C15.Kind → String
  | .guided => "guided" | .dynamic => "dynamic" | .static => "static"

theorem fdiv_nat (a b : Nat) : Int.fdiv (a : Int) (b : Int) = ((a / b : Nat) : Int) := by
  rw [Int.fdiv_eq_ediv_of_nonneg _ (Int.natCast_nonneg b)]; simp

theorem fdiv_nat10 (a b : Nat) : Int.fdiv (a : Int) (10 * (b : Int)) = ((a / (10 * b) : Nat) : Int) := by
  have := fdiv_nat a (10 * b); push_cast at this; simpa using this

theorem tie_scheduler_init (k : C15.Kind) (ndata nprocs : Nat) (chunk : Option Int) :
    Gen.scheduler_init ndata nprocs chunk (kindStr k) =
      some ((C15.initChunk k ndata nprocs (chunk.getD 0) : Nat) : Int) := by
  cases k <;> cases chunk <;>
    simp only [Gen.scheduler_init, kindStr, C15.initChunk, Gen.pyMaxI, fdiv_nat, fdiv_nat10, Option.getD] <;>
    simp <;> (try split) <;> (try split) <;> (simp only [max_def, Option.some.injEq]) <;> (try split) <;> omega


/-- an unknown schedule name raises (`none`) -/
theorem tie_scheduler_init_invalid (ndata nprocs : Int) (chunk : Option Int) (s : String)
    (h1 : s ≠ "guided") (h2 : s ≠ "dynamic") (h3 : s ≠ "static") :
    Gen.scheduler_init ndata nprocs chunk s = none := by
  simp [Gen.scheduler_init, h1, h2, h3]

/-- one pass through the critical section of `Scheduler.__iter__`, as the model's `step` takes it
(the `readS` decision): (slice handed out, new `_ndata`, new `_start`) -/
def critical (c : C15.Cfg) (nd st : Nat) : Option (Nat × Nat) × Nat × Nat :=
  if nd ≠ 0 then
    if C15.chunkOf c nd > nd then (some (st, st + nd), 0, st)
    else (some (st, st + C15.chunkOf c nd), nd - C15.chunkOf c nd, st + C15.chunkOf c nd)
  else (none, nd, st)

/-- number of model events between "holds the lock" and "has released it" -/
def passLen (c : C15.Cfg) (nd : Nat) : Nat :=
  if nd = 0 then 3 else if C15.chunkOf c nd > nd then 4 else 5

theorem run_cons (c : C15.Cfg) (s s' : C15.St) (e : C15.Ev) (w : Nat) (ws : List Nat)
    (h : C15.step c s w = some (s', e)) : C15.run c s (w :: ws) = C15.run c s' ws := by
  simp [C15.run, h]

theorem pcs_set_get (s : C15.St) (w : Nat) (p : C15.Pc) (hw : w < s.pcs.length) :
    (s.pcs.set w p)[w]? = some p := by simp [hw]

/-- the model's small steps from `locked` to the release realise exactly `critical` -/
theorem critical_steps (c : C15.Cfg) (s : C15.St) (w : Nat) (h : s.pcs[w]? = some .locked) :
    let s' := C15.run c s (List.replicate (passLen c s.ndata) w)
    let r := critical c s.ndata s.start
    s'.ndata = r.2.1 ∧ s'.start = r.2.2 ∧ s'.lock = none ∧
    s'.pcs[w]? = some (match r.1 with | some (a, b) => .yielding a b | none => .retg) := by
  have hw : w < s.pcs.length := by
    rcases Nat.lt_or_ge w s.pcs.length with h' | h'
    · exact h'
    · rw [List.getElem?_eq_none h'] at h; cases h
  -- first two events: read `_ndata`, read `_start`
  have e1 : C15.step c s w = some ({ s with pcs := s.pcs.set w (.readN s.ndata) }, .rdN s.ndata) := by
    unfold C15.step; rw [h]
  let s1 : C15.St := { s with pcs := s.pcs.set w (.readN s.ndata) }
  have h1 : s1.pcs[w]? = some (.readN s.ndata) := pcs_set_get s w _ hw
  have e2 : C15.step c s1 w = some ({ s1 with pcs := s1.pcs.set w (.readS s.ndata s.start) }, .rdS s.start) := by
    unfold C15.step; rw [h1]
  let s2 : C15.St := { s1 with pcs := s1.pcs.set w (.readS s.ndata s.start) }
  have hw1 : w < s1.pcs.length := by simp [s1, hw]
  have h2 : s2.pcs[w]? = some (.readS s.ndata s.start) := pcs_set_get s1 w _ hw1
  have hw2 : w < s2.pcs.length := by simp [s2, s1, hw]
  by_cases h0 : s.ndata = 0
  · have e3 : C15.step c s2 w = some ({ s2 with lock := none, pcs := s2.pcs.set w .retg }, .rel) := by
      unfold C15.step; rw [h2]; simp [h0]
    have : passLen c s.ndata = 3 := by simp [passLen, h0]
    rw [this]
    simp only [List.replicate]
    rw [run_cons c s _ _ w _ e1, run_cons c s1 _ _ w _ e2, run_cons c s2 _ _ w _ e3]
    simp [C15.run, critical, h0, s2, s1, hw]
  · by_cases hc : C15.chunkOf c s.ndata > s.ndata
    · let s3 : C15.St := { s2 with
          ndata := 0
          pcs := s2.pcs.set w (.relY s.start (s.start + s.ndata))
          log := s2.log ++ [(s.start, s.start + s.ndata)] }
      have e3 : C15.step c s2 w = some (s3, .wrN 0) := by
        unfold C15.step; rw [h2]; simp [h0, hc, s3, s2, s1]
      have h3 : s3.pcs[w]? = some (.relY s.start (s.start + s.ndata)) := pcs_set_get s2 w _ hw2
      let s4 : C15.St := { s3 with lock := none, pcs := s3.pcs.set w (.yielding s.start (s.start + s.ndata)) }
      have e4 : C15.step c s3 w = some (s4, .rel) := by
        unfold C15.step; rw [h3]
      have : passLen c s.ndata = 4 := by simp [passLen, h0, hc]
      rw [this]
      simp only [List.replicate]
      rw [run_cons c s _ _ w _ e1, run_cons c s1 _ _ w _ e2, run_cons c s2 _ _ w _ e3, run_cons c s3 _ _ w _ e4]
      simp [C15.run, critical, h0, hc, s4, s3, s2, s1, hw]
    · let s3 : C15.St := { s2 with
          ndata := s.ndata - C15.chunkOf c s.ndata
          pcs := s2.pcs.set w (.wroteN s.start (s.start + C15.chunkOf c s.ndata))
          log := s2.log ++ [(s.start, s.start + C15.chunkOf c s.ndata)] }
      have e3 : C15.step c s2 w = some (s3, .wrN (s.ndata - C15.chunkOf c s.ndata)) := by
        unfold C15.step; rw [h2]; simp [h0, hc, s3, s2, s1]
      have h3 : s3.pcs[w]? = some (.wroteN s.start (s.start + C15.chunkOf c s.ndata)) := pcs_set_get s2 w _ hw2
      have hw3 : w < s3.pcs.length := by simp [s3, s2, s1, hw]
      let s4 : C15.St := { s3 with
          start := s.start + C15.chunkOf c s.ndata
          pcs := s3.pcs.set w (.relY s.start (s.start + C15.chunkOf c s.ndata)) }
      have e4 : C15.step c s3 w = some (s4, .wrS (s.start + C15.chunkOf c s.ndata)) := by
        unfold C15.step; rw [h3]
      have h4 : s4.pcs[w]? = some (.relY s.start (s.start + C15.chunkOf c s.ndata)) := pcs_set_get s3 w _ hw3
      let s5 : C15.St := { s4 with lock := none, pcs := s4.pcs.set w (.yielding s.start (s.start + C15.chunkOf c s.ndata)) }
      have e5 : C15.step c s4 w = some (s5, .rel) := by
        unfold C15.step; rw [h4]
      have : passLen c s.ndata = 5 := by simp [passLen, h0, hc]
      rw [this]
      simp only [List.replicate]
      rw [run_cons c s _ _ w _ e1, run_cons c s1 _ _ w _ e2, run_cons c s2 _ _ w _ e3, run_cons c s3 _ _ w _ e4,
        run_cons c s4 _ _ w _ e5]
      simp [C15.run, critical, h0, hc, s5, s4, s3, s2, s1, hw]


theorem tie_scheduler_iter_body (c : C15.Cfg) (nd st : Nat) :
    Gen.scheduler_iter_body nd st c.nprocs c.chunk (kindStr c.kind) =
      ((critical c nd st).1.map (fun p => (⟨(p.1 : Int), (p.2 : Int), none⟩ : Gen.PySl Int)),
       ((critical c nd st).2.1 : Int), ((critical c nd st).2.2 : Int)) := by
  obtain ⟨k, ch, np⟩ := c
  cases k <;>
    simp only [Gen.scheduler_iter_body, kindStr, critical, C15.chunkOf, Gen.pyMaxI, fdiv_nat] <;>
    (by_cases h0 : nd = 0 <;> simp [h0] <;> split_ifs <;> simp_all [max_def] <;> (try split_ifs) <;> (try omega))


end PyresampleModel.Tie
