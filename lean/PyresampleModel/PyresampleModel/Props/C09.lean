import PyresampleModel.Model.C09

/-
  C09 — property theorems (stub: none yet).
-/
namespace PyresampleModel.C09

end PyresampleModel.C09
