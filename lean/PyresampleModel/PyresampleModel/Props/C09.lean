import PyresampleModel.Model.C09
import PyresampleModel.Proofs.Num

/-
  C09 — property theorems: gradient search on an area source in its own CRS finds the exact
  fractional source position of every target pixel inside the source grid, emits nothing outside,
  and nn / bilinear read the pixels that position implies; the block decomposition's local-index
  arithmetic does not move the chosen pixel.
-/
namespace PyresampleModel.C09

/-- the exact fractional source line / pixel of a target position, for an area source in its own CRS -/
def exactL (y0 dy Y : Rat) : Rat := (y0 - Y) / dy
def exactP (x0 dx X : Rat) : Rat := (X - x0) / dx

/-- **one Newton step on an area source is exact**: from any current pixel (l0, p0) the step lands on
the exact fractional position -/
theorem step_exact (x0 y0 dx dy X Y : Rat) (hdx : dx ≠ 0) (hdy : dy ≠ 0) (l0 p0 : Int) :
    let f := affine x0 y0 dx dy
    let ddx := X - f.sx l0 p0
    let ddy := Y - f.sy l0 p0
    let d := f.yl l0 p0 * f.xp l0 p0 - f.yp l0 p0 * f.xl l0 p0
    d ≠ 0 ∧
    (f.xp l0 p0 * ddy - f.yp l0 p0 * ddx) / d + l0 = exactL y0 dy Y ∧
    (f.yl l0 p0 * ddx - f.xl l0 p0 * ddy) / d + p0 = exactP x0 dx X := by
  simp only [affine, exactL, exactP]
  refine ⟨?_, ?_, ?_⟩
  · simp; exact ⟨hdy, hdx⟩
  · field_simp; ring
  · field_simp; ring

/-- **soundness of the search**: whatever the start pixel, the carried-over state and the number of
iterations, a position is emitted only for targets inside the source grid, and it is the exact one -/
theorem search_sound (x0 y0 dx dy X Y : Rat) (hdx : dx ≠ 0) (hdy : dy ≠ 0) (lmax pmax : Int) :
    ∀ (fuel : Nat) (cur last : Int × Int) (r : Found),
      (searchLoop (affine x0 y0 dx dy) lmax pmax X Y fuel cur last).1 = some r →
      indicesXY r = (exactP x0 dx X, exactL y0 dy Y) ∧
      0 ≤ exactL y0 dy Y ∧ exactL y0 dy Y ≤ lmax ∧ 0 ≤ exactP x0 dx X ∧ exactP x0 dx X ≤ pmax := by
  intro fuel
  induction fuel with
  | zero => intro cur last r h; simp [searchLoop] at h
  | succ n ih =>
    intro cur last r h
    obtain ⟨l0, p0⟩ := cur
    obtain ⟨hd, hL, hP⟩ := step_exact x0 y0 dx dy X Y hdx hdy l0 p0
    try simp only at hd hL hP
    unfold searchLoop at h
    split at h
    · simp only at h
      rw [if_neg hd] at h
      split at h
      · split at h
        · rename_i hemit
          simp only [Option.some.injEq] at h
          subst h
          simp only [indicesXY]
          rw [hL, hP] at hemit
          exact ⟨by rw [hL, hP], hemit.1, hemit.2.1, hemit.2.2.1, hemit.2.2.2⟩
        · simp at h
      · exact ih _ _ r h
    · exact ih _ _ r h

theorem aux_trunc_range (L : Rat) (lmax : Int) (h0 : 0 ≤ L) (h1 : L ≤ lmax) :
    0 ≤ pyTrunc L ∧ pyTrunc L ≤ lmax ∧ 0 ≤ L - pyTrunc L ∧ L - pyTrunc L < 1 := by
  rw [pyTrunc_of_nonneg h0]
  have a := pyFloor_le L
  have b := lt_pyFloor_add_one L
  refine ⟨pyFloor_nonneg.mpr h0, ?_, by linarith, by linarith⟩
  have : ((pyFloor L : Int) : Rat) ≤ (lmax : Rat) := by linarith
  exact_mod_cast this

theorem aux_abs_lt_one (q : Rat) (h0 : 0 ≤ q) (h1 : q < 1) : absQ q < 1 := by
  simp [absQ, h0, h1]

/-- **completeness**: for a target position inside the source grid (the hull of the pixel centres) and
any in-range start pixel, the search emits the exact position within its first two iterations -/
theorem search_complete (x0 y0 dx dy X Y : Rat) (hdx : dx ≠ 0) (hdy : dy ≠ 0) (lmax pmax : Int)
    (hL0 : 0 ≤ exactL y0 dy Y) (hL1 : exactL y0 dy Y ≤ lmax) (hP0 : 0 ≤ exactP x0 dx X) (hP1 : exactP x0 dx X ≤ pmax)
    (fuel : Nat) (l0 p0 : Int) (last : Int × Int)
    (hl : 0 ≤ l0 ∧ l0 ≤ lmax) (hp : 0 ≤ p0 ∧ p0 ≤ pmax) :
    ∃ r, (searchLoop (affine x0 y0 dx dy) lmax pmax X Y (fuel + 2) (l0, p0) last).1 = some r ∧
      indicesXY r = (exactP x0 dx X, exactL y0 dy Y) := by
  obtain ⟨hd, hL, hP⟩ := step_exact x0 y0 dx dy X Y hdx hdy l0 p0
  try simp only at hd hL hP
  -- accepted iterations emit, because the position is inside
  have accept : ∀ (n : Nat) (l p : Int) (lst : Int × Int), 0 ≤ l ∧ l ≤ lmax → 0 ≤ p ∧ p ≤ pmax →
      absQ (exactP x0 dx X - p) < 1 ∧ absQ (exactL y0 dy Y - l) < 1 →
      ∃ r, (searchLoop (affine x0 y0 dx dy) lmax pmax X Y (n + 1) (l, p) lst).1 = some r ∧
        indicesXY r = (exactP x0 dx X, exactL y0 dy Y) := by
    intro n l p lst hl' hp' hacc
    obtain ⟨hd', hL', hP'⟩ := step_exact x0 y0 dx dy X Y hdx hdy l p
    try simp only at hd' hL' hP'
    unfold searchLoop
    rw [if_pos ⟨hl'.1, hl'.2, hp'.1, hp'.2⟩]
    simp only
    rw [if_neg hd']
    have e1 : ((affine x0 y0 dx dy).yl l p * (X - (affine x0 y0 dx dy).sx l p) - (affine x0 y0 dx dy).xl l p * (Y - (affine x0 y0 dx dy).sy l p)) /
        ((affine x0 y0 dx dy).yl l p * (affine x0 y0 dx dy).xp l p - (affine x0 y0 dx dy).yp l p * (affine x0 y0 dx dy).xl l p) = exactP x0 dx X - p := by
      linarith
    have e2 : ((affine x0 y0 dx dy).xp l p * (Y - (affine x0 y0 dx dy).sy l p) - (affine x0 y0 dx dy).yp l p * (X - (affine x0 y0 dx dy).sx l p)) /
        ((affine x0 y0 dx dy).yl l p * (affine x0 y0 dx dy).xp l p - (affine x0 y0 dx dy).yp l p * (affine x0 y0 dx dy).xl l p) = exactL y0 dy Y - l := by
      linarith
    rw [e1, e2, if_pos hacc]
    have hem : 0 ≤ exactL y0 dy Y - l + l ∧ exactL y0 dy Y - l + l ≤ lmax ∧ 0 ≤ exactP x0 dx X - p + p ∧ exactP x0 dx X - p + p ≤ pmax := by
      refine ⟨by linarith, by linarith, by linarith, by linarith⟩
    rw [if_pos hem]
    exact ⟨_, rfl, by simp [indicesXY]⟩
  by_cases hacc : absQ (exactP x0 dx X - p0) < 1 ∧ absQ (exactL y0 dy Y - l0) < 1
  · exact accept (fuel + 1) l0 p0 last hl hp hacc
  · -- first iteration moves to (trunc L, trunc P), which is in range and accepted
    unfold searchLoop
    rw [if_pos ⟨hl.1, hl.2, hp.1, hp.2⟩]
    simp only
    rw [if_neg hd]
    have e1 : ((affine x0 y0 dx dy).yl l0 p0 * (X - (affine x0 y0 dx dy).sx l0 p0) - (affine x0 y0 dx dy).xl l0 p0 * (Y - (affine x0 y0 dx dy).sy l0 p0)) /
        ((affine x0 y0 dx dy).yl l0 p0 * (affine x0 y0 dx dy).xp l0 p0 - (affine x0 y0 dx dy).yp l0 p0 * (affine x0 y0 dx dy).xl l0 p0) = exactP x0 dx X - p0 := by
      linarith
    have e2 : ((affine x0 y0 dx dy).xp l0 p0 * (Y - (affine x0 y0 dx dy).sy l0 p0) - (affine x0 y0 dx dy).yp l0 p0 * (X - (affine x0 y0 dx dy).sx l0 p0)) /
        ((affine x0 y0 dx dy).yl l0 p0 * (affine x0 y0 dx dy).xp l0 p0 - (affine x0 y0 dx dy).yp l0 p0 * (affine x0 y0 dx dy).xl l0 p0) = exactL y0 dy Y - l0 := by
      linarith
    rw [e1, e2, if_neg hacc]
    have t1 : (l0 : Rat) + (exactL y0 dy Y - l0) = exactL y0 dy Y := by ring
    have t2 : (p0 : Rat) + (exactP x0 dx X - p0) = exactP x0 dx X := by ring
    rw [t1, t2]
    obtain ⟨a1, a2, a3, a4⟩ := aux_trunc_range _ lmax hL0 hL1
    obtain ⟨b1, b2, b3, b4⟩ := aux_trunc_range _ pmax hP0 hP1
    exact accept fuel _ _ last ⟨a1, a2⟩ ⟨b1, b2⟩ ⟨aux_abs_lt_one _ b3 b4, aux_abs_lt_one _ a3 a4⟩


/-- `nn` takes the source pixel nearest to the exact position (for an emitted, hence inside, position) -/
theorem nn_nearest (r : Found) (lmax pmax : Int)
    (hl : 0 ≤ r.l0 ∧ r.l0 ≤ lmax) (hp : 0 ≤ r.p0 ∧ r.p0 ≤ pmax)
    (hdl : absQ r.dl < 1) (hdp : absQ r.dp < 1)
    (hL : 0 ≤ r.dl + r.l0 ∧ r.dl + r.l0 ≤ lmax) (hP : 0 ≤ r.dp + r.p0 ∧ r.dp + r.p0 ≤ pmax) :
    let c := nnPixel r lmax pmax
    0 ≤ c.1 ∧ c.1 ≤ lmax ∧ 0 ≤ c.2 ∧ c.2 ≤ pmax ∧
    absQ ((indicesXY r).2 - c.1) ≤ 1/2 ∧ absQ ((indicesXY r).1 - c.2) ≤ 1/2 := by
  have key : ∀ (d : Rat) (i0 imax : Int), 0 ≤ i0 → i0 ≤ imax → absQ d < 1 → 0 ≤ d + i0 → d + i0 ≤ imax →
      let c := if d < -(1/2) ∧ i0 > 0 then i0 - 1 else if d > 1/2 ∧ i0 < imax then i0 + 1 else i0
      0 ≤ c ∧ c ≤ imax ∧ absQ (d + i0 - c) ≤ 1/2 := by
    intro d i0 imax h0 h1 hd hA hB
    have hd' : -1 < d ∧ d < 1 := by
      unfold absQ at hd; split at hd <;> constructor <;> linarith
    simp only
    split
    · rename_i h
      refine ⟨by omega, by omega, ?_⟩
      push_cast; unfold absQ; split <;> linarith [h.1]
    · rename_i h1'
      split
      · rename_i h
        refine ⟨by omega, by omega, ?_⟩
        push_cast; unfold absQ; split <;> linarith [h.1]
      · rename_i h2'
        refine ⟨h0, h1, ?_⟩
        have a : -(1/2) ≤ d := by
          by_contra hc; push Not at hc
          have : ¬ i0 > 0 := fun hh => h1' ⟨hc, hh⟩
          have : i0 = 0 := by omega
          subst this; simp at hA; linarith
        have b : d ≤ 1/2 := by
          by_contra hc; push Not at hc
          have : ¬ i0 < imax := fun hh => h2' ⟨hc, hh⟩
          have : i0 = imax := by omega
          subst this; linarith
        have : d + i0 - i0 = d := by ring
        rw [this]; unfold absQ; split <;> linarith
  obtain ⟨a1, a2, a3⟩ := key r.dl r.l0 lmax hl.1 hl.2 hdl hL.1 hL.2
  obtain ⟨b1, b2, b3⟩ := key r.dp r.p0 pmax hp.1 hp.2 hdp hP.1 hP.2
  exact ⟨a1, a2, b1, b2, a3, b3⟩

/-- `bil` brackets the exact position: on each axis the two indices are in range, at most one apart, and the
weight places the interpolation point exactly at the fractional index -/
theorem bil_brackets (r : Found) (lmax pmax : Int)
    (hl : 0 ≤ r.l0 ∧ r.l0 ≤ lmax) (hp : 0 ≤ r.p0 ∧ r.p0 ≤ pmax)
    (hdl : absQ r.dl < 1) (hdp : absQ r.dp < 1)
    (hL : 0 ≤ r.dl + r.l0 ∧ r.dl + r.l0 ≤ lmax) (hP : 0 ≤ r.dp + r.p0 ∧ r.dp + r.p0 ≤ pmax) :
    let b := bilParams r lmax pmax
    (0 ≤ b.1 ∧ b.2.1 ≤ lmax ∧ 0 ≤ b.2.2.1 ∧ b.2.2.1 ≤ 1 ∧
      (b.1 : Rat) + b.2.2.1 * ((b.2.1 : Rat) - b.1) = (indicesXY r).2 ∧ (b.2.1 = b.1 + 1 ∨ (b.2.1 = b.1 ∧ b.2.2.1 = 0))) ∧
    (0 ≤ b.2.2.2.1 ∧ b.2.2.2.2.1 ≤ pmax ∧ 0 ≤ b.2.2.2.2.2 ∧ b.2.2.2.2.2 ≤ 1 ∧
      (b.2.2.2.1 : Rat) + b.2.2.2.2.2 * ((b.2.2.2.2.1 : Rat) - b.2.2.2.1) = (indicesXY r).1 ∧
      (b.2.2.2.2.1 = b.2.2.2.1 + 1 ∨ (b.2.2.2.2.1 = b.2.2.2.1 ∧ b.2.2.2.2.2 = 0))) := by
  have key : ∀ (d : Rat) (i0 imax : Int), 0 ≤ i0 → i0 ≤ imax → absQ d < 1 → 0 ≤ d + i0 → d + i0 ≤ imax →
      let t : Int × Int × Rat := if d < 0 then ((if 0 ≤ i0 - 1 then i0 - 1 else 0), i0, 1 + d)
                      else (i0, (if i0 + 1 ≤ imax then i0 + 1 else imax), d)
      0 ≤ t.1 ∧ t.2.1 ≤ imax ∧ 0 ≤ t.2.2 ∧ t.2.2 ≤ 1 ∧
      (t.1 : Rat) + t.2.2 * ((t.2.1 : Rat) - t.1) = d + i0 ∧ (t.2.1 = t.1 + 1 ∨ (t.2.1 = t.1 ∧ t.2.2 = 0)) := by
    intro d i0 imax h0 h1 hd hA hB
    have hd' : -1 < d ∧ d < 1 := by
      unfold absQ at hd; split at hd <;> constructor <;> linarith
    simp only
    split
    · rename_i hneg
      have hpos : 0 < i0 := by
        by_contra hc
        have : i0 = 0 := by omega
        subst this; simp at hA; linarith
      have : 0 ≤ i0 - 1 := by omega
      rw [if_pos this]
      refine ⟨this, h1, by linarith, by linarith, ?_, Or.inl (by simp)⟩
      push_cast; ring
    · rename_i hnn
      push Not at hnn
      split
      · rename_i hlt
        refine ⟨h0, hlt, hnn, by linarith, ?_, Or.inl rfl⟩
        push_cast; ring
      · rename_i hge
        have : i0 = imax := by omega
        subst this
        have hz : d = 0 := by linarith
        refine ⟨h0, le_refl _, hnn, by linarith, ?_, Or.inr ⟨rfl, hz⟩⟩
        rw [hz]; ring
  have A := key r.dl r.l0 lmax hl.1 hl.2 hdl hL.1 hL.2
  have B := key r.dp r.p0 pmax hp.1 hp.2 hdp hP.1 hP.2
  simp only [bilParams, indicesXY]
  refine ⟨?_, ?_⟩
  · split at A <;> simp_all
  · split at B <;> simp_all

/-- `bilValue` on a bilinear (in particular affine) data field reproduces the field at the bracketed
position: interpolation is exact for data `a + b·l + c·p + e·l·p` -/
theorem bilValue_exact (a b c e : Rat) (la lb pa pb : Int) (wl wp : Rat) :
    bilValue (fun l p => a + b * l + c * p + e * l * p) (la, lb, wl, pa, pb, wp) =
      a + b * (la + wl * ((lb : Rat) - la)) + c * (pa + wp * ((pb : Rat) - pa)) +
        e * (la + wl * ((lb : Rat) - la)) * (pa + wp * ((pb : Rat) - pa)) := by
  simp only [bilValue]; ring

/-- `bilValue` is a convex combination: between the least and greatest of the four corner values -/
theorem bilValue_convex (data : Int → Int → Rat) (la lb pa pb : Int) (wl wp lo hi : Rat)
    (hwl : 0 ≤ wl ∧ wl ≤ 1) (hwp : 0 ≤ wp ∧ wp ≤ 1)
    (h1 : lo ≤ data la pa ∧ data la pa ≤ hi) (h2 : lo ≤ data la pb ∧ data la pb ≤ hi)
    (h3 : lo ≤ data lb pa ∧ data lb pa ≤ hi) (h4 : lo ≤ data lb pb ∧ data lb pb ≤ hi) :
    lo ≤ bilValue data (la, lb, wl, pa, pb, wp) ∧ bilValue data (la, lb, wl, pa, pb, wp) ≤ hi := by
  simp only [bilValue]
  have a1 : 0 ≤ (1 - wl) * (1 - wp) := mul_nonneg (by linarith) (by linarith)
  have a2 : 0 ≤ (1 - wl) * wp := mul_nonneg (by linarith) hwp.1
  have a3 : 0 ≤ wl * (1 - wp) := mul_nonneg hwl.1 (by linarith)
  have a4 : 0 ≤ wl * wp := mul_nonneg hwl.1 hwp.1
  have s : (1 - wl) * (1 - wp) + (1 - wl) * wp + wl * (1 - wp) + wl * wp = 1 := by ring
  constructor
  · nlinarith [mul_le_mul_of_nonneg_left h1.1 a1, mul_le_mul_of_nonneg_left h2.1 a2, mul_le_mul_of_nonneg_left h3.1 a3, mul_le_mul_of_nonneg_left h4.1 a4]
  · nlinarith [mul_le_mul_of_nonneg_left h1.2 a1, mul_le_mul_of_nonneg_left h2.2 a2, mul_le_mul_of_nonneg_left h3.2 a3, mul_le_mul_of_nonneg_left h4.2 a4]

/-- `block_nn_interpolator`: in range, and the nearest pixel for in-range indices -/
theorem blockNN_range (i : Rat) (n : Nat) (hn : 0 < n) : 0 ≤ blockNN i n ∧ blockNN i n ≤ (n : Int) - 1 := by
  unfold blockNN clampI; split
  · omega
  · split <;> omega

theorem blockNN_nearest (i : Rat) (n : Nat) (h0 : 0 ≤ i) (h1 : i ≤ (n : Rat) - 1) :
    absQ (i - blockNN i n) ≤ 1/2 := by
  have hs := roundHalfEven_spec i
  have lo : 0 ≤ roundHalfEven i := by
    by_contra hc; push Not at hc
    have : ((roundHalfEven i : Int) : Rat) ≤ -1 := by exact_mod_cast (by omega : roundHalfEven i ≤ -1)
    linarith [hs.2]
  have hi : roundHalfEven i ≤ (n : Int) - 1 := by
    by_contra hc; push Not at hc
    have : ((n : Int) : Rat) ≤ ((roundHalfEven i : Int) : Rat) := by exact_mod_cast (by omega : (n : Int) ≤ roundHalfEven i)
    push_cast at this
    linarith [hs.1]
  have : blockNN i n = roundHalfEven i := by
    unfold blockNN clampI; rw [if_neg (by omega), if_neg (by omega)]
  rw [this]; unfold absQ; split <;> linarith [hs.1, hs.2]

/-- the block-local index arithmetic: a pixel found at global fractional index `g` in a source block that
starts at `off` is looked up at local index `g - off`; rounding commutes with the integer offset, so the
block decomposition does not move the chosen pixel -/
theorem roundHalfEven_sub_int (x : Rat) (k : Int) (h : ∀ c : Int, x ≠ (c : Rat) + 1/2) :
    roundHalfEven (x - k) = roundHalfEven x - k := by
  have hs := roundHalfEven_spec x
  apply roundHalfEven_eq
  · push_cast
    have : (roundHalfEven x : Rat) - 1/2 ≠ x := by
      intro e; apply h (roundHalfEven x - 1); push_cast; linarith
    have := lt_of_le_of_ne hs.1 this
    linarith
  · push_cast
    have : x ≠ (roundHalfEven x : Rat) + 1/2 := h _
    have := lt_of_le_of_ne hs.2 this
    linarith


/-! ### block decomposition -/


/-- cropping the source to the block that starts at column `offc` / row `offr` shifts the exact position by the offset: what
`gradient_resampler_indices` adds back (`indices_xy[0] += x_slice.start`, `[1] += y_slice.start`) -/
theorem crop_shift (x0 y0 dx dy X Y : Rat) (hdx : dx ≠ 0) (hdy : dy ≠ 0) (offc offr : Int) :
    exactP (x0 + offc * dx) dx X + offc = exactP x0 dx X ∧ exactL (y0 - offr * dy) dy Y + offr = exactL y0 dy Y := by
  simp only [exactP, exactL]
  constructor <;> field_simp <;> ring

/-- **the block decomposition is invisible**: a target position that the search emits on a cropped source block (columns
`offc ..`, rows `offr ..`) and on the whole source gets, after the offset is added back, the same global position -/
theorem chunk_invariance (x0 y0 dx dy X Y : Rat) (hdx : dx ≠ 0) (hdy : dy ≠ 0) (offc offr lmax pmax lmaxB pmaxB : Int)
    (fuel fuelB : Nat) (cur last curB lastB : Int × Int) (r rB : Found)
    (hfull : (searchLoop (affine x0 y0 dx dy) lmax pmax X Y fuel cur last).1 = some r)
    (hblock : (searchLoop (affine (x0 + offc * dx) (y0 - offr * dy) dx dy) lmaxB pmaxB X Y fuelB curB lastB).1 = some rB) :
    (indicesXY rB).1 + offc = (indicesXY r).1 ∧ (indicesXY rB).2 + offr = (indicesXY r).2 := by
  have h1 := (search_sound x0 y0 dx dy X Y hdx hdy lmax pmax fuel cur last r hfull).1
  have h2 := (search_sound (x0 + offc * dx) (y0 - offr * dy) dx dy X Y hdx hdy lmaxB pmaxB fuelB curB lastB rB hblock).1
  obtain ⟨s1, s2⟩ := crop_shift x0 y0 dx dy X Y hdx hdy offc offr
  rw [h1, h2]
  exact ⟨s1, s2⟩


/-! ### non-vacuity: concrete searches -/

/-- a 6 x 8 source (x0 = 10, dx = 2, y0 = 50, dy = 3), target position (X, Y) = (17, 39.5): P = 3.5, L = 3.5,
started at the grid centre (3, 4) — emitted, exact -/
example : (searchLoop (affine 10 50 2 3) 5 7 17 (79/2) 5 (3, 4) (3, 4)).1.map indicesXY = some (7/2, 7/2) := by
  decide +kernel

/-- the same target from the far corner needs the second iteration -/
example : (searchLoop (affine 10 50 2 3) 5 7 17 (79/2) 5 (0, 0) (0, 0)).1.map indicesXY = some (7/2, 7/2) := by
  decide +kernel

/-- a target outside the source (P = -1.5) is never emitted -/
example : (searchLoop (affine 10 50 2 3) 5 7 7 (79/2) 5 (3, 4) (3, 4)).1 = none := by
  decide +kernel

/-- the interpolation weight of `block_bilinear_interpolator` on one axis (fractional part of the clipped position) lies
in [0, 1) -/
theorem blockBil_weight (i : Rat) (n : Nat) (hn : 1 ≤ n) : 0 ≤ (blockBil i n).2.2 ∧ (blockBil i n).2.2 ≤ 1 := by
  have h1 : (1 : Rat) ≤ n := by exact_mod_cast hn
  simp only [blockBil]
  generalize hc : (if i < 0 then (0 : Rat) else if i > (n : Rat) - 1 then (n : Rat) - 1 else i) = c
  have hc0 : 0 ≤ c := by
    rw [← hc]; split
    · exact le_refl _
    · split
      · linarith
      · rename_i h _; exact not_lt.mp h
  rw [pyTrunc_of_nonneg hc0]
  have a := pyFloor_le c
  have b := lt_pyFloor_add_one c
  constructor <;> linarith

end PyresampleModel.C09
