import PyresampleModel.Model.C07

/-
  C07 — property theorems (stub: none yet).
-/
namespace PyresampleModel.C07

end PyresampleModel.C07
