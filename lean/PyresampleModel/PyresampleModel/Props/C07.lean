import PyresampleModel.Model.C07
import PyresampleModel.Props.C18

/-
  C07 — property theorems for bucket resampling (all point clouds, data lists, sizes, chunkings).
-/
namespace PyresampleModel.C07
open PyresampleModel.Grid

/-- the raveled bucket index names exactly the containing cell (negative = outside the area) -/
theorem ravel_eq_cellOf (g : Grid) (x y : Rat) :
    ravelIdx g x y = (match cellOf g x y with
      | some (r, c) => (r : Int) * g.w + c
      | none => (-1) * (g.w : Int) + (-1)) := by
  simp only [ravelIdx, cellOf]
  split
  · rename_i h
    simp only [Int.toNat_of_nonneg h.1, Int.toNat_of_nonneg h.2.2.1]
  · rfl

theorem ravel_neg_iff (g : Grid) (x y : Rat) : ravelIdx g x y < 0 ↔ cellOf g x y = none := by
  rw [ravel_eq_cellOf]
  cases h : cellOf g x y with
  | none => simp; omega
  | some p =>
    obtain ⟨r, c⟩ := p
    simp
    have : (0 : Int) ≤ (r : Int) * g.w := by positivity
    omega

/-! ### histograms -/

theorem aux_histCount_length (idxs : List Int) (size : Nat) : (histCount idxs size).length = size := by
  simp [histCount]

theorem histCount_get (idxs : List Int) (size b : Nat) (hb : b < size) :
    (histCount idxs size)[b]? = some ((idxs.filter (fun i => i == (b : Int))).length) := by
  simp [histCount, hb]

theorem aux_addLists_sum : ∀ (a b : List Nat), a.length = b.length → (addLists a b).sum = a.sum + b.sum := by
  intro a
  induction a with
  | nil => intro b h; cases b <;> simp_all [addLists]
  | cons x xs ih =>
    intro b h
    cases b with
    | nil => simp at h
    | cons y ys =>
      simp only [addLists, List.zipWith_cons_cons, List.sum_cons]
      have := ih ys (by simpa using h)
      simp only [addLists] at this
      omega

theorem aux_histCount_cons (i : Int) (is : List Int) (size : Nat) :
    histCount (i :: is) size = addLists (histCount [i] size) (histCount is size) := by
  simp only [histCount, addLists, List.zipWith_map, List.zipWith_self, List.filter_cons]
  apply List.map_congr_left
  intro b _
  by_cases h : i == (b : Int)
  · simp [h]; omega
  · simp [h]

theorem aux_indicator_sum (i : Int) (size : Nat) :
    (histCount [i] size).sum = if 0 ≤ i ∧ i < size then 1 else 0 := by
  induction size with
  | zero => simp [histCount]
  | succ n ih =>
    have : histCount [i] (n + 1) = histCount [i] n ++ [if i == (n : Int) then 1 else 0] := by
      simp only [histCount, List.range_succ, List.map_append, List.map_cons, List.map_nil, List.filter_cons, List.filter_nil]
      congr 1
      by_cases h : i == (n : Int) <;> simp [h]
    rw [this, List.sum_append, ih]
    simp only [List.sum_cons, List.sum_nil, Nat.add_zero]
    by_cases h1 : 0 ≤ i ∧ i < (n : Int)
    · have h3 : ¬ (i == (n : Int)) = true := by simp; omega
      have h2 : 0 ≤ i ∧ i < ((n + 1 : Nat) : Int) := by push_cast; omega
      rw [if_pos h1, if_neg h3, if_pos h2]
    · by_cases h3 : i = n
      · have h4 : (i == (n : Int)) = true := by simp [h3]
        have h2 : 0 ≤ i ∧ i < ((n + 1 : Nat) : Int) := by push_cast; omega
        rw [if_neg h1, if_pos h4, if_pos h2]
      · have h4 : ¬ (i == (n : Int)) = true := by simp [h3]
        have h2 : ¬ (0 ≤ i ∧ i < ((n + 1 : Nat) : Int)) := by push_cast; omega
        rw [if_neg h1, if_neg h4, if_neg h2]

/-- **count conservation**: the per-cell counts sum to the number of points that fall inside the area -/
theorem count_total (idxs : List Int) (size : Nat) :
    (histCount idxs size).sum = (idxs.filter (fun i => decide (0 ≤ i ∧ i < (size : Int)))).length := by
  induction idxs with
  | nil => simp [histCount]
  | cons i is ih =>
    rw [aux_histCount_cons, aux_addLists_sum _ _ (by simp [aux_histCount_length]), ih, aux_indicator_sum]
    simp only [List.filter_cons]
    by_cases h : 0 ≤ i ∧ i < (size : Int)
    · simp [h]; omega
    · simp [h]

theorem aux_addLists_zero (a : List Nat) : addLists (List.replicate a.length 0) a = a := by
  induction a with
  | nil => rfl
  | cons x xs ih => simp [addLists, List.replicate_succ] at ih ⊢; exact ih

theorem aux_addLists_assoc : ∀ (a b c : List Nat), addLists (addLists a b) c = addLists a (addLists b c) := by
  intro a
  induction a with
  | nil => intro b c; simp [addLists]
  | cons x xs ih =>
    intro b c
    cases b with
    | nil => simp [addLists]
    | cons y ys =>
      cases c with
      | nil => simp [addLists]
      | cons z zs =>
        simp only [addLists, List.zipWith_cons_cons] at ih ⊢
        rw [ih ys zs]; simp; omega

theorem histCount_append (a b : List Int) (size : Nat) :
    histCount (a ++ b) size = addLists (histCount a size) (histCount b size) := by
  induction a with
  | nil =>
    have := aux_addLists_zero (histCount b size)
    rw [aux_histCount_length] at this
    simpa [histCount] using this.symm
  | cons i is ih =>
    rw [List.cons_append, aux_histCount_cons, ih, aux_histCount_cons i is, aux_addLists_assoc]

theorem aux_foldl_hist (size : Nat) : ∀ (chunks : List (List Int)) (acc : List Int),
    chunks.foldl (fun acc ch => addLists acc (histCount ch size)) (histCount acc size) =
      histCount (acc ++ chunks.flatten) size := by
  intro chunks
  induction chunks with
  | nil => intro acc; simp
  | cons c cs ih =>
    intro acc
    simp only [List.foldl_cons, List.flatten_cons]
    rw [← histCount_append, ih, List.append_assoc]

/-- **chunk invariance of the histogram**: summing per-chunk histograms, for any chunking of the
point list, gives the histogram of the whole list -/
theorem histCount_chunk_invariant (chunks : List (List Int)) (size : Nat) :
    histCountChunked chunks size = histCount chunks.flatten size := by
  have h0 : List.replicate size 0 = histCount [] size := by
    simp [histCount]
  unfold histCountChunked
  rw [h0, aux_foldl_hist]; simp


/-! ### sort-based per-cell minimum / maximum -/

theorem aux_leNan_trans : ∀ a b c : Option Rat, leNan a b = true → leNan b c = true → leNan a c = true := by
  intro a b c
  cases a <;> cases b <;> cases c <;> simp [leNan]
  intro h1 h2; exact le_trans h1 h2

theorem aux_leNan_total : ∀ a b : Option Rat, (leNan a b || leNan b a) = true := by
  intro a b
  cases a <;> cases b <;> simp [leNan]
  exact le_total _ _

theorem aux_find_first {α} (le : α → α → Bool) (p : α → Bool) :
    ∀ (l : List α), l.Pairwise (fun a b => le a b = true) → ∀ a, l.find? p = some a →
      ∀ b ∈ l, p b = true → (b = a ∨ le a b = true) := by
  intro l
  induction l with
  | nil => intro _ a h; simp at h
  | cons x xs ih =>
    intro hp a hf b hb hpb
    rw [List.pairwise_cons] at hp
    rw [List.find?_cons] at hf
    by_cases hx : p x = true
    · rw [hx] at hf
      simp at hf; subst hf
      rcases List.mem_cons.mp hb with rfl | hb
      · left; rfl
      · right; exact hp.1 b hb
    · have hx' : p x = false := by simpa using hx
      rw [hx'] at hf
      rcases List.mem_cons.mp hb with rfl | hb
      · rw [hpb] at hx'; cases hx'
      · exact ih hp.2 a hf b hb hpb

/-- values of the points of bin `b` -/
def binVals (idxs : List Int) (data : List (Option Rat)) (b : Nat) : List (Option Rat) :=
  ((idxs.zip data).filter (fun p => p.1 == (b : Int))).map (·.2)

theorem aux_binStat_get (isMax : Bool) (idxs : List Int) (data : List (Option Rat)) (size b : Nat) (hb : b < size) :
    (binStat isMax idxs data size)[b]? = some
      (match (if isMax then ((idxs.zip data).mergeSort (fun p q => leNan p.2 q.2)).reverse
              else (idxs.zip data).mergeSort (fun p q => leNan p.2 q.2)).find? (fun p => p.1 == (b : Int)) with
       | some p => p.2
       | none => none) := by
  simp only [binStat, List.getElem?_map, List.getElem?_range hb, Option.map_some]
  rfl

/-- **per-cell minimum / maximum**: for every cell, the sort-and-take-first procedure returns NaN
iff the cell holds no point, and otherwise a value of a point of that cell that is ≤ (min) resp.
≥ (max) every value in the cell (in numpy's sort order, where NaN is largest). -/
theorem binStat_spec (isMax : Bool) (idxs : List Int) (data : List (Option Rat)) (size b : Nat) (hb : b < size) :
    (binVals idxs data b = [] → (binStat isMax idxs data size)[b]? = some none) ∧
    (binVals idxs data b ≠ [] → ∃ m ∈ binVals idxs data b, (binStat isMax idxs data size)[b]? = some m ∧
      ∀ v ∈ binVals idxs data b, (if isMax then leNan v m else leNan m v) = true) := by
  rw [aux_binStat_get isMax idxs data size b hb]
  let le : (Int × Option Rat) → (Int × Option Rat) → Bool := fun p q => leNan p.2 q.2
  have hsorted : ((idxs.zip data).mergeSort le).Pairwise (fun a b => le a b = true) :=
    List.pairwise_mergeSort (fun a b c => aux_leNan_trans a.2 b.2 c.2) (fun a b => aux_leNan_total a.2 b.2) _
  have hperm := List.mergeSort_perm (idxs.zip data) le
  -- the list that is scanned, and its order relation
  let order := if isMax then ((idxs.zip data).mergeSort le).reverse else (idxs.zip data).mergeSort le
  let ole : (Int × Option Rat) → (Int × Option Rat) → Bool := fun p q => if isMax then le q p else le p q
  have hord : order.Pairwise (fun a b => ole a b = true) := by
    cases isMax
    · simp [order, ole]; exact hsorted
    · simp only [order, ole, if_true]
      rw [List.pairwise_reverse]; exact hsorted
  have hmem : ∀ p, p ∈ order ↔ p ∈ idxs.zip data := by
    intro p
    cases isMax
    · simpa [order] using hperm.mem_iff
    · simp only [order, if_true, List.mem_reverse]; exact hperm.mem_iff
  show (binVals idxs data b = [] → some (match order.find? (fun p => p.1 == (b : Int)) with
        | some p => p.2 | none => none) = some none) ∧ _
  constructor
  · intro hnil
    cases hf : order.find? (fun p => p.1 == (b : Int)) with
    | none => rfl
    | some p =>
      exfalso
      have h1 := List.find?_some hf
      have h2 : p ∈ idxs.zip data := (hmem p).mp (List.mem_of_find?_eq_some hf)
      have : p.2 ∈ binVals idxs data b := by
        simp only [binVals, List.mem_map, List.mem_filter]
        exact ⟨p, ⟨h2, h1⟩, rfl⟩
      rw [hnil] at this; simp at this
  · intro hne
    cases hf : order.find? (fun p => p.1 == (b : Int)) with
    | none =>
      exfalso
      apply hne
      simp only [binVals, List.map_eq_nil_iff, List.filter_eq_nil_iff]
      intro p hp hpb
      have := List.find?_eq_none.mp hf p ((hmem p).mpr hp)
      exact this hpb
    | some p =>
      have h1 := List.find?_some hf
      have h2 : p ∈ idxs.zip data := (hmem p).mp (List.mem_of_find?_eq_some hf)
      refine ⟨p.2, ?_, rfl, ?_⟩
      · simp only [binVals, List.mem_map, List.mem_filter]
        exact ⟨p, ⟨h2, h1⟩, rfl⟩
      · intro v hv
        simp only [binVals, List.mem_map, List.mem_filter] at hv
        obtain ⟨q, ⟨hq, hqb⟩, rfl⟩ := hv
        rcases aux_find_first ole _ order hord p hf q ((hmem q).mpr hq) hqb with rfl | h
        · cases isMax <;> simp <;> (have := aux_leNan_total q.2 q.2; simp at this; exact this)
        · cases isMax <;> simpa [ole, le] using h


/-! ### weighted histogram (sums) -/

theorem aux_foldl_add (l : List (Int × Rat)) (a : Rat) :
    l.foldl (fun acc p => acc + p.2) a = a + (l.map (·.2)).sum := by
  induction l generalizing a with
  | nil => simp
  | cons x xs ih => simp only [List.foldl_cons, List.map_cons, List.sum_cons]; rw [ih]; ring

/-- per-cell sum = sum of the weights of exactly the points whose index is that cell -/
theorem histSum_get (idxs : List Int) (w : List Rat) (size b : Nat) (hb : b < size) :
    (histSum idxs w size)[b]? = some ((((idxs.zip w).filter (fun p => p.1 == (b : Int))).map (·.2)).sum) := by
  simp only [histSum, List.getElem?_map, List.getElem?_range hb, Option.map_some, aux_foldl_add, zero_add]

theorem aux_histSum_length (idxs : List Int) (w : List Rat) (size : Nat) : (histSum idxs w size).length = size := by
  simp [histSum]

theorem aux_addListsQ_sum : ∀ (a b : List Rat), a.length = b.length → (addLists a b).sum = a.sum + b.sum := by
  intro a
  induction a with
  | nil => intro b h; cases b <;> simp_all [addLists]
  | cons x xs ih =>
    intro b h
    cases b with
    | nil => simp at h
    | cons y ys =>
      simp only [addLists, List.zipWith_cons_cons, List.sum_cons]
      have := ih ys (by simpa using h)
      simp only [addLists] at this
      rw [this]; ring

theorem aux_histSum_cons (i : Int) (v : Rat) (is : List Int) (ws : List Rat) (size : Nat) :
    histSum (i :: is) (v :: ws) size = addLists (histSum [i] [v] size) (histSum is ws size) := by
  simp only [histSum, addLists, List.zipWith_map, List.zipWith_self, List.zip_cons_cons, List.filter_cons, aux_foldl_add,
    List.zip_nil_right, List.filter_nil]
  apply List.map_congr_left
  intro b _
  by_cases h : i == (b : Int)
  · simp [h]
  · simp [h]

theorem aux_indicatorQ_sum (i : Int) (v : Rat) (size : Nat) :
    (histSum [i] [v] size).sum = if 0 ≤ i ∧ i < (size : Int) then v else 0 := by
  induction size with
  | zero => simp [histSum]
  | succ n ih =>
    have : histSum [i] [v] (n + 1) = histSum [i] [v] n ++ [if i == (n : Int) then v else 0] := by
      simp only [histSum, List.range_succ, List.map_append, List.map_cons, List.map_nil, List.zip_cons_cons,
        List.zip_nil_right, List.filter_cons, List.filter_nil, aux_foldl_add]
      congr 1
      by_cases h : i == (n : Int) <;> simp [h]
    rw [this, List.sum_append, ih]
    simp only [List.sum_cons, List.sum_nil, add_zero]
    by_cases h1 : 0 ≤ i ∧ i < (n : Int)
    · have h3 : ¬ (i == (n : Int)) = true := by simp; omega
      have h2 : 0 ≤ i ∧ i < ((n + 1 : Nat) : Int) := by push_cast; omega
      rw [if_pos h1, if_neg h3, if_pos h2]; ring
    · by_cases h3 : i = n
      · have h4 : (i == (n : Int)) = true := by simp [h3]
        have h2 : 0 ≤ i ∧ i < ((n + 1 : Nat) : Int) := by push_cast; omega
        rw [if_neg h1, if_pos h4, if_pos h2]; ring
      · have h4 : ¬ (i == (n : Int)) = true := by simp [h3]
        have h2 : ¬ (0 ≤ i ∧ i < ((n + 1 : Nat) : Int)) := by push_cast; omega
        rw [if_neg h1, if_neg h4, if_neg h2]; ring

/-- **sum conservation**: the per-cell sums add up to the total weight of the points inside the area -/
theorem sum_total : ∀ (idxs : List Int) (w : List Rat) (size : Nat), idxs.length = w.length →
    (histSum idxs w size).sum =
      (((idxs.zip w).filter (fun p => decide (0 ≤ p.1 ∧ p.1 < (size : Int)))).map (·.2)).sum := by
  intro idxs
  induction idxs with
  | nil => intro w size _; simp [histSum]
  | cons i is ih =>
    intro w size hl
    cases w with
    | nil => simp at hl
    | cons v ws =>
      rw [aux_histSum_cons, aux_addListsQ_sum _ _ (by simp [aux_histSum_length]), ih ws size (by simpa using hl),
        aux_indicatorQ_sum]
      simp only [List.zip_cons_cons, List.filter_cons]
      by_cases h : 0 ≤ i ∧ i < (size : Int)
      · simp [h]
      · simp [h]


/-! ### tie to the reference cell semantics of C18 -/

theorem aux_cellOf_bounds (g : Grid) (x y : Rat) (r c : Nat) (h : cellOf g x y = some (r, c)) :
    c < g.w ∧ r < g.h := by
  simp only [cellOf] at h
  split at h
  · rename_i hv
    simp only [Option.some.injEq, Prod.mk.injEq] at h
    omega
  · simp at h

theorem ravel_eq_iff (g : Grid) (x y : Rat) (r c : Nat) (hc : c < g.w) :
    ravelIdx g x y = ((r * g.w + c : Nat) : Int) ↔ cellOf g x y = some (r, c) := by
  rw [ravel_eq_cellOf]
  cases h : cellOf g x y with
  | none =>
    simp only [reduceCtorEq, iff_false]
    have : (0 : Int) ≤ ((r * g.w + c : Nat) : Int) := by positivity
    omega
  | some p =>
    obtain ⟨r', c'⟩ := p
    obtain ⟨hc', _⟩ := aux_cellOf_bounds g x y r' c' h
    simp only [Option.some.injEq, Prod.mk.injEq]
    constructor
    · intro he
      have he' : r' * g.w + c' = r * g.w + c := by exact_mod_cast he
      have h1 : (r' * g.w + c') / g.w = (r * g.w + c) / g.w := by rw [he']
      have h2 : (r' * g.w + c') % g.w = (r * g.w + c) % g.w := by rw [he']
      have hw : 0 < g.w := by omega
      rw [Nat.mul_comm r', Nat.mul_comm r, Nat.mul_add_div hw, Nat.mul_add_div hw,
        Nat.div_eq_of_lt hc', Nat.div_eq_of_lt hc] at h1
      rw [Nat.mul_comm r', Nat.mul_comm r, Nat.mul_add_mod, Nat.mul_add_mod, Nat.mod_eq_of_lt hc', Nat.mod_eq_of_lt hc] at h2
      exact ⟨by omega, h2⟩
    · rintro ⟨rfl, rfl⟩; push_cast; ring

/-- **exact membership, per cell**: `get_count` of cell (r, c) is the number of points whose
projected position lies in the extent of cell (r, c) -/
theorem cell_count (g : Grid) (pts : List (Rat × Rat)) (r c : Nat) (hc : c < g.w) (hr : r < g.h) :
    (histCount (pts.map (fun p => ravelIdx g p.1 p.2)) (g.h * g.w))[r * g.w + c]? =
      some ((pts.filter (fun p => decide (cellOf g p.1 p.2 = some (r, c)))).length) := by
  have hb : r * g.w + c < g.h * g.w := by
    have : (r + 1) * g.w ≤ g.h * g.w := Nat.mul_le_mul_right _ hr
    rw [Nat.add_mul, Nat.one_mul] at this
    omega
  rw [histCount_get _ _ _ hb]
  congr 1
  rw [List.filter_map, List.length_map]
  congr 1
  apply List.filter_congr
  intro p _
  simp only [Function.comp]
  have hiff := ravel_eq_iff g p.1 p.2 r c hc
  by_cases h : cellOf g p.1 p.2 = some (r, c)
  · simp [h, hiff.mpr h]
  · have : ¬ ravelIdx g p.1 p.2 = ((r * g.w + c : Nat) : Int) := fun e => h (hiff.mp e)
    simp [h]
    intro e; apply this; rw [e]; push_cast; ring

/-! non-vacuity -/
example : binVals [0, 0, 1, 3, -5] [some 3, some 1, none, some 2, some 7] 0 = [some 3, some 1] := by
  decide +kernel
example : histCount [0, 0, 1, 3, -5] 4 = [2, 1, 0, 1] := by decide

end PyresampleModel.C07
