import PyresampleModel.Model.C04
import PyresampleModel.Proofs.Num

/-
  C04 — property theorems for weighted (gauss / custom) resampling, per target location and channel.
-/
namespace PyresampleModel.C04

/-- the contributing neighbours: real neighbours within the radius -/
def liveSlots (slots : List Slot) : List Slot := slots.filter (·.live)

def sumW (ss : List Slot) : Rat := (ss.map (·.w)).sum
def sumWX (ss : List Slot) : Rat := (ss.map (fun s => s.w * s.x)).sum

theorem aux_accum_gen (slots : List Slot) : ∀ (a b : Rat),
    slots.foldl (fun (acc : Rat × Rat) s =>
      let wt := if s.live then s.w else 0
      (acc.1 + wt * s.x, acc.2 + wt)) (a, b) = (a + sumWX (liveSlots slots), b + sumW (liveSlots slots)) := by
  induction slots with
  | nil => intro a b; simp [liveSlots, sumW, sumWX]
  | cons s ss ih =>
    intro a b
    simp only [List.foldl_cons]
    rw [ih]
    cases hs : s.live
    · simp [liveSlots, hs, sumW, sumWX]
    · simp only [liveSlots, List.filter_cons, hs, if_true, sumW, sumWX, List.map_cons, List.sum_cons]
      apply Prod.ext <;> simp only <;> ring

theorem accum_eq (slots : List Slot) : accum slots = (sumWX (liveSlots slots), sumW (liveSlots slots)) := by
  have := aux_accum_gen slots 0 0
  simpa [accum] using this

/-- **weighted resampling = normalised weighted mean over the neighbours in range**: dead slots
(no neighbour) contribute nothing whatever weight the weight function returns for them; with no
positive total weight the location is filled -/
theorem weighted_eq_spec (slots : List Slot) :
    weighted slots = if sumW (liveSlots slots) > 0 then some (sumWX (liveSlots slots) / sumW (liveSlots slots)) else none := by
  simp only [weighted, accum_eq]

/-- **count** = number of contributing neighbours -/
theorem count_eq (slots : List Slot) : count slots = (liveSlots slots).length := rfl

theorem aux_sum_bounds (ss : List Slot) (m M : Rat) (hw : ∀ s ∈ ss, 0 ≤ s.w) (hx : ∀ s ∈ ss, m ≤ s.x ∧ s.x ≤ M) :
    m * sumW ss ≤ sumWX ss ∧ sumWX ss ≤ M * sumW ss := by
  induction ss with
  | nil => simp [sumW, sumWX]
  | cons s ss ih =>
    have h1 := hw s List.mem_cons_self
    have h2 := hx s List.mem_cons_self
    have := ih (fun t ht => hw t (List.mem_cons_of_mem _ ht)) (fun t ht => hx t (List.mem_cons_of_mem _ ht))
    simp only [sumW, sumWX, List.map_cons, List.sum_cons] at this ⊢
    constructor <;> nlinarith

/-- **no invented values**: with non-negative weights the result lies within the range of the
contributing neighbours' values — so a constant field is reproduced -/
theorem weighted_convex (slots : List Slot) (m M r : Rat)
    (hw : ∀ s ∈ liveSlots slots, 0 ≤ s.w) (hx : ∀ s ∈ liveSlots slots, m ≤ s.x ∧ s.x ≤ M)
    (h : weighted slots = some r) : m ≤ r ∧ r ≤ M := by
  rw [weighted_eq_spec] at h
  split at h
  · rename_i hpos
    simp only [Option.some.injEq] at h
    subst h
    obtain ⟨h1, h2⟩ := aux_sum_bounds _ m M hw hx
    constructor
    · rw [le_div_iff₀ hpos]; exact h1
    · rw [div_le_iff₀ hpos]; exact h2
  · cases h

theorem weighted_const (slots : List Slot) (c r : Rat)
    (hw : ∀ s ∈ liveSlots slots, 0 ≤ s.w) (hx : ∀ s ∈ liveSlots slots, s.x = c)
    (h : weighted slots = some r) : r = c := by
  have := weighted_convex slots c c r hw (fun s hs => by rw [hx s hs]; exact ⟨le_refl _, le_refl _⟩) h
  linarith [this.1, this.2]

theorem aux_sums_nonneg (ss : List Slot) (hw : ∀ s ∈ ss, 0 ≤ s.w) (hx : ∀ s ∈ ss, 0 ≤ s.x) :
    0 ≤ sumWX ss ∧ 0 ≤ sumW ss := by
  induction ss with
  | nil => simp [sumW, sumWX]
  | cons t ts ih =>
    have a := hw t List.mem_cons_self
    have b := hx t List.mem_cons_self
    have ih' := ih (fun u hu => hw u (List.mem_cons_of_mem _ hu)) (fun u hu => hx u (List.mem_cons_of_mem _ hu))
    have c : 0 ≤ t.w * t.x := mul_nonneg a b
    simp only [sumW, sumWX, List.map_cons, List.sum_cons] at ih' ⊢
    constructor <;> linarith [ih'.1, ih'.2]

theorem aux_term_le_sum (ss : List Slot) (hw : ∀ s ∈ ss, 0 ≤ s.w) (hx : ∀ s ∈ ss, 0 ≤ s.x) :
    ∀ s ∈ ss, s.w * s.x ≤ sumWX ss := by
  induction ss with
  | nil => intro s hs; simp at hs
  | cons t ts ih =>
    intro s hs
    have hw' : ∀ u ∈ ts, 0 ≤ u.w := fun u hu => hw u (List.mem_cons_of_mem _ hu)
    have hx' : ∀ u ∈ ts, 0 ≤ u.x := fun u hu => hx u (List.mem_cons_of_mem _ hu)
    have nn := aux_sums_nonneg ts hw' hx'
    have c : 0 ≤ t.w * t.x := mul_nonneg (hw t List.mem_cons_self) (hx t List.mem_cons_self)
    simp only [sumWX, List.map_cons, List.sum_cons] at nn ⊢
    rcases List.mem_cons.mp hs with rfl | hs
    · linarith [nn.1]
    · have := ih hw' hx' s hs
      simp only [sumWX] at this
      linarith

theorem aux_sumWX_zero (ss : List Slot) (h : ∀ s ∈ ss, s.w * s.x = 0) : sumWX ss = 0 := by
  induction ss with
  | nil => simp [sumWX]
  | cons t ts ih =>
    simp only [sumWX, List.map_cons, List.sum_cons]
    have := ih (fun u hu => h u (List.mem_cons_of_mem _ hu))
    simp only [sumWX] at this
    rw [h t List.mem_cons_self, this]; ring

/-- **a masked neighbour masks the result**: in the mask channel (values 0 / 1, non-negative
weights) the weighted mean is non-zero — the output is masked — exactly when some contributing
neighbour with positive weight is masked -/
theorem masked_neighbour_masks (slots : List Slot) (r : Rat)
    (hw : ∀ s ∈ liveSlots slots, 0 ≤ s.w) (hx : ∀ s ∈ liveSlots slots, s.x = 0 ∨ s.x = 1)
    (h : weighted slots = some r) :
    r ≠ 0 ↔ ∃ s ∈ liveSlots slots, 0 < s.w ∧ s.x = 1 := by
  rw [weighted_eq_spec] at h
  split at h
  · rename_i hpos
    simp only [Option.some.injEq] at h
    subst h
    have hx0 : ∀ s ∈ liveSlots slots, 0 ≤ s.x := by
      intro s hs; rcases hx s hs with e | e <;> rw [e] <;> norm_num
    constructor
    · intro hne
      by_contra hno
      apply hne
      have : sumWX (liveSlots slots) = 0 := by
        apply aux_sumWX_zero
        intro s hs
        rcases hx s hs with e | e
        · rw [e]; ring
        · have : ¬ 0 < s.w := fun hp => hno ⟨s, hs, hp, e⟩
          have : s.w = 0 := le_antisymm (not_lt.mp this) (hw s hs)
          rw [this]; ring
      rw [this]; simp
    · rintro ⟨s, hs, hp, e⟩
      have h1 := aux_term_le_sum _ hw hx0 s hs
      rw [e] at h1
      have : 0 < sumWX (liveSlots slots) := by linarith
      exact (div_pos this hpos).ne'
  · cases h

def sumW2 (ss : List Slot) : Rat := (ss.map (fun s => s.w ^ 2)).sum
def sumWD2 (mu : Rat) (ss : List Slot) : Rat := (ss.map (fun s => s.w * (s.x - mu) ^ 2)).sum

theorem aux_fold_w2 (slots : List Slot) : ∀ (a : Rat),
    slots.foldl (fun acc s => acc + (if s.live then s.w else 0) ^ 2) a = a + sumW2 (liveSlots slots) := by
  induction slots with
  | nil => intro a; simp [liveSlots, sumW2]
  | cons s ss ih =>
    intro a
    simp only [List.foldl_cons]; rw [ih]
    cases hs : s.live
    · simp [liveSlots, hs, sumW2]
    · simp only [liveSlots, List.filter_cons, hs, if_true, sumW2, List.map_cons, List.sum_cons]; ring

theorem aux_fold_wd2 (mu : Rat) (slots : List Slot) : ∀ (a : Rat),
    slots.foldl (fun acc s =>
      let wt := if s.live then s.w else 0
      let v := if s.live then s.x else 0
      acc + wt * (v - mu) ^ 2) a = a + sumWD2 mu (liveSlots slots) := by
  induction slots with
  | nil => intro a; simp [liveSlots, sumWD2]
  | cons s ss ih =>
    intro a
    simp only [List.foldl_cons]; rw [ih]
    cases hs : s.live
    · simp [liveSlots, hs, sumWD2]
    · simp only [liveSlots, List.filter_cons, hs, if_true, sumWD2, List.map_cons, List.sum_cons]; ring

/-- **uncertainty**: the squared standard deviation is the documented unbiased weighted estimator
`V1 / (V1² − V2) · Σ wᵢ (xᵢ − μ)²` over the contributing neighbours (V1 = Σ wᵢ, V2 = Σ wᵢ²), and is
undefined exactly when at most one neighbour contributes, nothing has positive weight, or the estimator's own denominator
`V1² − V2` vanishes (all but one of the contributing weights are zero: the real code divides by zero there and delivers inf / NaN) -/
theorem variance_eq_estimator (slots : List Slot) :
    variance slots =
      match weighted slots with
      | none => none
      | some mu =>
        if (liveSlots slots).length > 1 ∧ sumW (liveSlots slots) ^ 2 - sumW2 (liveSlots slots) ≠ 0 then
          some (sumW (liveSlots slots) / (sumW (liveSlots slots) ^ 2 - sumW2 (liveSlots slots)) * sumWD2 mu (liveSlots slots))
        else none := by
  unfold variance
  cases h : weighted slots with
  | none => rfl
  | some mu =>
    simp only [accum_eq, aux_fold_w2, aux_fold_wd2, zero_add, count_eq]

theorem aux_sq_ge (ss : List Slot) (hw : ∀ s ∈ ss, 0 ≤ s.w) : sumW2 ss ≤ sumW ss ^ 2 ∧ 0 ≤ sumW ss := by
  induction ss with
  | nil => simp [sumW, sumW2]
  | cons s ss ih =>
    have h1 := hw s List.mem_cons_self
    have ⟨h2, h3⟩ := ih (fun t ht => hw t (List.mem_cons_of_mem _ ht))
    simp only [sumW, sumW2, List.map_cons, List.sum_cons] at h2 h3 ⊢
    constructor
    · nlinarith [mul_nonneg h1 h3]
    · linarith

theorem aux_wd2_nonneg (mu : Rat) (ss : List Slot) (hw : ∀ s ∈ ss, 0 ≤ s.w) : 0 ≤ sumWD2 mu ss := by
  induction ss with
  | nil => simp [sumWD2]
  | cons s ss ih =>
    have h1 := hw s List.mem_cons_self
    have h2 := ih (fun t ht => hw t (List.mem_cons_of_mem _ ht))
    simp only [sumWD2, List.map_cons, List.sum_cons] at h2 ⊢
    have := mul_nonneg h1 (sq_nonneg (s.x - mu))
    linarith

/-- **the standard deviation is a real number**: with non-negative weights the estimator's radicand is never negative, so wherever
the variance is defined its square root is (no NaN out of `sqrt` of a negative number) -/
theorem variance_nonneg (slots : List Slot) (hw : ∀ s ∈ liveSlots slots, 0 ≤ s.w) (v : Rat) (h : variance slots = some v) : 0 ≤ v := by
  rw [variance_eq_estimator] at h
  cases hwt : weighted slots with
  | none => rw [hwt] at h; cases h
  | some mu =>
    rw [hwt] at h
    simp only at h
    split at h
    · rename_i hc
      simp only [Option.some.injEq] at h
      subst h
      have ⟨h2, h3⟩ := aux_sq_ge _ hw
      have hd : 0 < sumW (liveSlots slots) ^ 2 - sumW2 (liveSlots slots) := lt_of_le_of_ne (by linarith) (Ne.symm hc.2)
      exact mul_nonneg (div_nonneg h3 hd.le) (aux_wd2_nonneg mu _ hw)
    · cases h

/-! non-vacuity -/
example : weighted [⟨true, 1, 4⟩, ⟨false, 5, 100⟩, ⟨true, 3, 8⟩] = some 7 := by decide +kernel
example : count [⟨true, 1, 4⟩, ⟨false, 5, 100⟩, ⟨true, 3, 8⟩] = 2 := by decide
/-- two contributing neighbours, one with weight 0: the estimator's denominator vanishes, the result is undefined (the code: inf) -/
example : variance [⟨true, 1/4, 5⟩, ⟨true, 0, -2⟩] = none := by decide +kernel
example : variance [⟨true, 1, 4⟩, ⟨true, 3, 8⟩] = some 8 := by decide +kernel

end PyresampleModel.C04
