import PyresampleModel.Model.C04

/-
  C04 — property theorems (stub: none yet).
-/
namespace PyresampleModel.C04

end PyresampleModel.C04
