import PyresampleModel.Model.C12
import PyresampleModel.Proofs.Num

/-
  C12 — property theorems: memo never stale under any history; digest input representation-free
  and injective; equality reflexive and symmetric.
-/
namespace PyresampleModel.C12

/-! ### memoised hash -/

def MemoOk (g : Geo) : Prop := g.memo = none ∨ g.memo = some g.rows

theorem step_memo (g : Geo) (op : Op) (h : MemoOk g) : MemoOk (step g op).1 := by
  cases op with
  | hash =>
    rcases h with h | h
    · right; simp [step, Geo.hashVal, h]
    · right; simp [step, Geo.hashVal, h]
  | append o => left; rfl
  | slice s => left; rfl
  | copy => left; rfl

/-- the memo is never stale: in every state reachable through any sequence of public operations
it is either empty or the digest input of the *current* coordinates -/
theorem memo_inv (ops : List Op) : ∀ (g : Geo), MemoOk g → MemoOk (run g ops) := by
  induction ops with
  | nil => intro g h; exact h
  | cons op ops ih => intro g h; exact ih _ (step_memo g op h)

/-- **hash after any history**: whatever was done to a coordinate definition before — hashing,
appending, slicing, copying, in any order — `hash()` returns the digest of the coordinates it has now -/
theorem hash_fresh_after_any_history (rows : List (List Rat)) (ops : List Op) :
    (step (run ⟨rows, none⟩ ops) Op.hash).2 = some (run ⟨rows, none⟩ ops).rows := by
  have h := memo_inv ops ⟨rows, none⟩ (Or.inl rfl)
  rcases h with h | h <;> simp [step, Geo.hashVal, h]

/-- the pre-fix `append` kept the memo: hash, append, hash returns the digest of the OLD coordinates -/
theorem old_append_stale :
    ∃ (rows o : List (List Rat)),
      (stepOld (runOld ⟨rows, none⟩ [Op.hash, Op.append o]) Op.hash).2 ≠
        some (runOld ⟨rows, none⟩ [Op.hash, Op.append o]).rows :=
  ⟨[[1]], [[2]], by decide⟩

/-! ### digest of an area -/

/-- **representation-free**: numerically identical extents, in any spelling (ints, float64,
float32), with the same CRS text and shape give the same digest input -/
theorem equal_numbers_equal_digest (a b : AreaSpec) (hw : a.wkt = b.wkt) (hh : a.height = b.height)
    (hwd : a.width = b.width) (hv : a.extent.map Num.val = b.extent.map Num.val) :
    serializeArea a = serializeArea b := by
  simp only [serializeArea, f64Items, hw, hh, hwd, Ser.mk.injEq, true_and]
  congr 1
  have : ∀ (xs ys : List Num), xs.map Num.val = ys.map Num.val →
      xs.map (fun x => Item.f64 x.val) = ys.map (fun x => Item.f64 x.val) := by
    intro xs ys h
    have := congrArg (List.map Item.f64) h
    simp only [List.map_map] at this
    exact this
  exact this _ _ hv

/-- before the fix the digest input depended on the spelling: (0, 0, 4000, 5000) vs (0., 0., 4000., 5000.) -/
theorem old_spelling_dependent :
    ∃ (a b : AreaSpec), a.wkt = b.wkt ∧ a.height = b.height ∧ a.width = b.width ∧
      a.extent.map Num.val = b.extent.map Num.val ∧ serializeAreaOld a ≠ serializeAreaOld b :=
  ⟨⟨[], 5, 4, [.int 0, .int 0, .int 4000, .int 5000]⟩, ⟨[], 5, 4, [.f64 0, .f64 0, .f64 4000, .f64 5000]⟩,
    rfl, rfl, rfl, by decide +kernel, by decide +kernel⟩

theorem aux_f64_inj : ∀ (xs ys : List Num), f64Items xs = f64Items ys → xs.map Num.val = ys.map Num.val := by
  intro xs
  induction xs with
  | nil => intro ys h; cases ys <;> simp_all [f64Items]
  | cons x xs ih =>
    intro ys h
    cases ys with
    | nil => simp [f64Items] at h
    | cons y ys =>
      simp only [f64Items, List.map_cons, List.cons.injEq, Item.f64.injEq] at h
      simp only [List.map_cons, List.cons.injEq]
      exact ⟨h.1, ih ys h.2⟩

/-- an encoding of items into bytes in which every item takes 8 bytes and different items differ -/
structure Enc where
  bytes : Item → List Nat
  len   : ∀ it, (bytes it).length = 8
  inj   : ∀ a b, bytes a = bytes b → a = b

def flatten (e : Enc) (s : Ser) : List Nat := s.wkt ++ s.items.flatMap e.bytes

theorem aux_flat_len (e : Enc) (xs : List Item) : (xs.flatMap e.bytes).length = 8 * xs.length := by
  induction xs with
  | nil => rfl
  | cons x xs ih => simp [List.flatMap_cons, e.len, ih]; omega

theorem aux_flat_inj (e : Enc) : ∀ (xs ys : List Item), xs.length = ys.length →
    xs.flatMap e.bytes = ys.flatMap e.bytes → xs = ys := by
  intro xs
  induction xs with
  | nil => intro ys hl _; cases ys <;> simp_all
  | cons x xs ih =>
    intro ys hl h
    cases ys with
    | nil => simp at hl
    | cons y ys =>
      simp only [List.flatMap_cons] at h
      have := List.append_inj h (by rw [e.len, e.len])
      rw [e.inj _ _ this.1, ih ys (by simpa using hl) this.2]

/-- **different geometry ⇒ different digest input**: the byte string fed to the digest — WKT bytes
followed by the fixed-width shape and extent — determines the CRS text, the shape and the extent
values (so, the digest being collision-free, areas differing in any of them get different digests) -/
theorem serialize_injective (e : Enc) (a b : AreaSpec) (hl : a.extent.length = b.extent.length)
    (h : flatten e (serializeArea a) = flatten e (serializeArea b)) :
    a.wkt = b.wkt ∧ a.height = b.height ∧ a.width = b.width ∧ a.extent.map Num.val = b.extent.map Num.val := by
  simp only [flatten, serializeArea] at h
  have hlen : ([Item.i64 a.height, Item.i64 a.width] ++ f64Items a.extent).length =
      ([Item.i64 b.height, Item.i64 b.width] ++ f64Items b.extent).length := by
    simp [f64Items, hl]
  have := List.append_inj' h (by rw [aux_flat_len, aux_flat_len, hlen])
  have hitems := aux_flat_inj e _ _ hlen this.2
  simp only [List.cons_append, List.nil_append, List.cons.injEq, Item.i64.injEq] at hitems
  exact ⟨this.1, by exact_mod_cast hitems.1, by exact_mod_cast hitems.2.1, aux_f64_inj _ _ hitems.2.2⟩

/-! ### equality -/

theorem aux_allclose_refl (rtol atol : Rat) (hr : 0 ≤ rtol) (ha : 0 ≤ atol) (xs : List Rat) :
    allclose rtol atol xs xs = true := by
  simp only [allclose, beq_self_eq_true, Bool.true_and, List.all_eq_true, decide_eq_true_eq]
  intro p hp
  have : p.1 = p.2 := by
    have := List.of_mem_zip hp
    induction xs with
    | nil => simp at hp
    | cons x xs ih =>
      simp only [List.zip_cons_cons, List.mem_cons] at hp
      rcases hp with rfl | hp
      · rfl
      · exact ih hp (List.of_mem_zip hp)
  rw [this, sub_self]
  have h0 : absQ 0 = 0 := by simp [absQ]
  have : 0 ≤ absQ p.2 := by unfold absQ; split <;> linarith
  rw [h0]; positivity

/-- equality is reflexive -/
theorem areaEq_refl (a : AreaSpec) : areaEq true a a = true := by
  have h := aux_allclose_refl (1/100000) (1/100000000) (by norm_num) (by norm_num) (a.extent.map Num.val)
  simp only [areaEq, h, beq_self_eq_true, Bool.and_self]

/-- equality is symmetric (given that CRS equality is) -/
theorem areaEq_symm (c : Bool) (a b : AreaSpec) : areaEq c a b = areaEq c b a := by
  simp only [areaEq]
  rw [Bool.and_comm (allclose _ _ (a.extent.map Num.val) _)]
  have h1 : (a.height == b.height) = (b.height == a.height) := by
    rw [Bool.eq_iff_iff]; simp only [beq_iff_eq]; exact eq_comm
  have h2 : (a.width == b.width) = (b.width == a.width) := by
    rw [Bool.eq_iff_iff]; simp only [beq_iff_eq]; exact eq_comm
  rw [h1, h2]

/-- the defect repaired by the `fix:` commit: one-directional `np.allclose` is not symmetric -/
theorem areaEqOld_not_symm : ∃ (a b : AreaSpec), areaEqOld true a b = true ∧ areaEqOld true b a = false :=
  ⟨⟨[], 5, 4, [.f64 0, .f64 0, .f64 100000, .f64 5000]⟩,
   ⟨[], 5, 4, [.f64 0, .f64 0, .f64 (1000010000001 / 10000000), .f64 5000]⟩, by decide +kernel, by decide +kernel⟩


/-! ### swath digests: the feed determines the coordinates -/

/-- two swaths of the same shape and dtype (same byte lengths) with the same digest input have the same
longitudes, the same latitudes and the same mask: nothing of the coordinates is lost or mixed on the way into the hash -/
theorem swath_feed_injective (lons lats lons' lats' : List Nat) (m m' : Option (List Nat))
    (h1 : lons.length = lons'.length) (h2 : lats.length = lats'.length)
    (h : swathFeed lons lats m = swathFeed lons' lats' m') : lons = lons' ∧ lats = lats' ∧ m.getD [] = m'.getD [] := by
  unfold swathFeed at h
  obtain ⟨a, b⟩ := List.append_inj h h1
  obtain ⟨c, d⟩ := List.append_inj b h2
  exact ⟨a, c, d⟩

/-- exchanging longitudes and latitudes changes the digest input -/
theorem swath_feed_exchange (lons lats : List Nat) (hl : lons.length = lats.length) (hne : lons ≠ lats) :
    swathFeed lons lats none ≠ swathFeed lats lons none := by
  intro h
  exact hne (swath_feed_injective lons lats lats lons none none hl hl.symm h).1

example : swathFeed [1, 2] [3, 4] (some [0, 1]) = [1, 2, 3, 4, 0, 1] := by decide

end PyresampleModel.C12
