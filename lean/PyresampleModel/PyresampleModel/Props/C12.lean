import PyresampleModel.Model.C12

/-
  C12 — property theorems (stub: none yet).
-/
namespace PyresampleModel.C12

end PyresampleModel.C12
