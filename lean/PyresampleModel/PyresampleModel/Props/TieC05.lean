import PyresampleModel.Gen.Src

/-
  Tie theorem, C05: when does `KDTreeNearestXarrayResampler` pass a data mask to the neighbour query?  The tri-state
  `mask_area` argument of `_get_area_mask`, as translated from /repo's current source (the first statement — an explicit
  mask array is returned as is — and the last — `if mask_area: return self.compute_data_mask(data)` — are required
  verbatim): the data's own mask is computed exactly when `mask_area` is True, or is not given and the source is a swath;
  `mask_area=False` always switches it off ("when a data mask is supplied …" of the statement: without one, the result must
  be the numpy resampler's, NaN pixels included).
-/
namespace PyresampleModel.Tie
open PyresampleModel

theorem code_mask_decision (mask_area : Option Bool) (is_swath : Bool) :
    (Gen.nn_mask_decision mask_area is_swath = some true) ↔
      (mask_area = some true ∨ (mask_area = none ∧ is_swath = true)) := by
  cases mask_area with
  | none => cases is_swath <;> simp [Gen.nn_mask_decision]
  | some b => cases b <;> cases is_swath <;> simp [Gen.nn_mask_decision]

theorem code_mask_false_is_off (is_swath : Bool) : Gen.nn_mask_decision (some false) is_swath = some false := by
  cases is_swath <;> simp [Gen.nn_mask_decision]

end PyresampleModel.Tie
