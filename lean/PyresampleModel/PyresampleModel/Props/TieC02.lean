import PyresampleModel.Gen.Src
import PyresampleModel.Model.C02
import PyresampleModel.Proofs.Num

/-
  Tie theorems, C02 (also C03): the test that decides which source / target coordinates are legal, as translated from
  /repo's current `kd_tree._get_valid_input_index` / `_get_valid_output_index` (elementwise; NaN = `none`, every
  comparison with NaN is False), equals the model's `validCoord`; for targets it is and-ed with the reduction's mask.
-/
namespace PyresampleModel.Tie
open PyresampleModel

theorem tie_kd_valid_input (lon lat : Option Rat) : Gen.kd_valid_input lon lat = C02.validCoord lon lat := by
  cases lon <;> cases lat <;> simp [Gen.kd_valid_input, C02.validCoord, Gen.nGe, Gen.nLe]

theorem tie_kd_valid_output (lon lat : Option Rat) (keep : Bool) :
    Gen.kd_valid_output lon lat keep = (keep && C02.validCoord lon lat) := by
  cases lon <;> cases lat <;> simp [Gen.kd_valid_output, C02.validCoord, Gen.nGe, Gen.nLe]

/-- hence (with `validCoord_iff` of `Props/C02.lean`): out-of-range and non-finite coordinates never contribute -/
theorem code_invalid_never_valid (lon lat : Option Rat) (h : lon = none ∨ lat = none) :
    Gen.kd_valid_input lon lat = false ∧ ∀ keep, Gen.kd_valid_output lon lat keep = false := by
  rcases h with h | h
  · subst h; cases lat <;> simp [tie_kd_valid_input, tie_kd_valid_output, C02.validCoord]
  · subst h; cases lon <;> simp [tie_kd_valid_input, tie_kd_valid_output, C02.validCoord]

end PyresampleModel.Tie
