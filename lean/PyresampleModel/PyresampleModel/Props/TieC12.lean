import PyresampleModel.Gen.Src
import PyresampleModel.Props.C12
import PyresampleModel.Props.TieC10

/-
  Tie theorems, C12: `AreaDefinition.__eq__` as translated from /repo's current source (the body of its `try:`; the
  `except AttributeError` fallback is required verbatim; `self.crs == other.crs` and `self.shape == other.shape` are
  Boolean parameters) equals the model's `areaEq` on four-number extents — closeness tested in both directions — and is
  therefore reflexive and symmetric.  `np.allclose` is read with its default tolerances as decimals (numpy evaluates
  `atol + rtol * |b|` in floating point, which is not modelled).
-/
namespace PyresampleModel.Tie
open PyresampleModel

theorem pyAbsQ_eq12 (q : Rat) : Gen.pyAbsQ q = C12.absQ q := by
  simp only [Gen.pyAbsQ, C12.absQ]
  by_cases h : q < 0
  · simp [h, not_le.mpr h]
  · simp [h, not_lt.mp h]

theorem aux_allclose4 (a b : Rat × Rat × Rat × Rat) :
    Gen.npAllclose4 a b = C12.allclose (1 / 100000) (1 / 100000000) [a.1, a.2.1, a.2.2.1, a.2.2.2] [b.1, b.2.1, b.2.2.1, b.2.2.2] := by
  simp [Gen.npAllclose4, Gen.npClose, C12.allclose, pyAbsQ_eq12, Bool.and_assoc]

/-- the extent of an area as the model spells it (the spelling does not matter to `==`) -/
def extentOf (e : Rat × Rat × Rat × Rat) : List C12.Num := [.f64 e.1, .f64 e.2.1, .f64 e.2.2.1, .f64 e.2.2.2]

theorem tie_area_eq (wa wb : List Nat) (ha wa' hb wb' : Nat) (ea eb : Rat × Rat × Rat × Rat) (crs : Bool) :
    Gen.area_eq ea eb crs (decide ((ha, wa') = (hb, wb'))) =
      C12.areaEq crs ⟨wa, ha, wa', extentOf ea⟩ ⟨wb, hb, wb', extentOf eb⟩ := by
  simp only [Gen.area_eq, aux_allclose4, C12.areaEq, extentOf, List.map_cons, List.map_nil, C12.Num.val, Prod.mk.injEq]
  by_cases h1 : ha = hb <;> by_cases h2 : wa' = wb' <;> simp [h1, h2, Bool.and_assoc]

/-- `a == b` and `b == a` agree for the regenerated `__eq__` (given that CRS and shape equality are symmetric, which they are:
`pyproj.CRS.__eq__` and tuple equality) -/
theorem code_area_eq_symm (ea eb : Rat × Rat × Rat × Rat) (crs shp : Bool) :
    Gen.area_eq ea eb crs shp = Gen.area_eq eb ea crs shp := by
  simp only [Gen.area_eq]
  cases Gen.npAllclose4 ea eb <;> cases Gen.npAllclose4 eb ea <;> rfl

/-- an area equals itself -/
theorem code_area_eq_refl (e : Rat × Rat × Rat × Rat) : Gen.area_eq e e true true = true := by
  have h := C12.aux_allclose_refl (1 / 100000) (1 / 100000000) (by norm_num) (by norm_num) [e.1, e.2.1, e.2.2.1, e.2.2.2]
  simp only [Gen.area_eq, aux_allclose4, h, Bool.and_self]

/-- equal shape, equal CRS and extents that differ by less than the tolerance in *one* direction only are NOT equal
(the one-directional test that an earlier `fix:` commit replaced would have said yes one way and no the other: `C12.areaEqOld_not_symm`) -/
example : Gen.area_eq (0, 0, 100000, 5000) (0, 0, 1000010000001 / 10000000, 5000) true true = false := by decide +kernel
example : Gen.area_eq (0, 0, 100000, 5000) (0, 0, 100000 + 1 / 2, 5000) true true = true := by decide +kernel

end PyresampleModel.Tie
