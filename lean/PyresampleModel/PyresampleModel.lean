import PyresampleModel.Model.Core
import PyresampleModel.Model.C19
