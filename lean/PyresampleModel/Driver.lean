import PyresampleModel.Model.Core
import PyresampleModel.Model.C19

/-
  Line-protocol driver: one request per line `<Cxx> <op> <args…>`, one reply per line.
  Replies: the op's canonical output, `err:<kind>` for inputs the real code rejects,
  `bad-op` for a request the model does not understand (never a default value).
-/
open PyresampleModel

def dispatch (line : String) : String :=
  match Wire.tokens line with
  | "C19" :: rest => (C19.handle rest).getD "bad-op"
  | ["ping"] => "pong"
  | _ => "bad-op"

partial def loop (hin hout : IO.FS.Stream) : IO Unit := do
  let line ← hin.getLine
  if line.isEmpty then return ()
  hout.putStrLn (dispatch (line.trimAscii.toString))
  hout.flush
  loop hin hout

def main : IO Unit := do
  loop (← IO.getStdin) (← IO.getStdout)
